"""Idiom normalisation applied to every parsed module *and* to every specification expression (norm.parse),
so that equivalent spellings of the same operation are one form before any rule looks at them.

  np.flatnonzero(m), np.nonzero(m)[0]      ->  np.where(m)[0]
  [a, b, *rest] / (a, *rest)               ->  [a, b] + list(rest) / (a,) + tuple(rest)   (trailing / leading star only)
  np.max(x, ...) etc.                      ->  x.max(...)      (max min sum mean std all any argsort argmax argmin ptp)
  dict(k=v, ...)                           ->  {"k": v, ...}
  not (a is b), not (a in b), not a == b   ->  a is not b, a not in b, a != b
  'v{0}'.format(i), 'v{}'.format(i)         ->  f'v{i}'
  x if not c else y                        ->  y if c else x   (also for `is not None`, `!=`, `not in` tests)
"""
import ast

REDUCERS = {"max", "min", "sum", "mean", "std", "all", "any", "argsort", "argmax", "argmin", "ptp", "amax", "amin"}
ALIAS = {"amax": "max", "amin": "min"}
NP = {"np", "numpy"}
_NEG = {ast.Is: ast.IsNot, ast.IsNot: ast.Is, ast.In: ast.NotIn, ast.NotIn: ast.In, ast.Eq: ast.NotEq, ast.NotEq: ast.Eq}
_NEGATIVE_OPS = (ast.IsNot, ast.NotIn, ast.NotEq)


def _is_np(node):
    return isinstance(node, ast.Name) and node.id in NP


def _format_to_fstring(fmt, args):
    """'v{0}'.format(i) / 'v{}'.format(i) -> f'v{i}'  (plain positional fields without conversion or format spec only)"""
    import string
    vals = []
    auto = 0
    try:
        parts = list(string.Formatter().parse(fmt))
    except ValueError:
        return None
    for lit, field, spec, conv in parts:
        if lit:
            vals.append(ast.Constant(value=lit))
        if field is None:
            continue
        if spec or conv:
            return None
        if field == "":
            i = auto
            auto += 1
        elif field.isdigit():
            i = int(field)
        else:
            return None
        if i >= len(args):
            return None
        vals.append(ast.FormattedValue(value=args[i], conversion=-1, format_spec=None))
    return ast.JoinedStr(values=vals)


class _N(ast.NodeTransformer):
    def visit_Call(self, n):
        self.generic_visit(n)
        f = n.func
        if isinstance(f, ast.Attribute) and _is_np(f.value):
            if f.attr == "flatnonzero" and len(n.args) == 1 and not n.keywords:
                w = ast.Call(func=ast.Attribute(value=f.value, attr="where", ctx=ast.Load()), args=n.args, keywords=[])
                return ast.copy_location(ast.Subscript(value=ast.copy_location(w, n), slice=ast.Constant(value=0), ctx=ast.Load()), n)
            if f.attr in REDUCERS and n.args and not isinstance(n.args[0], ast.Starred):
                recv = n.args[0]
                if not isinstance(recv, (ast.List, ast.Tuple, ast.ListComp, ast.GeneratorExp, ast.Constant)):
                    m = ast.Attribute(value=recv, attr=ALIAS.get(f.attr, f.attr), ctx=ast.Load())
                    return ast.copy_location(ast.Call(func=ast.copy_location(m, n), args=n.args[1:], keywords=n.keywords), n)
        if isinstance(f, ast.Attribute) and f.attr in ALIAS and not _is_np(f.value):
            f.attr = ALIAS[f.attr]
        if isinstance(f, ast.Attribute) and f.attr == "format" and isinstance(f.value, ast.Constant) and isinstance(f.value.value, str) and not n.keywords \
                and n.args and not any(isinstance(a, ast.Starred) for a in n.args):
            js = _format_to_fstring(f.value.value, n.args)
            if js is not None:
                return ast.copy_location(js, n)
        if isinstance(f, ast.Name) and f.id == "dict" and not n.args and n.keywords and all(k.arg for k in n.keywords):
            return ast.copy_location(ast.Dict(keys=[ast.Constant(value=k.arg) for k in n.keywords], values=[k.value for k in n.keywords]), n)
        return n

    def visit_Attribute(self, n):
        self.generic_visit(n)
        # np.unique(x).size -> len(np.unique(x))   (np.unique returns a 1-D array)
        v = n.value
        if n.attr == "size" and isinstance(n.ctx, ast.Load) and isinstance(v, ast.Call) and isinstance(v.func, ast.Attribute) and _is_np(v.func.value) and v.func.attr == "unique":
            return ast.copy_location(ast.Call(func=ast.Name(id="len", ctx=ast.Load()), args=[v], keywords=[]), n)
        return n

    def visit_Subscript(self, n):
        self.generic_visit(n)
        # np.nonzero(m)[0] -> np.where(m)[0]
        v = n.value
        if isinstance(v, ast.Call) and isinstance(v.func, ast.Attribute) and _is_np(v.func.value) and v.func.attr == "nonzero" and len(v.args) == 1:
            v.func.attr = "where"
        return n

    def _star(self, n, mk):
        elts = n.elts
        stars = [i for i, e in enumerate(elts) if isinstance(e, ast.Starred)]
        if len(stars) != 1 or not isinstance(n.ctx, ast.Load):
            return n
        i = stars[0]
        conv = "list" if isinstance(n, ast.List) else "tuple"
        rest = ast.Call(func=ast.Name(id=conv, ctx=ast.Load()), args=[elts[i].value], keywords=[])
        if i == len(elts) - 1 and len(elts) > 1:
            head = mk(elts[:i])
            return ast.copy_location(ast.BinOp(left=head, op=ast.Add(), right=rest), n)
        if i == 0 and len(elts) > 1:
            tail = mk(elts[1:])
            return ast.copy_location(ast.BinOp(left=rest, op=ast.Add(), right=tail), n)
        return n

    def visit_List(self, n):
        self.generic_visit(n)
        return self._star(n, lambda e: ast.List(elts=e, ctx=ast.Load()))

    def visit_Tuple(self, n):
        self.generic_visit(n)
        return self._star(n, lambda e: ast.Tuple(elts=e, ctx=ast.Load()))

    def visit_UnaryOp(self, n):
        self.generic_visit(n)
        if isinstance(n.op, ast.Not) and isinstance(n.operand, ast.Compare) and len(n.operand.ops) == 1 and type(n.operand.ops[0]) in _NEG:
            c = n.operand
            return ast.copy_location(ast.Compare(left=c.left, ops=[_NEG[type(c.ops[0])]()], comparators=c.comparators), n)
        return n

    def visit_IfExp(self, n):
        self.generic_visit(n)
        t = n.test
        flip = False
        if isinstance(t, ast.UnaryOp) and isinstance(t.op, ast.Not):
            t, flip = t.operand, True
        elif isinstance(t, ast.Compare) and len(t.ops) == 1 and isinstance(t.ops[0], _NEGATIVE_OPS):
            t = ast.Compare(left=t.left, ops=[_NEG[type(t.ops[0])]()], comparators=t.comparators)
            flip = True
        if flip:
            return ast.copy_location(ast.IfExp(test=t, body=n.orelse, orelse=n.body), n)
        return n


def normalize(tree):
    new = _N().visit(tree)
    ast.fix_missing_locations(new)
    return new
