"""Idiom normalisation applied to every parsed module *and* to every specification expression (norm.parse),
so that equivalent spellings of the same operation are one form before any rule looks at them.

  np.flatnonzero(m), np.nonzero(m)[0]      ->  np.where(m)[0]
  [a, b, *rest] / (a, *rest)               ->  [a, b] + list(rest) / (a,) + tuple(rest)   (trailing / leading star only)
  np.max(x, ...) etc.                      ->  x.max(...)      (max min sum mean std all any argsort argmax argmin ptp)
  dict(k=v, ...)                           ->  {"k": v, ...}
  not (a is b), not (a in b), not a == b   ->  a is not b, a not in b, a != b
  'v{0}'.format(i), 'v{}'.format(i)         ->  f'v{i}'
  x in [a, b]                               ->  x in (a, b)
  a < b <= c                                ->  a < b and b <= c
  list(X.keys()), len(X.keys()) ...         ->  list(X), len(X)
  X.get(k, None)                            ->  X.get(k)
  f(a, **{"k": v})                          ->  f(a, k=v)
  X.update({k: E for k in L})               ->  for k in L: X[k] = E
  [f(x) for x in A + B] / in [a, b] / in list(Y)  ->  [f(x) for x in A] + [f(x) for x in B] / [f(a), f(b)] / in Y
  [a, *x, b, *y]                            ->  [a] + list(x) + [b] + list(y)
  not f(x).all()                            ->  (~f(x)).any()
  i = 0; while i < N: BODY; i += 1 [else]   ->  for i in range(N): BODY [else]      (normalize_loops; conditions in its docstring)
  x = A if c else B;  return A if c else B  ->  if c: x = A else: x = B;  if c: return A else: return B
  np.subtract(a, b), pt.ge(a, b), pt.neg(a), np.add.reduce(x, axis=0)   ->  a - b, a >= b, -a, x.sum(axis=0)
  X[slice(a, b)]                             ->  X[a:b]
  {..} | {..}                                ->  {**{..}, **{..}}
  list([f(x) for x in L])                    ->  [f(x) for x in L]
  with contextlib.closing(E) as f            ->  with E as f
  with ExitStack() as S: S.callback(F, a); BODY   ->  try: BODY finally: F(a)
  x: T = v                                   ->  x = v        (bare `x: T` declarations disappear)
  match S: case Class(): A  case 1: B  case None: C  case _: D   ->  if isinstance(S, Class): A elif S == 1: B elif S is None: C else: D
  if (n := E) > 3: ...                       ->  n = E; if n > 3: ...   (only when E is the first non-trivial thing the statement evaluates)
  x if not c else y                        ->  y if c else x   (also for `is not None`, `!=`, `not in` tests)
"""
import ast

REDUCERS = {"max", "min", "sum", "mean", "std", "all", "any", "argsort", "argmax", "argmin", "ptp", "amax", "amin"}
ALIAS = {"amax": "max", "amin": "min"}
NP = {"np", "numpy"}
_NEG = {ast.Is: ast.IsNot, ast.IsNot: ast.Is, ast.In: ast.NotIn, ast.NotIn: ast.In, ast.Eq: ast.NotEq, ast.NotEq: ast.Eq}
_NEGATIVE_OPS = (ast.IsNot, ast.NotIn, ast.NotEq)


_BINOPS = {}
_CMPOPS = {}
_UNOPS = {}
for _root in ("np", "numpy", "pt", "tt", "pm.math"):
    for _nm, _op in (("add", ast.Add), ("subtract", ast.Sub), ("sub", ast.Sub), ("multiply", ast.Mult), ("mul", ast.Mult), ("divide", ast.Div), ("true_divide", ast.Div),
                     ("true_div", ast.Div), ("power", ast.Pow), ("pow", ast.Pow), ("mod", ast.Mod), ("remainder", ast.Mod), ("bitwise_and", ast.BitAnd), ("and_", ast.BitAnd),
                     ("bitwise_or", ast.BitOr), ("or_", ast.BitOr), ("logical_and", ast.BitAnd), ("logical_or", ast.BitOr)):
        _BINOPS["%s.%s" % (_root, _nm)] = _op
    for _nm, _op in (("greater", ast.Gt), ("gt", ast.Gt), ("greater_equal", ast.GtE), ("ge", ast.GtE), ("less", ast.Lt), ("lt", ast.Lt), ("less_equal", ast.LtE), ("le", ast.LtE)):
        _CMPOPS["%s.%s" % (_root, _nm)] = _op
    for _nm, _op in (("negative", ast.USub), ("neg", ast.USub), ("invert", ast.Invert), ("logical_not", ast.Invert), ("bitwise_not", ast.Invert)):
        _UNOPS["%s.%s" % (_root, _nm)] = _op


def _dotted(node):
    parts = []
    while isinstance(node, ast.Attribute):
        parts.append(node.attr)
        node = node.value
    if isinstance(node, ast.Name):
        parts.append(node.id)
        return ".".join(reversed(parts))
    return None


def _is_np(node):
    return isinstance(node, ast.Name) and node.id in NP


def _format_to_fstring(fmt, args):
    """'v{0}'.format(i) / 'v{}'.format(i) -> f'v{i}'  (plain positional fields without conversion or format spec only)"""
    import string
    vals = []
    auto = 0
    try:
        parts = list(string.Formatter().parse(fmt))
    except ValueError:
        return None
    for lit, field, spec, conv in parts:
        if lit:
            vals.append(ast.Constant(value=lit))
        if field is None:
            continue
        if spec or conv:
            return None
        if field == "":
            i = auto
            auto += 1
        elif field.isdigit():
            i = int(field)
        else:
            return None
        if i >= len(args):
            return None
        vals.append(ast.FormattedValue(value=args[i], conversion=-1, format_spec=None))
    return ast.JoinedStr(values=vals)


class _N(ast.NodeTransformer):
    def visit_Call(self, n):
        self.generic_visit(n)
        # range(0, n) / range(0, n, 1) -> range(n)
        if isinstance(n.func, ast.Name) and n.func.id == "range" and not n.keywords and len(n.args) in (2, 3) and isinstance(n.args[0], ast.Constant) and n.args[0].value == 0 \
                and type(n.args[0].value) is int and (len(n.args) == 2 or (isinstance(n.args[2], ast.Constant) and n.args[2].value == 1)):
            n.args = [n.args[1]]
        # dict([(k, v) for ...]) / dict((k, v) for ...)  ->  {k: v for ...}
        if isinstance(n.func, ast.Name) and n.func.id == "dict" and len(n.args) == 1 and not n.keywords and isinstance(n.args[0], (ast.ListComp, ast.GeneratorExp)) \
                and isinstance(n.args[0].elt, ast.Tuple) and len(n.args[0].elt.elts) == 2:
            c = n.args[0]
            return ast.copy_location(ast.DictComp(key=c.elt.elts[0], value=c.elt.elts[1], generators=c.generators), n)
        # any(f(x) for x in (a, b)) -> f(a) or f(b) ;  all(...) -> and     (literal display of at most 8 elements)
        if isinstance(n.func, ast.Name) and n.func.id in ("any", "all") and len(n.args) == 1 and not n.keywords and isinstance(n.args[0], (ast.GeneratorExp, ast.ListComp)) \
                and len(n.args[0].generators) == 1 and not n.args[0].generators[0].ifs and isinstance(n.args[0].generators[0].iter, (ast.Tuple, ast.List)) \
                and 1 <= len(n.args[0].generators[0].iter.elts) <= 8 and isinstance(n.args[0].generators[0].target, ast.Name) \
                and not any(isinstance(e, ast.Starred) for e in n.args[0].generators[0].iter.elts):
            g = n.args[0].generators[0]
            vals = [_subst_name(n.args[0].elt, g.target.id, e) for e in g.iter.elts]
            if len(vals) == 1:
                return ast.copy_location(vals[0], n)
            return ast.copy_location(ast.BoolOp(op=ast.Or() if n.func.id == "any" else ast.And(), values=vals), n)
        f = n.func
        # operators spelled as the ufunc / tensor function they dispatch to
        d_ = _dotted(f)
        if d_ in _BINOPS and len(n.args) == 2 and not n.keywords:
            return ast.copy_location(ast.BinOp(left=n.args[0], op=_BINOPS[d_](), right=n.args[1]), n)
        if d_ in _CMPOPS and len(n.args) == 2 and not n.keywords:
            return ast.copy_location(ast.Compare(left=n.args[0], ops=[_CMPOPS[d_]()], comparators=[n.args[1]]), n)
        if d_ in _UNOPS and len(n.args) == 1 and not n.keywords:
            return ast.copy_location(ast.UnaryOp(op=_UNOPS[d_](), operand=n.args[0]), n)
        if d_ in ("np.add.reduce", "numpy.add.reduce") and n.args:
            m_ = ast.Attribute(value=n.args[0], attr="sum", ctx=ast.Load())
            return self.visit_Call(ast.copy_location(ast.Call(func=ast.copy_location(m_, n), args=n.args[1:], keywords=n.keywords), n))
        # list([..comprehension / display..]) -> the list itself
        if isinstance(f, ast.Name) and f.id == "list" and len(n.args) == 1 and not n.keywords and isinstance(n.args[0], (ast.List, ast.ListComp)):
            return n.args[0]
        # list(X.keys()) -> list(X)   (iterating a mapping iterates its keys; also tuple / sorted / set / len)
        if isinstance(f, ast.Name) and f.id in ("list", "tuple", "sorted", "set", "len") and len(n.args) == 1 and not n.keywords:
            a0 = n.args[0]
            if isinstance(a0, ast.Call) and isinstance(a0.func, ast.Attribute) and a0.func.attr == "keys" and not a0.args and not a0.keywords:
                n.args = [a0.func.value]
        # X.get(k, None) -> X.get(k)
        if isinstance(f, ast.Attribute) and f.attr == "get" and len(n.args) == 2 and not n.keywords and isinstance(n.args[1], ast.Constant) and n.args[1].value is None:
            n.args = n.args[:1]
        # f(a, **{"k": v})  ->  f(a, k=v)
        if any(k.arg is None and isinstance(k.value, ast.Dict) for k in n.keywords):
            kws = []
            for k in n.keywords:
                if k.arg is None and isinstance(k.value, ast.Dict) and all(isinstance(x, ast.Constant) and isinstance(x.value, str) and x.value.isidentifier() for x in k.value.keys):
                    kws.extend(ast.keyword(arg=x.value, value=v) for x, v in zip(k.value.keys, k.value.values))
                else:
                    kws.append(k)
            n.keywords = kws
        if isinstance(f, ast.Attribute) and _is_np(f.value):
            if f.attr == "flatnonzero" and len(n.args) == 1 and not n.keywords:
                w = ast.Call(func=ast.Attribute(value=f.value, attr="where", ctx=ast.Load()), args=n.args, keywords=[])
                return ast.copy_location(ast.Subscript(value=ast.copy_location(w, n), slice=ast.Constant(value=0), ctx=ast.Load()), n)
            if f.attr in REDUCERS and n.args and not isinstance(n.args[0], ast.Starred):
                recv = n.args[0]
                if not isinstance(recv, (ast.List, ast.Tuple, ast.ListComp, ast.GeneratorExp, ast.Constant)):
                    m = ast.Attribute(value=recv, attr=ALIAS.get(f.attr, f.attr), ctx=ast.Load())
                    return ast.copy_location(ast.Call(func=ast.copy_location(m, n), args=n.args[1:], keywords=n.keywords), n)
        if isinstance(f, ast.Attribute) and f.attr in ALIAS and not _is_np(f.value):
            f.attr = ALIAS[f.attr]
        if isinstance(f, ast.Attribute) and f.attr == "format" and isinstance(f.value, ast.Constant) and isinstance(f.value.value, str) and not n.keywords \
                and n.args and not any(isinstance(a, ast.Starred) for a in n.args):
            js = _format_to_fstring(f.value.value, n.args)
            if js is not None:
                return ast.copy_location(js, n)
        if isinstance(f, ast.Name) and f.id == "dict" and not n.args and n.keywords and all(k.arg for k in n.keywords):
            return ast.copy_location(ast.Dict(keys=[ast.Constant(value=k.arg) for k in n.keywords], values=[k.value for k in n.keywords]), n)
        return n

    def visit_Attribute(self, n):
        self.generic_visit(n)
        # np.unique(x).size -> len(np.unique(x))   (np.unique returns a 1-D array)
        v = n.value
        if n.attr == "size" and isinstance(n.ctx, ast.Load) and isinstance(v, ast.Call) and isinstance(v.func, ast.Attribute) and _is_np(v.func.value) and v.func.attr == "unique":
            return ast.copy_location(ast.Call(func=ast.Name(id="len", ctx=ast.Load()), args=[v], keywords=[]), n)
        return n

    def visit_BinOp(self, n):
        self.generic_visit(n)
        # x + 0, 0 + x, x - 0 (integer literal zero: a parameterised helper called with offset 0)  ->  x
        def _zero(e):
            return isinstance(e, ast.Constant) and type(e.value) is int and e.value == 0
        if isinstance(n.op, ast.Add) and _zero(n.right) and not isinstance(n.left, (ast.List, ast.Tuple, ast.Constant, ast.JoinedStr)):
            return n.left
        if isinstance(n.op, ast.Add) and _zero(n.left) and not isinstance(n.right, (ast.List, ast.Tuple, ast.Constant, ast.JoinedStr)):
            return n.right
        if isinstance(n.op, ast.Sub) and _zero(n.right) and not isinstance(n.left, ast.Constant):
            return n.left
        # {..} | {..}  ->  {**{..}, **{..}}   (dict union; at least one operand is a dict display / comprehension, so both are mappings)
        if isinstance(n.op, ast.BitOr) and (isinstance(n.left, (ast.Dict, ast.DictComp)) or isinstance(n.right, (ast.Dict, ast.DictComp))):
            keys, vals = [], []
            for side in (n.left, n.right):
                if isinstance(side, ast.Dict):
                    keys += side.keys
                    vals += side.values
                else:
                    keys.append(None)
                    vals.append(side)
            return ast.copy_location(ast.Dict(keys=keys, values=vals), n)
        return n

    def visit_Subscript(self, n):
        self.generic_visit(n)
        # X[slice(a, b)] -> X[a:b]
        sl = n.slice
        if isinstance(sl, ast.Call) and isinstance(sl.func, ast.Name) and sl.func.id == "slice" and 1 <= len(sl.args) <= 3 and not sl.keywords \
                and not any(isinstance(a, ast.Starred) for a in sl.args):
            a = list(sl.args)

            def nn(x):
                return None if isinstance(x, ast.Constant) and x.value is None else x
            if len(a) == 1:
                n.slice = ast.Slice(lower=None, upper=nn(a[0]), step=None)
            elif len(a) == 2:
                n.slice = ast.Slice(lower=nn(a[0]), upper=nn(a[1]), step=None)
            else:
                n.slice = ast.Slice(lower=nn(a[0]), upper=nn(a[1]), step=nn(a[2]))
        # (a, b, c)[1] -> b ;  (X if c else Y)[1] -> X[1] if c else Y[1] for tuple displays X, Y
        if isinstance(n.ctx, ast.Load) and isinstance(n.slice, ast.Constant) and type(n.slice.value) is int:
            k = n.slice.value

            def pick(v_):
                if isinstance(v_, ast.Tuple) and not any(isinstance(e, ast.Starred) for e in v_.elts) and -len(v_.elts) <= k < len(v_.elts):
                    return v_.elts[k]
                if isinstance(v_, ast.IfExp):
                    a_, b_ = pick(v_.body), pick(v_.orelse)
                    if a_ is not None and b_ is not None:
                        return ast.copy_location(ast.IfExp(test=v_.test, body=a_, orelse=b_), v_)
                return None
            r = pick(n.value)
            if r is not None:
                return r
        # [E(v) for v in range(N)][j]  ->  E(j)     (j a name or constant; the element at a valid position of a comprehension over range)
        v0 = n.value
        if isinstance(n.ctx, ast.Load) and isinstance(v0, ast.ListComp) and len(v0.generators) == 1 and not v0.generators[0].ifs and isinstance(v0.generators[0].target, ast.Name) \
                and isinstance(v0.generators[0].iter, ast.Call) and isinstance(v0.generators[0].iter.func, ast.Name) and v0.generators[0].iter.func.id == "range" \
                and len(v0.generators[0].iter.args) == 1 and isinstance(n.slice, (ast.Name, ast.Constant)) and not (isinstance(n.slice, ast.Constant) and (type(n.slice.value) is not int or n.slice.value < 0)):
            return _subst_name(v0.elt, v0.generators[0].target.id, n.slice)
        # np.nonzero(m)[0] -> np.where(m)[0]
        v = n.value
        if isinstance(v, ast.Call) and isinstance(v.func, ast.Attribute) and _is_np(v.func.value) and v.func.attr == "nonzero" and len(v.args) == 1:
            v.func.attr = "where"
        return n

    def _star(self, n, mk):
        elts = n.elts
        stars = [i for i, e in enumerate(elts) if isinstance(e, ast.Starred)]
        if len(stars) > 1 and isinstance(n.ctx, ast.Load):
            # [a, *x, b, *y] -> [a] + list(x) + [b] + list(y)
            conv = "list" if isinstance(n, ast.List) else "tuple"
            parts, run = [], []
            for e in elts:
                if isinstance(e, ast.Starred):
                    if run:
                        parts.append(mk(run))
                        run = []
                    parts.append(ast.Call(func=ast.Name(id=conv, ctx=ast.Load()), args=[e.value], keywords=[]))
                else:
                    run.append(e)
            if run:
                parts.append(mk(run))
            out = parts[0]
            for q in parts[1:]:
                out = ast.BinOp(left=out, op=ast.Add(), right=q)
            return ast.copy_location(out, n)
        if len(stars) != 1 or not isinstance(n.ctx, ast.Load):
            return n
        i = stars[0]
        conv = "list" if isinstance(n, ast.List) else "tuple"
        rest = ast.Call(func=ast.Name(id=conv, ctx=ast.Load()), args=[elts[i].value], keywords=[])
        if i == len(elts) - 1 and len(elts) > 1:
            head = mk(elts[:i])
            return ast.copy_location(ast.BinOp(left=head, op=ast.Add(), right=rest), n)
        if i == 0 and len(elts) > 1:
            tail = mk(elts[1:])
            return ast.copy_location(ast.BinOp(left=rest, op=ast.Add(), right=tail), n)
        return n

    def visit_List(self, n):
        self.generic_visit(n)
        return self._star(n, lambda e: ast.List(elts=e, ctx=ast.Load()))

    def visit_Tuple(self, n):
        self.generic_visit(n)
        return self._star(n, lambda e: ast.Tuple(elts=e, ctx=ast.Load()))

    def visit_DictComp(self, n):
        self.generic_visit(n)
        # {k: f(v) for k, v in {"a": x, "b": y}.items()}  ->  {"a": f(x), "b": f(y)}   (also .keys() / .values() / a display of pairs)
        if len(n.generators) == 1 and not n.generators[0].ifs and not n.generators[0].is_async:
            g = n.generators[0]
            items = None
            it = g.iter
            if isinstance(it, ast.Call) and isinstance(it.func, ast.Attribute) and it.func.attr in ("items", "keys", "values") and not it.args and isinstance(it.func.value, ast.Dict) \
                    and all(k is not None for k in it.func.value.keys) and len(it.func.value.keys) <= 12:
                d = it.func.value
                items = [{"items": ast.Tuple(elts=[k, v], ctx=ast.Load()), "keys": k, "values": v}[it.func.attr] for k, v in zip(d.keys, d.values)]
            elif isinstance(it, (ast.Tuple, ast.List)) and len(it.elts) <= 12 and not any(isinstance(e, ast.Starred) for e in it.elts):
                items = list(it.elts)
            if items is not None:
                keys, vals = [], []
                ok = True
                for e in items:
                    if isinstance(g.target, ast.Name):
                        env = {g.target.id: e}
                    elif isinstance(g.target, ast.Tuple) and isinstance(e, ast.Tuple) and len(e.elts) == len(g.target.elts) and all(isinstance(t, ast.Name) for t in g.target.elts):
                        env = {t.id: x for t, x in zip(g.target.elts, e.elts)}
                    else:
                        ok = False
                        break
                    k_, v_ = n.key, n.value
                    for nm, val in env.items():
                        k_, v_ = _subst_name(k_, nm, val), _subst_name(v_, nm, val)
                    keys.append(k_)
                    vals.append(v_)
                if ok:
                    return ast.copy_location(ast.Dict(keys=keys, values=vals), n)
        return n

    def visit_ListComp(self, n):
        self.generic_visit(n)
        # [v for v in IT]  ->  list(IT)
        if len(n.generators) == 1 and not n.generators[0].ifs and isinstance(n.elt, ast.Name) and isinstance(n.generators[0].target, ast.Name) \
                and n.elt.id == n.generators[0].target.id and not n.generators[0].is_async:
            return ast.copy_location(ast.Call(func=ast.Name(id="list", ctx=ast.Load()), args=[n.generators[0].iter], keywords=[]), n)
        return _distribute(n)

    def visit_Assign(self, n):
        self.generic_visit(n)
        # a[k] = x = v   ->   x = v ; a[k] = x     (v is evaluated once either way; sound when x does not occur in the other targets)
        if len(n.targets) > 1:
            import copy
            for i, t in enumerate(n.targets):
                others = n.targets[:i] + n.targets[i + 1:]
                if isinstance(t, ast.Name) and not any(isinstance(x, ast.Name) and x.id == t.id for o in others for x in ast.walk(o)):
                    first = ast.copy_location(ast.Assign(targets=[t], value=n.value), n)
                    rest = [ast.copy_location(ast.Assign(targets=[o], value=ast.copy_location(ast.Name(id=t.id, ctx=ast.Load()), n)), n) for o in others]
                    out = []
                    for s_ in [first] + rest:
                        r = self.visit_Assign(s_) if isinstance(s_.value, ast.IfExp) else s_
                        out.extend(r if isinstance(r, list) else [r])
                    return out
        # x = A if c else B   ->   if c: x = A  else: x = B      (one evaluation of c either way)
        if isinstance(n.value, ast.IfExp) and len(n.targets) == 1 and isinstance(n.targets[0], ast.Name):
            import copy
            v = n.value
            a = ast.copy_location(ast.Assign(targets=[copy.deepcopy(n.targets[0])], value=v.body), n)
            b = ast.copy_location(ast.Assign(targets=[copy.deepcopy(n.targets[0])], value=v.orelse), n)
            tname = n.targets[0].id

            def branch(st, val):
                # `x = x` keeps the value: nothing to do on that branch
                if isinstance(val, ast.Name) and val.id == tname:
                    return []
                r = self.visit_Assign(st) if isinstance(val, ast.IfExp) else st
                return r if isinstance(r, list) else [r]
            body, orelse = branch(a, v.body), branch(b, v.orelse)
            if not body and not orelse:
                return ast.copy_location(ast.Expr(value=v.test), n)
            if not body:
                return ast.copy_location(ast.If(test=ast.copy_location(ast.UnaryOp(op=ast.Not(), operand=v.test), v.test), body=orelse, orelse=[]), n)
            return ast.copy_location(ast.If(test=v.test, body=body, orelse=orelse), n)
        return n

    def visit_AnnAssign(self, n):
        self.generic_visit(n)
        # x: T = v -> x = v ;  a bare declaration `x: T` disappears (annotations of locals are never evaluated)
        if n.value is None:
            return ast.copy_location(ast.Pass(), n) if isinstance(n.target, ast.Name) else n
        return ast.copy_location(ast.Assign(targets=[n.target], value=n.value), n)

    def visit_For(self, n):
        self.generic_visit(n)
        import copy
        # for T in itertools.chain(A, B): BODY   ->   for T in A: BODY ; for T in B: BODY     (BODY without break; no else)
        it = n.iter
        if isinstance(it, ast.Call) and (_dotted(it.func) or "").split(".")[-1] == "chain" and (_dotted(it.func) or "") in ("chain", "itertools.chain") and len(it.args) >= 2 \
                and not it.keywords and not any(isinstance(a, ast.Starred) for a in it.args) and not n.orelse and not _has_own_break(n.body):
            out = []
            for a in it.args:
                part = ast.copy_location(ast.For(target=copy.deepcopy(n.target), iter=a, body=copy.deepcopy(n.body), orelse=[], type_comment=None), n)
                r = self.visit_For(part)
                out.extend(r if isinstance(r, list) else [r])
            return out
        # for T in A + B (list expressions): BODY   ->   for T in A: BODY ; for T in B: BODY
        if isinstance(it, ast.BinOp) and isinstance(it.op, ast.Add) and _is_list_expr(it) and not n.orelse and not _has_own_break(n.body):
            out = []
            for a in (it.left, it.right):
                part = ast.copy_location(ast.For(target=copy.deepcopy(n.target), iter=a, body=copy.deepcopy(n.body), orelse=[], type_comment=None), n)
                r = self.visit_For(part)
                out.extend(r if isinstance(r, list) else [r])
            return out
        # for T in [a, b]: BODY with a literal display of tuples and a tuple target is left alone (first-match / unrolling is a statement-level normal form)
        # for (j, m) in enumerate([E(v) for v in IT]): BODY(m)   ->   for (j, v) in enumerate(IT): BODY(E(v))      (also without enumerate; generator or list)
        wrap = None
        src = it
        if isinstance(it, ast.Call) and isinstance(it.func, ast.Name) and it.func.id == "enumerate" and len(it.args) >= 1 and isinstance(n.target, ast.Tuple) and len(n.target.elts) == 2:
            wrap, src = it, it.args[0]
            elem_t = n.target.elts[1]
        else:
            elem_t = n.target
        if isinstance(src, (ast.ListComp, ast.GeneratorExp)) and len(src.generators) == 1 and not src.generators[0].ifs and not src.generators[0].is_async:
            g = src.generators[0]
            E = src.elt
            pairs = None
            if isinstance(elem_t, ast.Name):
                pairs = [(elem_t.id, E)]
            elif isinstance(elem_t, ast.Tuple) and isinstance(E, ast.Tuple) and len(E.elts) == len(elem_t.elts) and all(isinstance(t, ast.Name) for t in elem_t.elts):
                pairs = [(t.id, e) for t, e in zip(elem_t.elts, E.elts)]
            assigned = {x.id for b in n.body for x in ast.walk(b) if isinstance(x, ast.Name) and isinstance(x.ctx, (ast.Store, ast.Del))}
            if pairs is not None and not ({p for p, _ in pairs} & assigned) and not any(isinstance(x, (ast.Lambda, ast.FunctionDef)) for b in n.body for x in ast.walk(b)):
                _N._fuse = getattr(_N, "_fuse", 0) + 1
                ren = {x.id: "__fv%d_%s" % (_N._fuse, x.id) for x in ast.walk(g.target) if isinstance(x, ast.Name)}

                class R(ast.NodeTransformer):
                    def visit_Name(self, x):
                        if x.id in ren:
                            return ast.copy_location(ast.Name(id=ren[x.id], ctx=x.ctx), x)
                        return x
                new_t = R().visit(copy.deepcopy(g.target))
                body = copy.deepcopy(n.body)
                for nm, e in pairs:
                    e2 = R().visit(copy.deepcopy(e))
                    body = [_subst_name(b, nm, e2) for b in body]
                if wrap is not None:
                    tgt = ast.Tuple(elts=[n.target.elts[0], new_t], ctx=ast.Store())
                    itr = ast.copy_location(ast.Call(func=wrap.func, args=[g.iter] + list(wrap.args[1:]), keywords=wrap.keywords), wrap)
                else:
                    tgt, itr = new_t, g.iter
                new = ast.copy_location(ast.For(target=tgt, iter=itr, body=body, orelse=n.orelse, type_comment=None), n)
                ast.fix_missing_locations(new)
                return new
        return n

    def visit_Try(self, n):
        self.generic_visit(n)
        # try: (try: B except H) finally: F   ->   try: B except H finally: F      (one statement: the inner handlers run before the outer finally either way)
        if n.finalbody and not n.handlers and not n.orelse and len(n.body) == 1 and isinstance(n.body[0], ast.Try) and not n.body[0].finalbody:
            inner = n.body[0]
            return ast.copy_location(ast.Try(body=inner.body, handlers=inner.handlers, orelse=inner.orelse, finalbody=n.finalbody), n)
        return n

    def visit_With(self, n):
        self.generic_visit(n)
        # with contextlib.closing(E) as f  ->  with E as f     (both close E on every exit)
        for it in n.items:
            ce = it.context_expr
            if isinstance(ce, ast.Call) and _dotted(ce.func) in ("contextlib.closing", "closing") and len(ce.args) == 1 and not ce.keywords:
                it.context_expr = ce.args[0]
        # with contextlib.ExitStack() as S: S.callback(F, *a); BODY   ->   try: BODY  finally: F(*a)
        if len(n.items) == 1 and isinstance(n.items[0].context_expr, ast.Call) and _dotted(n.items[0].context_expr.func) in ("contextlib.ExitStack", "ExitStack") \
                and not n.items[0].context_expr.args and isinstance(n.items[0].optional_vars, ast.Name):
            S = n.items[0].optional_vars.id
            cbs = []
            k = 0
            while k < len(n.body):
                st = n.body[k]
                if isinstance(st, ast.Expr) and isinstance(st.value, ast.Call) and isinstance(st.value.func, ast.Attribute) and st.value.func.attr == "callback" \
                        and isinstance(st.value.func.value, ast.Name) and st.value.func.value.id == S and st.value.args:
                    cbs.append(st.value)
                    k += 1
                else:
                    break
            rest = n.body[k:]
            used = any(isinstance(x, ast.Name) and x.id == S for b in rest for x in ast.walk(b))
            if cbs and rest and not used:
                fin = [ast.Expr(value=ast.Call(func=c.args[0], args=c.args[1:], keywords=c.keywords)) for c in reversed(cbs)]
                return ast.copy_location(ast.Try(body=rest, handlers=[], orelse=[], finalbody=fin), n)
        return n

    def visit_Match(self, n):
        self.generic_visit(n)
        r = _match_to_if(n)
        return r if r is not None else n

    def visit_Return(self, n):
        self.generic_visit(n)
        # return A if c else B   ->   if c: return A  else: return B
        if isinstance(n.value, ast.IfExp):
            v = n.value
            a = ast.copy_location(ast.Return(value=v.body), n)
            b = ast.copy_location(ast.Return(value=v.orelse), n)
            return ast.copy_location(ast.If(test=v.test, body=[self.visit_Return(a)], orelse=[self.visit_Return(b)]), n)
        return n

    def visit_AugAssign(self, n):
        self.generic_visit(n)
        # X |= {k: v ...}   ->   X.update({k: v ...})     (dict displays / comprehensions only: for dicts the in-place union IS update)
        if isinstance(n.op, ast.BitOr) and isinstance(n.value, (ast.Dict, ast.DictComp)) and isinstance(n.target, (ast.Name, ast.Attribute)):
            import copy
            recv = copy.deepcopy(n.target)
            recv.ctx = ast.Load()
            e = ast.copy_location(ast.Expr(value=ast.copy_location(ast.Call(func=ast.Attribute(value=recv, attr="update", ctx=ast.Load()), args=[n.value], keywords=[]), n)), n)
            ast.fix_missing_locations(e)
            return self.visit_Expr(e)
        return n

    def visit_Expr(self, n):
        self.generic_visit(n)
        # X.update({k: E for k in L})  ->  for k in L: X[k] = E
        c = n.value
        if isinstance(c, ast.Call) and isinstance(c.func, ast.Attribute) and c.func.attr == "update" and len(c.args) == 1 and not c.keywords \
                and isinstance(c.args[0], ast.DictComp) and len(c.args[0].generators) == 1 and not c.args[0].generators[0].ifs and not c.args[0].generators[0].is_async:
            dc = c.args[0]
            g = dc.generators[0]
            bound = {x.id for x in ast.walk(g.target) if isinstance(x, ast.Name)}
            recv_names = {x.id for x in ast.walk(c.func.value) if isinstance(x, ast.Name)}
            if not (bound & recv_names):
                tgt = ast.Subscript(value=c.func.value, slice=dc.key, ctx=ast.Store())
                body = ast.Assign(targets=[tgt], value=dc.value, lineno=n.lineno, col_offset=n.col_offset)
                loop = ast.For(target=_store(g.target), iter=g.iter, body=[body], orelse=[], lineno=n.lineno, col_offset=n.col_offset)
                return ast.copy_location(loop, n)
        return n

    def visit_Compare(self, n):
        self.generic_visit(n)
        # x in [a, b]  ->  x in (a, b)     (membership in a literal display)
        if len(n.ops) == 1 and isinstance(n.ops[0], (ast.In, ast.NotIn)) and isinstance(n.comparators[0], ast.List) \
                and not any(isinstance(e, ast.Starred) for e in n.comparators[0].elts):
            n.comparators = [ast.copy_location(ast.Tuple(elts=n.comparators[0].elts, ctx=ast.Load()), n.comparators[0])]
        # a < b <= c  ->  a < b and b <= c   (the shared operands are names / attributes / literals: evaluating them twice changes nothing)
        if len(n.ops) > 1 and all(isinstance(x, (ast.Name, ast.Constant, ast.Attribute)) for x in n.comparators[:-1]):
            parts = []
            left = n.left
            for op, right in zip(n.ops, n.comparators):
                parts.append(ast.Compare(left=left, ops=[op], comparators=[right]))
                left = right
            return ast.copy_location(ast.BoolOp(op=ast.And(), values=parts), n)
        return n

    def visit_UnaryOp(self, n):
        self.generic_visit(n)
        # not X.all()  ->  (~X).any()     (element-wise arrays: "not all finite" == "any not finite")
        if isinstance(n.op, ast.Not) and isinstance(n.operand, ast.Call) and isinstance(n.operand.func, ast.Attribute) and n.operand.func.attr == "all" \
                and not n.operand.args and not n.operand.keywords and isinstance(n.operand.func.value, ast.Call):
            inv = ast.UnaryOp(op=ast.Invert(), operand=n.operand.func.value)
            return ast.copy_location(ast.Call(func=ast.Attribute(value=inv, attr="any", ctx=ast.Load()), args=[], keywords=[]), n)
        if isinstance(n.op, ast.Not) and isinstance(n.operand, ast.Compare) and len(n.operand.ops) == 1 and type(n.operand.ops[0]) in _NEG:
            c = n.operand
            return ast.copy_location(ast.Compare(left=c.left, ops=[_NEG[type(c.ops[0])]()], comparators=c.comparators), n)
        return n

    def visit_IfExp(self, n):
        self.generic_visit(n)
        t = n.test
        flip = False
        if isinstance(t, ast.UnaryOp) and isinstance(t.op, ast.Not):
            t, flip = t.operand, True
        elif isinstance(t, ast.Compare) and len(t.ops) == 1 and isinstance(t.ops[0], _NEGATIVE_OPS):
            t = ast.Compare(left=t.left, ops=[_NEG[type(t.ops[0])]()], comparators=t.comparators)
            flip = True
        if flip:
            return ast.copy_location(ast.IfExp(test=t, body=n.orelse, orelse=n.body), n)
        return n


def _pattern_test(subject, pat):
    """boolean test equivalent to a capture-free pattern, or None: Class() -> isinstance, literal -> ==, None/True/False -> is, _ -> True, p | q -> or"""
    import copy
    subj = copy.deepcopy(subject)
    if isinstance(pat, ast.MatchAs) and pat.pattern is None and pat.name is None:
        return ast.Constant(value=True)
    if isinstance(pat, ast.MatchClass) and not pat.patterns and not pat.kwd_patterns:
        return ast.Call(func=ast.Name(id="isinstance", ctx=ast.Load()), args=[subj, pat.cls], keywords=[])
    if isinstance(pat, ast.MatchSingleton):
        return ast.Compare(left=subj, ops=[ast.Is()], comparators=[ast.Constant(value=pat.value)])
    if isinstance(pat, ast.MatchValue) and isinstance(pat.value, (ast.Constant, ast.Attribute, ast.UnaryOp)):
        return ast.Compare(left=subj, ops=[ast.Eq()], comparators=[pat.value])
    if isinstance(pat, ast.MatchSequence) and isinstance(subject, ast.Tuple) and len(pat.patterns) == len(subject.elts) \
            and not any(isinstance(q, ast.MatchStar) for q in pat.patterns):
        parts = []
        for e_, q in zip(subject.elts, pat.patterns):
            t_ = _pattern_test(e_, q)
            if t_ is None:
                return None
            if not (isinstance(t_, ast.Constant) and t_.value is True):
                parts.append(t_)
        if not parts:
            return ast.Constant(value=True)
        return parts[0] if len(parts) == 1 else ast.BoolOp(op=ast.And(), values=parts)
    if isinstance(pat, ast.MatchOr):
        parts = [_pattern_test(subject, q) for q in pat.patterns]
        if any(q is None for q in parts):
            return None
        return ast.BoolOp(op=ast.Or(), values=parts)
    return None


def _match_to_if(n):
    """match S: case P1: A; case P2 if g: B; case _: C   ->   if test(P1): A elif test(P2) and g: B else: C
    for a simple subject (name / attribute chain) and capture-free patterns; `case Class() as x` binds x = S first."""
    simple = (ast.Name, ast.Attribute)
    if not (isinstance(n.subject, simple) or (isinstance(n.subject, ast.Tuple) and all(isinstance(e_, simple) for e_ in n.subject.elts))):
        return None
    import copy
    branches = []
    for c in n.cases:
        pat = c.pattern
        pre = []
        if isinstance(pat, ast.MatchAs) and pat.pattern is not None and pat.name is not None:
            pre = [ast.Assign(targets=[ast.Name(id=pat.name, ctx=ast.Store())], value=copy.deepcopy(n.subject), lineno=n.lineno, col_offset=0)]
            pat = pat.pattern
        t = _pattern_test(n.subject, pat)
        if t is None:
            return None
        if c.guard is not None:
            if pre:
                return None
            t = c.guard if isinstance(t, ast.Constant) and t.value is True else ast.BoolOp(op=ast.And(), values=[t, c.guard])
        branches.append((t, pre + c.body))
    out = None
    for t, body in reversed(branches):
        if isinstance(t, ast.Constant) and t.value is True:
            out = body
            continue
        node = ast.If(test=t, body=body, orelse=(out if isinstance(out, list) else ([out] if out is not None else [])))
        out = node
    if isinstance(out, list):
        return out if out else None
    return ast.copy_location(out, n) if out is not None else None


def _hoist_walrus(stmts):
    """`if (n := E) > 3: ...` / `x = f(n := E)`  ->  `n = E` followed by the statement using n, when the named expression is the first thing the
    statement evaluates that is not a plain name / constant / attribute (so evaluation order is unchanged).  While headers and comprehensions are left alone."""
    out = []
    for s in stmts:
        for f in ("body", "orelse", "finalbody"):
            sub = getattr(s, f, None)
            if isinstance(sub, list) and sub and isinstance(sub[0], ast.stmt) and not isinstance(s, (ast.FunctionDef, ast.AsyncFunctionDef, ast.ClassDef)):
                setattr(s, f, _hoist_walrus(sub))
        if isinstance(s, ast.Try):
            for h in s.handlers:
                h.body = _hoist_walrus(h.body)
        if isinstance(s, (ast.FunctionDef, ast.AsyncFunctionDef)):
            s.body = _hoist_walrus(s.body)
        if isinstance(s, ast.ClassDef):
            s.body = _hoist_walrus(s.body)
        head = s.test if isinstance(s, ast.If) else s.value if isinstance(s, (ast.Assign, ast.Expr, ast.Return, ast.AugAssign)) and getattr(s, "value", None) is not None else None
        pre = []
        while head is not None:
            w = _first_walrus(head)
            if w is None:
                break
            pre.append(ast.copy_location(ast.Assign(targets=[ast.Name(id=w.target.id, ctx=ast.Store())], value=w.value), s))
            new = _replace_node(head, w, ast.copy_location(ast.Name(id=w.target.id, ctx=ast.Load()), w))
            if isinstance(s, ast.If):
                s.test = new
            else:
                s.value = new
            head = new
        out.extend(pre)
        out.append(s)
    return out


def _replace_node(root, old, new):
    if root is old:
        return new

    class T(ast.NodeTransformer):
        def generic_visit(self, node):
            for field, v in ast.iter_fields(node):
                if isinstance(v, list):
                    setattr(node, field, [new if x is old else (self.visit(x) if isinstance(x, ast.AST) else x) for x in v])
                elif isinstance(v, ast.AST):
                    setattr(node, field, new if v is old else self.visit(v))
            return node
    return T().visit(root)


def _first_walrus(e):
    """the NamedExpr that is evaluated first in e with only names / constants / attributes evaluated before it, else None"""
    SIMPLE = (ast.Name, ast.Constant, ast.Attribute)

    def rec(n):
        # returns ('found', node) | ('blocked', None) | ('clear', None): clear = this subtree only evaluates simple things
        if isinstance(n, ast.NamedExpr):
            r = rec(n.value)
            if r[0] == "found":
                return r
            if isinstance(n.target, ast.Name):
                return ("found", n) if r[0] == "clear" or True else r
            return ("blocked", None)
        if isinstance(n, SIMPLE):
            if isinstance(n, ast.Attribute):
                return rec(n.value)
            return ("clear", None)
        if isinstance(n, ast.BoolOp):
            return first([n.values[0]], then_blocked=True)
        if isinstance(n, ast.IfExp):
            return first([n.test], then_blocked=True)
        if isinstance(n, ast.Compare):
            return first([n.left] + n.comparators[:1], then_blocked=len(n.comparators) > 1)
        if isinstance(n, ast.BinOp):
            return first([n.left, n.right])
        if isinstance(n, ast.UnaryOp):
            return rec(n.operand)
        if isinstance(n, ast.Subscript):
            return first([n.value, n.slice])
        if isinstance(n, ast.Slice):
            return first([x for x in (n.lower, n.upper, n.step) if x is not None])
        if isinstance(n, (ast.Tuple, ast.List)):
            return first(list(n.elts))
        if isinstance(n, ast.Call):
            r = first([n.func] + list(n.args) + [k.value for k in n.keywords])
            return r if r[0] == "found" else ("blocked", None)
        if isinstance(n, ast.Starred):
            return rec(n.value)
        return ("blocked", None)

    def first(parts, then_blocked=False):
        for q in parts:
            r = rec(q)
            if r[0] != "clear":
                return r
        return ("blocked", None) if then_blocked else ("clear", None)
    r = rec(e)
    return r[1] if r[0] == "found" else None


def _store(t):
    import copy
    t = copy.copy(t)
    if isinstance(t, (ast.Tuple, ast.List)):
        t.elts = [_store(e) for e in t.elts]
    if hasattr(t, "ctx"):
        t.ctx = ast.Store()
    return t


def _subst_name(e, name, val):
    class T(ast.NodeTransformer):
        def visit_Name(self, n):
            if n.id == name and isinstance(n.ctx, ast.Load):
                import copy
                return copy.deepcopy(val)
            return n
    import copy
    return T().visit(copy.deepcopy(e))


def _distribute(n):
    """[f(x) for x in A + B] -> [f(x) for x in A] + [f(x) for x in B];  [f(x) for x in [a, b]] -> [f(a), f(b)];  for x in list(Y) -> for x in Y"""
    if len(n.generators) != 1 or n.generators[0].is_async:
        return n
    g = n.generators[0]
    it = g.iter
    if isinstance(it, ast.Call) and isinstance(it.func, ast.Name) and it.func.id in ("list", "tuple") and len(it.args) == 1 and not it.keywords \
            and not (isinstance(it.args[0], ast.Call) and isinstance(it.args[0].func, ast.Attribute) and it.args[0].func.attr in ("keys", "values", "items")) \
            and isinstance(it.args[0], (ast.Name, ast.Subscript, ast.Attribute)):
        g.iter = it = it.args[0]
    if isinstance(it, ast.BinOp) and isinstance(it.op, ast.Add):
        import copy
        parts = []

        def flat(e):
            if isinstance(e, ast.BinOp) and isinstance(e.op, ast.Add):
                flat(e.left)
                flat(e.right)
            else:
                parts.append(e)
        flat(it)
        outs = []
        for q in parts:
            c = copy.deepcopy(n)
            c.generators[0].iter = q
            outs.append(_distribute(c))
        out = outs[0]
        for q in outs[1:]:
            out = ast.BinOp(left=out, op=ast.Add(), right=q)
        return ast.copy_location(out, n)
    if isinstance(it, (ast.List, ast.Tuple)) and isinstance(g.target, ast.Name) and not g.ifs and it.elts and not any(isinstance(e, ast.Starred) for e in it.elts) \
            and all(isinstance(e, (ast.Constant, ast.Name)) for e in it.elts):
        return ast.copy_location(ast.List(elts=[_subst_name(n.elt, g.target.id, e) for e in it.elts], ctx=ast.Load()), n)
    return n


def normalize_loops(fn):
    """counted while -> for (in place, function level):

        i = 0                       for i in range(N):
        while i < N:          ->        BODY
            BODY                    else: E
            i += 1
        else: E

    when BODY contains no `continue`, assigns neither i nor anything N reads, `i += 1` is its last statement, and i is not read after the loop."""
    changed = False

    def names(e):
        return {n.id for n in ast.walk(e) if isinstance(n, ast.Name)}

    def do_block(stmts, after_reads):
        nonlocal changed
        out = []
        k = 0
        while k < len(stmts):
            s0 = stmts[k]
            s1 = stmts[k + 1] if k + 1 < len(stmts) else None
            if isinstance(s0, ast.Assign) and len(s0.targets) == 1 and isinstance(s0.targets[0], ast.Name) and isinstance(s0.value, ast.Constant) and s0.value.value == 0 \
                    and type(s0.value.value) is int and isinstance(s1, ast.While):
                i = s0.targets[0].id
                t = s1.test
                ok = isinstance(t, ast.Compare) and len(t.ops) == 1 and isinstance(t.ops[0], ast.Lt) and isinstance(t.left, ast.Name) and t.left.id == i and s1.body
                if ok:
                    N = t.comparators[0]
                    last = s1.body[-1]
                    ok = isinstance(last, ast.AugAssign) and isinstance(last.op, ast.Add) and isinstance(last.target, ast.Name) and last.target.id == i \
                        and isinstance(last.value, ast.Constant) and last.value.value == 1
                if ok:
                    body = s1.body[:-1]
                    assigned = set()
                    for b in body:
                        for n in ast.walk(b):
                            if isinstance(n, ast.Name) and isinstance(n.ctx, (ast.Store, ast.Del)):
                                assigned.add(n.id)
                            if isinstance(n, ast.Continue):
                                ok = False
                            if isinstance(n, (ast.FunctionDef, ast.Lambda)):
                                ok = False
                    ok = ok and i not in assigned and not (assigned & names(N)) and i not in names(N)
                    rest_reads = set()
                    for r in stmts[k + 2:]:
                        rest_reads |= {n.id for n in ast.walk(r) if isinstance(n, ast.Name) and isinstance(n.ctx, ast.Load)}
                    else_reads = set()
                    for r in s1.orelse:
                        else_reads |= {n.id for n in ast.walk(r) if isinstance(n, ast.Name) and isinstance(n.ctx, ast.Load)}
                    ok = ok and i not in rest_reads and i not in after_reads and i not in else_reads and bool(body)
                if ok:
                    rng = ast.Call(func=ast.Name(id="range", ctx=ast.Load()), args=[N], keywords=[])
                    new = ast.For(target=ast.Name(id=i, ctx=ast.Store()), iter=rng, body=body, orelse=s1.orelse, lineno=s1.lineno, col_offset=s1.col_offset)
                    ast.copy_location(new, s1)
                    out.append(new)
                    changed = True
                    k += 2
                    continue
            # F = False; for ..: ... F = True; break ...; if not F: E    ->    for ..: ... break ... else: E
            fl = _flag_to_else(stmts, k, fn)
            if fl is not None:
                stmts = fl
                changed = True
                continue
            # x = [a, b]; x.append(c)   ->   x = [a, b, c]
            if isinstance(s0, ast.Assign) and len(s0.targets) == 1 and isinstance(s0.targets[0], ast.Name) and isinstance(s0.value, ast.List) \
                    and isinstance(s1, ast.Expr) and isinstance(s1.value, ast.Call) and isinstance(s1.value.func, ast.Attribute) and s1.value.func.attr == "append" \
                    and isinstance(s1.value.func.value, ast.Name) and s1.value.func.value.id == s0.targets[0].id and len(s1.value.args) == 1 and not s1.value.keywords \
                    and not any(isinstance(n, ast.Name) and n.id == s0.targets[0].id for n in ast.walk(s1.value.args[0])):
                out.append(ast.copy_location(ast.Assign(targets=[s0.targets[0]], value=ast.copy_location(ast.List(elts=list(s0.value.elts) + [s1.value.args[0]], ctx=ast.Load()), s0.value)), s0))
                stmts = stmts[:k] + [out.pop()] + stmts[k + 2:]
                changed = True
                continue
            # x = <list expr>; for T in IT: [if c:] x.append(E)   ->   x = <list expr> + [E for T in IT if c]
            if isinstance(s0, ast.Assign) and len(s0.targets) == 1 and isinstance(s0.targets[0], ast.Name) and _is_list_expr(s0.value) and not (isinstance(s0.value, ast.List) and not s0.value.elts) \
                    and isinstance(s1, ast.For):
                fake0 = ast.copy_location(ast.Assign(targets=[s0.targets[0]], value=ast.List(elts=[], ctx=ast.Load())), s0)
                comp = _loop_as_comprehension(fake0, s1, fn)
                if comp is not None and not any(isinstance(n, ast.Name) and n.id == s0.targets[0].id for n in ast.walk(s0.value)):
                    merged = ast.copy_location(ast.Assign(targets=[s0.targets[0]], value=ast.copy_location(ast.BinOp(left=s0.value, op=ast.Add(), right=comp.value), s0.value)), s0)
                    stmts = stmts[:k] + [merged] + stmts[k + 2:]
                    changed = True
                    continue
            # x = []; x.extend(IT)   ->   x = list(IT)
            if isinstance(s0, ast.Assign) and len(s0.targets) == 1 and isinstance(s0.targets[0], ast.Name) and isinstance(s0.value, ast.List) and not s0.value.elts \
                    and isinstance(s1, ast.Expr) and isinstance(s1.value, ast.Call) and isinstance(s1.value.func, ast.Attribute) and s1.value.func.attr == "extend" \
                    and isinstance(s1.value.func.value, ast.Name) and s1.value.func.value.id == s0.targets[0].id and len(s1.value.args) == 1 and not s1.value.keywords \
                    and not any(isinstance(n, ast.Name) and n.id == s0.targets[0].id for n in ast.walk(s1.value.args[0])):
                out.append(ast.copy_location(ast.Assign(targets=[s0.targets[0]], value=ast.copy_location(ast.Call(func=ast.Name(id="list", ctx=ast.Load()), args=[s1.value.args[0]], keywords=[]), s1)), s0))
                changed = True
                k += 2
                continue
            # running edges: L = [c0]; for ..: x = f(L[-1]); L.append(x)  +  for a, b in zip(L[:-1], L[1:]): BODY   ->   a = c0; for ..: b = f(a); BODY; a = b
            pe = _prefix_edges(stmts, k, fn)
            if pe is not None:
                stmts = pe
                changed = True
                continue
            # first-match loop over a literal table: for T in ((a1, b1), (a2, b2)): if C(T): S(T); break  [else: E]   ->   if C(1): S(1) elif C(2): S(2) [else: E]
            fm = _first_match_loop(stmts, k, fn)
            if fm is not None:
                stmts = fm
                changed = True
                continue
            # x = []; for T in IT: [if c:] x.append(E)   ->   x = [E for T in IT if c]
            comp = _loop_as_comprehension(s0, s1, fn)
            if comp is not None:
                out.append(comp)
                changed = True
                k += 2
                continue
            # ... also when statements that do not mention x stand between the initialisation and the loop
            if isinstance(s0, ast.Assign) and len(s0.targets) == 1 and isinstance(s0.targets[0], ast.Name) and isinstance(s0.value, ast.List) and not s0.value.elts:
                xn = s0.targets[0].id
                j = k + 1
                while j < len(stmts) and not any(isinstance(n, ast.Name) and n.id == xn for n in ast.walk(stmts[j])):
                    j += 1
                if k + 1 < j < len(stmts):
                    comp = _loop_as_comprehension(s0, stmts[j], fn)
                    if comp is not None:
                        stmts = stmts[:k] + stmts[k + 1:j] + [comp] + stmts[j + 1:]
                        changed = True
                        continue
            out.append(s0)
            k += 1
        for s_ in out:
            for f in ("body", "orelse", "finalbody"):
                sub = getattr(s_, f, None)
                if isinstance(sub, list) and sub and isinstance(sub[0], ast.stmt) and not isinstance(s_, (ast.FunctionDef, ast.AsyncFunctionDef, ast.ClassDef)):
                    setattr(s_, f, do_block(sub, after_reads | {"*"}))
            if isinstance(s_, ast.Try):
                for h in s_.handlers:
                    h.body = do_block(h.body, after_reads | {"*"})
        return out

    fn.body = do_block(fn.body, set())
    if changed:
        ast.fix_missing_locations(fn)
    return changed


def _prefix_edges(stmts, k, fn):
    if k + 2 >= len(stmts):
        return None
    s0, s1, s2 = stmts[k], stmts[k + 1], stmts[k + 2]
    if not (isinstance(s0, ast.Assign) and len(s0.targets) == 1 and isinstance(s0.targets[0], ast.Name) and isinstance(s0.value, ast.List) and len(s0.value.elts) == 1
            and isinstance(s1, ast.For) and not s1.orelse and isinstance(s2, ast.For) and not s2.orelse):
        return None
    L = s0.targets[0].id
    last = s1.body[-1] if s1.body else None
    if not (isinstance(last, ast.Expr) and isinstance(last.value, ast.Call) and isinstance(last.value.func, ast.Attribute) and last.value.func.attr == "append"
            and isinstance(last.value.func.value, ast.Name) and last.value.func.value.id == L and len(last.value.args) == 1):
        return None
    X = last.value.args[0]
    it = s2.iter
    want = "zip(%s[:-1], %s[1:])" % (L, L)
    if ast.unparse(it).replace(" ", "") != want.replace(" ", "") or not (isinstance(s2.target, ast.Tuple) and len(s2.target.elts) == 2 and all(isinstance(t, ast.Name) for t in s2.target.elts)):
        return None
    a, b = s2.target.elts[0].id, s2.target.elts[1].id
    # uses of L: the initialisation, L[-1] reads and the append in s1, the two slices in s2's header - nothing else
    n_l = sum(1 for n in ast.walk(fn) if isinstance(n, ast.Name) and n.id == L)
    reads = [n for b_ in s1.body[:-1] for n in ast.walk(b_) if isinstance(n, ast.Subscript) and isinstance(n.value, ast.Name) and n.value.id == L
             and isinstance(n.slice, ast.UnaryOp) and isinstance(n.slice.op, ast.USub) and isinstance(n.slice.operand, ast.Constant) and n.slice.operand.value == 1]
    if n_l != 1 + len(reads) + 1 + 2:
        return None
    if _has_own_break(s1.body) or _has_own_break(s2.body) or any(isinstance(n, ast.Continue) for x in s1.body + s2.body for n in ast.walk(x)):
        return None
    assigned1 = {n.id for x in s1.body for n in ast.walk(x) if isinstance(n, ast.Name) and isinstance(n.ctx, ast.Store)} | {n.id for n in ast.walk(s1.target) if isinstance(n, ast.Name)}
    used2 = {n.id for x in s2.body for n in ast.walk(x) if isinstance(n, ast.Name)}
    xname = X.id if isinstance(X, ast.Name) else None
    clash = (assigned1 - ({xname} if xname == b else set())) & (used2 | {a, b})
    if clash:
        return None
    if not _only_rebound_elsewhere(fn, s2, {a, b} - assigned1):
        pass
    body1 = [_replace_edges_read(x, L, a) for x in s1.body[:-1]]
    mid = [] if xname == b else [ast.copy_location(ast.Assign(targets=[ast.Name(id=b, ctx=ast.Store())], value=X), last)]
    step = ast.copy_location(ast.Assign(targets=[ast.Name(id=a, ctx=ast.Store())], value=ast.Name(id=b, ctx=ast.Load())), last)
    init = ast.copy_location(ast.Assign(targets=[ast.Name(id=a, ctx=ast.Store())], value=s0.value.elts[0]), s0)
    loop = ast.copy_location(ast.For(target=s1.target, iter=s1.iter, body=body1 + mid + list(s2.body) + [step], orelse=[], type_comment=None), s1)
    ast.fix_missing_locations(loop)
    return stmts[:k] + [init, loop] + stmts[k + 3:]


def _replace_edges_read(stmt, L, a):
    class T(ast.NodeTransformer):
        def visit_Subscript(self, n):
            self.generic_visit(n)
            if isinstance(n.value, ast.Name) and n.value.id == L and isinstance(n.ctx, ast.Load):
                return ast.copy_location(ast.Name(id=a, ctx=ast.Load()), n)
            return n
    import copy
    return T().visit(copy.deepcopy(stmt))


def _first_match_loop(stmts, k, fn):
    s0 = stmts[k]
    loop = None
    drop = None
    if isinstance(s0, ast.For):
        loop, table = s0, s0.iter
    elif isinstance(s0, ast.Assign) and len(s0.targets) == 1 and isinstance(s0.targets[0], ast.Name) and isinstance(s0.value, (ast.List, ast.Tuple)) and k + 1 < len(stmts) \
            and isinstance(stmts[k + 1], ast.For) and isinstance(stmts[k + 1].iter, ast.Name) and stmts[k + 1].iter.id == s0.targets[0].id \
            and sum(1 for n in ast.walk(fn) if isinstance(n, ast.Name) and n.id == s0.targets[0].id) == 2:
        loop, table, drop = stmts[k + 1], s0.value, s0
    if loop is None or not isinstance(table, (ast.List, ast.Tuple)) or not (1 <= len(table.elts) <= 10) or any(isinstance(e, ast.Starred) for e in table.elts):
        return None
    if len(loop.body) != 1 or not isinstance(loop.body[0], ast.If) or loop.body[0].orelse:
        return None
    br = loop.body[0]
    if not br.body or not isinstance(br.body[-1], ast.Break) or _has_own_break(br.body[:-1]):
        return None
    if any(isinstance(n, ast.Continue) for b in br.body for n in ast.walk(b)):
        return None
    tv = [x.id for x in ast.walk(loop.target) if isinstance(x, ast.Name)]
    # the loop variables must not be used after the loop
    inside = sum(1 for n in ast.walk(loop) if isinstance(n, ast.Name) and n.id in tv)
    total = sum(1 for n in ast.walk(fn) if isinstance(n, ast.Name) and n.id in tv)
    if inside != total:
        return None
    arms = []
    for e in table.elts:
        if isinstance(loop.target, ast.Name):
            env = {loop.target.id: e}
        elif isinstance(loop.target, ast.Tuple) and isinstance(e, ast.Tuple) and len(e.elts) == len(loop.target.elts) and all(isinstance(t, ast.Name) for t in loop.target.elts):
            env = {t.id: x for t, x in zip(loop.target.elts, e.elts)}
        else:
            return None
        test, body = br.test, br.body[:-1] or [ast.copy_location(ast.Pass(), br)]
        for nm, val in env.items():
            test = _subst_name(test, nm, val)
            body = [_subst_name(b, nm, val) for b in body]
        arms.append((test, body))
    tail = loop.orelse
    node = None
    for test, body in reversed(arms):
        node = ast.copy_location(ast.If(test=test, body=body, orelse=([node] if node is not None else tail)), loop)
    ast.fix_missing_locations(node)
    j = k + (2 if drop is not None else 1)
    return stmts[:k] + [node] + stmts[j:]


def _has_own_break(body):
    for s_ in body:
        if isinstance(s_, ast.Break):
            return True
        if isinstance(s_, (ast.For, ast.While, ast.FunctionDef, ast.AsyncFunctionDef, ast.ClassDef)):
            continue
        for f_ in ("body", "orelse", "finalbody"):
            sub = getattr(s_, f_, None)
            if isinstance(sub, list) and sub and isinstance(sub[0], ast.stmt) and _has_own_break(sub):
                return True
        if isinstance(s_, ast.Try) and any(_has_own_break(h.body) for h in s_.handlers):
            return True
    return False


def _flag_to_else(stmts, k, fn):
    """stmts[k] is `F = <bool const>`; a later loop in the same block sets F to the opposite constant immediately before each of its `break`s (and nowhere
    else), the statement right after the loop is `if not F: E` (resp. `if F: E`), and F occurs nowhere else in the function: this is `for ... else: E`.
    Returns the rewritten statement list or None."""
    s0 = stmts[k]
    if not (isinstance(s0, ast.Assign) and len(s0.targets) == 1 and isinstance(s0.targets[0], ast.Name) and isinstance(s0.value, ast.Constant) and isinstance(s0.value.value, bool)):
        return None
    F, init = s0.targets[0].id, s0.value.value
    j = None
    for i in range(k + 1, len(stmts)):
        if isinstance(stmts[i], (ast.For, ast.While)):
            j = i
            break
        if any(isinstance(n, ast.Name) and n.id == F for n in ast.walk(stmts[i])):
            return None
    if j is None or j + 1 >= len(stmts):
        return None
    loop, after = stmts[j], stmts[j + 1]
    if loop.orelse or not (isinstance(after, ast.If) and not after.orelse):
        return None
    t = after.test
    want_not = init is False
    if want_not:
        if not (isinstance(t, ast.UnaryOp) and isinstance(t.op, ast.Not) and isinstance(t.operand, ast.Name) and t.operand.id == F):
            return None
    elif not (isinstance(t, ast.Name) and t.id == F):
        return None
    # occurrences of F: the initialisation, the test, and stores inside the loop
    sets = []

    def scan(block, in_inner_loop):
        for idx, s_ in enumerate(block):
            if isinstance(s_, ast.Assign) and len(s_.targets) == 1 and isinstance(s_.targets[0], ast.Name) and s_.targets[0].id == F:
                nxt = block[idx + 1] if idx + 1 < len(block) else None
                if not (isinstance(s_.value, ast.Constant) and s_.value.value is (not init) and isinstance(nxt, ast.Break) and not in_inner_loop):
                    return False
                sets.append((block, s_))
                continue
            if isinstance(s_, ast.Break) and not in_inner_loop:
                prev = block[idx - 1] if idx > 0 else None
                if not (isinstance(prev, ast.Assign) and len(prev.targets) == 1 and isinstance(prev.targets[0], ast.Name) and prev.targets[0].id == F):
                    return False
                continue
            if isinstance(s_, (ast.FunctionDef, ast.AsyncFunctionDef, ast.ClassDef)):
                if any(isinstance(n, ast.Name) and n.id == F for n in ast.walk(s_)):
                    return False
                continue
            inner = in_inner_loop or isinstance(s_, (ast.For, ast.While))
            for f_ in ("body", "orelse", "finalbody"):
                sub = getattr(s_, f_, None)
                if isinstance(sub, list) and sub and isinstance(sub[0], ast.stmt):
                    # the else-branch of an inner loop is not inside that loop
                    if scan(sub, inner and f_ == "body" or (in_inner_loop)) is False:
                        return False
            if isinstance(s_, ast.Try):
                for h in s_.handlers:
                    if scan(h.body, in_inner_loop) is False:
                        return False
            # F in expressions of this statement (tests, values)?
            for f_, v in ast.iter_fields(s_):
                if f_ in ("body", "orelse", "finalbody", "handlers"):
                    continue
                vs = v if isinstance(v, list) else [v]
                for x in vs:
                    if isinstance(x, ast.AST) and any(isinstance(n, ast.Name) and n.id == F for n in ast.walk(x)):
                        return False
        return True
    if scan(loop.body, False) is False or not sets:
        return None
    total = sum(1 for n in ast.walk(fn) if isinstance(n, ast.Name) and n.id == F)
    if total != 2 + len(sets):
        return None
    for block, s_ in sets:
        block.remove(s_)
    loop.orelse = after.body
    return stmts[:k] + stmts[k + 1:j + 1] + stmts[j + 2:]


def _is_list_expr(v):
    if isinstance(v, (ast.List, ast.ListComp)):
        return True
    if isinstance(v, ast.BinOp) and isinstance(v.op, ast.Add):
        return _is_list_expr(v.left) and _is_list_expr(v.right)
    return False


def _only_rebound_elsewhere(fn, loop, names):
    """every occurrence of ``names`` outside ``loop`` lies in another for-loop / comprehension that binds the name itself (so it never observes the value
    this loop left behind)"""
    inside = {id(n) for n in ast.walk(loop)}

    def rec(node, bound):
        if id(node) in inside and node is loop:
            return True
        if isinstance(node, ast.Name) and node.id in names and id(node) not in inside:
            if node.id not in bound:
                return False
        if isinstance(node, (ast.For, ast.AsyncFor)) and node is not loop:
            b2 = bound | {x.id for x in ast.walk(node.target) if isinstance(x, ast.Name)}
            if not rec(node.iter, bound):
                return False
            return all(rec(ch, b2) for ch in [node.target] + node.body) and all(rec(ch, bound) for ch in node.orelse)
        if isinstance(node, (ast.ListComp, ast.SetComp, ast.GeneratorExp, ast.DictComp)):
            b2 = set(bound)
            for g in node.generators:
                if not rec(g.iter, b2):
                    return False
                b2 |= {x.id for x in ast.walk(g.target) if isinstance(x, ast.Name)}
                if not all(rec(c, b2) for c in g.ifs):
                    return False
            parts = [node.key, node.value] if isinstance(node, ast.DictComp) else [node.elt]
            return all(rec(p_, b2) for p_ in parts)
        return all(rec(ch, bound) for ch in ast.iter_child_nodes(node))
    return rec(fn, set())


def _loop_as_comprehension(s0, s1, fn):
    """`x = []` directly followed by `for T in IT: [if c: ...] x.append(E)` is the list comprehension `x = [E for T in IT if c]` when x is read by neither
    E, IT nor c and the loop variables are used nowhere else in the function (the comprehension does not leak them)."""
    if not (isinstance(s0, ast.Assign) and len(s0.targets) == 1 and isinstance(s0.targets[0], ast.Name) and isinstance(s0.value, ast.List) and not s0.value.elts):
        return None
    if not (isinstance(s1, ast.For) and not s1.orelse and len(s1.body) == 1):
        return None
    x = s0.targets[0].id
    ifs = []
    b = s1.body[0]
    while isinstance(b, ast.If) and not b.orelse and len(b.body) == 1:
        ifs.append(b.test)
        b = b.body[0]
    if not (isinstance(b, ast.Expr) and isinstance(b.value, ast.Call) and isinstance(b.value.func, ast.Attribute) and b.value.func.attr == "append"
            and isinstance(b.value.func.value, ast.Name) and b.value.func.value.id == x and len(b.value.args) == 1 and not b.value.keywords):
        return None
    E = b.value.args[0]
    tv = {n.id for n in ast.walk(s1.target) if isinstance(n, ast.Name)}
    if not tv or any(not isinstance(n, (ast.Name, ast.Tuple, ast.List, ast.Store, ast.Load, ast.Starred)) for n in ast.walk(s1.target)):
        return None
    reads = [E, s1.iter] + ifs
    if any(isinstance(n, ast.Name) and n.id == x for r in reads for n in ast.walk(r)):
        return None
    if any(isinstance(n, (ast.Yield, ast.YieldFrom, ast.Await, ast.NamedExpr, ast.Lambda)) for r in reads for n in ast.walk(r)):
        return None
    if not _only_rebound_elsewhere(fn, s1, tv):
        return None
    comp = ast.ListComp(elt=E, generators=[ast.comprehension(target=s1.target, iter=s1.iter, ifs=ifs, is_async=0)])
    return ast.copy_location(ast.Assign(targets=[s0.targets[0]], value=ast.copy_location(comp, s1)), s0)


def normalize(tree):
    new = _N().visit(tree)
    if isinstance(new, list):
        # a statement that became several (a loop over A + B split in two): callers flatten
        for x in new:
            ast.fix_missing_locations(x)
        return new
    if isinstance(new, ast.Module):
        new.body = _flatten(_hoist_walrus(new.body))
    elif isinstance(new, (ast.FunctionDef, ast.AsyncFunctionDef)):
        new.body = _flatten(_hoist_walrus(new.body))
    ast.fix_missing_locations(new)
    return new


def _flatten(stmts):
    """visit_Match may return a statement list for a match whose only case is the wildcard"""
    out = []
    for s in stmts:
        if isinstance(s, list):
            out.extend(_flatten(s))
        else:
            out.append(s)
    return out
