"""Field def-use analysis of the Cython kernel class (C01, C03, C05).

An *event stream* is extracted from a method of CJokerHelper by a linear walk
of its (desugared) statements, inlining calls to other methods of the class and
to module-level cdef helpers, and applying in/out role summaries to the extern
Kepler routine and the three LAPACK calls.  Events are
    (kind R|W, field, index tuple | None (= whole array), node, guards, loops)
in evaluation order (right-hand side reads, then the store).
"""
import ast

from .. import astutil as A
from ..norm import canon, dotted
from ..loader import AnalysisIncomplete

FL = "thejoker.src.fast_likelihood"
CLS = "CJokerHelper"

# role summaries (the trusted base): argument position -> 'r', 'w', 'rw'
EXTERN_ROLES = {
    "c_rv_from_elements": {0: "r", 1: "w0"},          # reads t[0:N], writes rv[0:N] (row 0 of the matrix it is pointed at)
    "lapack.dgetrf": {2: "rw", 4: "w", 5: "wl"},
    "lapack.dgetri": {1: "rw", 3: "r", 4: "w", 6: "wl"},
    "lapack.dsysv": {3: "rw", 5: "w", 6: "rw", 8: "w", 10: "wl"},
}


class Ev:
    __slots__ = ("kind", "field", "idx", "node", "guards", "loops", "via")

    def __init__(self, kind, field, idx, node, guards, loops, via):
        self.kind, self.field, self.idx, self.node, self.guards, self.loops, self.via = kind, field, idx, node, tuple(guards), tuple(loops), via

    def __repr__(self):
        return "%s %s%s @%s%s" % (self.kind, self.field, "[%s]" % ", ".join(self.idx) if self.idx is not None else "", getattr(self.node, "lineno", "?"),
                                  " if " + " & ".join("%s%s" % ("" if p else "not ", g) for g, p in self.guards) if self.guards else "")


class Kernel:
    def __init__(self, prog):
        self.prog = prog
        self.mod = prog.module(FL)
        if self.mod.pyx is None or CLS not in self.mod.pyx.classes:
            raise AnalysisIncomplete("KERNEL", FL, "cdef class %s not found" % CLS)
        self.fields = dict(self.mod.pyx.classes[CLS]["fields"])
        self.methods = {q.split(".", 1)[1]: f for q, f in self.mod.functions.items() if q.startswith(CLS + ".") and q.count(".") == 1}
        self.modfuncs = {q: f for q, f in self.mod.functions.items() if "." not in q}
        self.array_fields = {k for k, (t, _) in self.fields.items() if t and "[" in t}

    # ------------------------------------------------------------------ events
    def events(self, method, depth=0):
        fn = self.methods.get(method)
        if fn is None:
            raise AnalysisIncomplete("KERNEL", "%s.%s" % (CLS, method), "method not found")
        out = []
        self._block(fn.body, out, [], [], {}, depth, method)
        return out

    def _field_of(self, e, bind):
        """expr -> (field, idx tuple|None) if it denotes a class field access"""
        if isinstance(e, ast.Subscript):
            f = self._field_of(e.value, bind)
            if f and f[1] is None:
                sl = e.slice
                idx = tuple(canon(x) for x in sl.elts) if isinstance(sl, ast.Tuple) else (canon(sl),)
                return f[0], idx
            return None
        d = dotted(e)
        if d and d.startswith("self.") and d.count(".") == 1 and d[5:] in self.fields:
            return d[5:], None
        if isinstance(e, ast.Name) and e.id in bind and e.id != "$consts":
            return bind[e.id], None
        return None

    def _reads(self, e, out, guards, loops, bind, depth, via, skip=None):
        """emit read events for every field access inside expression e (evaluation order approximated by ast order)"""
        if e is None:
            return
        if isinstance(e, ast.Call):
            self._call(e, out, guards, loops, bind, depth, via)
            return
        f = self._field_of(e, bind)
        if f is not None:
            if isinstance(e, ast.Subscript):
                for x in (e.slice.elts if isinstance(e.slice, ast.Tuple) else [e.slice]):
                    self._reads(x, out, guards, loops, bind, depth, via)
            out.append(Ev("R", f[0], f[1], e, guards, loops, via))
            return
        if isinstance(e, ast.IfExp):
            self._reads(e.test, out, guards, loops, bind, depth, via)
            self._reads(e.body, out, guards + [(canon(e.test), True)], loops, bind, depth, via)
            self._reads(e.orelse, out, guards + [(canon(e.test), False)], loops, bind, depth, via)
            return
        for ch in ast.iter_child_nodes(e):
            if isinstance(ch, ast.expr):
                self._reads(ch, out, guards, loops, bind, depth, via)

    def _addr_target(self, a, bind):
        """~self.F[0, 0] / ~(self.F)[0] / ~self.n  ->  field name"""
        if isinstance(a, ast.UnaryOp) and isinstance(a.op, ast.Invert):
            x = a.operand
            while isinstance(x, ast.Subscript):
                x = x.value
            f = self._field_of(x, bind)
            if f:
                return f[0]
            if isinstance(x, ast.Name):
                return "local:" + x.id
        return None

    def _call(self, c, out, guards, loops, bind, depth, via):
        name = A.call_name(c) or ""
        # self.method()
        if name.startswith("self.") and name[5:] in self.methods and depth < 6:
            for a in c.args:
                self._reads(a, out, guards, loops, bind, depth, via)
            sub = []
            callee = self.methods[name[5:]]
            consts = {}
            for pn, a in zip(A.param_names(callee)[1:], c.args):
                v = A.const_value(a)
                if isinstance(v, (int, float)) and not isinstance(v, bool):
                    consts[pn] = v
            self._block(callee.body, sub, guards, loops, {"$consts": consts}, depth + 1, name[5:])
            out.extend(sub)
            return
        # module-level helper taking arrays (get_ivar)
        if name in self.modfuncs and depth < 6:
            fn = self.modfuncs[name]
            params = A.param_names(fn)
            b = {}
            for p, a in zip(params, c.args):
                f = self._field_of(a, bind)
                if f and f[1] is None:
                    b[p] = f[0]
                else:
                    self._reads(a, out, guards, loops, bind, depth, via)
            self._block(fn.body, out, guards, loops, b, depth + 1, name)
            return
        if name in EXTERN_ROLES:
            roles = EXTERN_ROLES[name]
            for i, a in enumerate(c.args):
                tgt = self._addr_target(a, bind)
                role = roles.get(i)
                if tgt is None:
                    self._reads(a, out, guards, loops, bind, depth, via)
                    continue
                if tgt.startswith("local:"):
                    continue
                if role in ("r", "rw") or role is None:
                    out.append(Ev("R", tgt, None if tgt in self.array_fields else None, a, guards, loops, name))
                if role in ("w", "rw"):
                    out.append(Ev("W", tgt, None, a, guards, loops, name))
                if role == "w0":
                    out.append(Ev("W", tgt, ("0", "*"), a, guards, loops, name))
            return
        # any other call: arguments are read
        if isinstance(c.func, ast.Attribute):
            self._reads(c.func.value, out, guards, loops, bind, depth, via)
        for a in list(c.args) + [k.value for k in c.keywords]:
            self._reads(a, out, guards, loops, bind, depth, via)

    def _store(self, tgt, out, guards, loops, bind, depth, via):
        f = self._field_of(tgt, bind)
        if f is None:
            if isinstance(tgt, (ast.Tuple, ast.List)):
                for t in tgt.elts:
                    self._store(t, out, guards, loops, bind, depth, via)
            return
        if isinstance(tgt, ast.Subscript):
            for x in (tgt.slice.elts if isinstance(tgt.slice, ast.Tuple) else [tgt.slice]):
                self._reads(x, out, guards, loops, bind, depth, via)
        out.append(Ev("W", f[0], f[1], tgt, guards, loops, via))

    def _block(self, stmts, out, guards, loops, bind, depth, via):
        for s in stmts:
            if isinstance(s, ast.Assign):
                self._reads(s.value, out, guards, loops, bind, depth, via)
                for t in s.targets:
                    self._store(t, out, guards, loops, bind, depth, via)
            elif isinstance(s, ast.AugAssign):
                self._reads(s.target, out, guards, loops, bind, depth, via)
                self._reads(s.value, out, guards, loops, bind, depth, via)
                self._store(s.target, out, guards, loops, bind, depth, via)
            elif isinstance(s, ast.Expr):
                self._reads(s.value, out, guards, loops, bind, depth, via)
            elif isinstance(s, ast.Return):
                self._reads(s.value, out, guards, loops, bind, depth, via)
                out.append(Ev("X", "<return>", None, s, guards, loops, via))
            elif isinstance(s, ast.If):
                self._reads(s.test, out, guards, loops, bind, depth, via)
                sv = _static_test(s.test, bind.get("$consts") or {})
                if sv is True:
                    self._block(s.body, out, guards, loops, bind, depth, via)
                    continue
                if sv is False:
                    self._block(s.orelse, out, guards, loops, bind, depth, via)
                    continue
                g = canon(s.test)
                self._block(s.body, out, guards + [(g, True)], loops, bind, depth, via)
                self._block(s.orelse, out, guards + [(g, False)], loops, bind, depth, via)
            elif isinstance(s, ast.For):
                self._reads(s.iter, out, guards, loops, bind, depth, via)
                var = s.target.id if isinstance(s.target, ast.Name) else A.unparse(s.target)
                self._block(s.body, out, guards, loops + [(var, canon(s.iter), id(s))], bind, depth, via)
            elif isinstance(s, (ast.With,)):
                self._block(s.body, out, guards, loops, bind, depth, via)
            elif isinstance(s, (ast.Pass, ast.Import, ast.ImportFrom)):
                continue
            else:
                # unknown statement kind: reads of everything inside
                for e in ast.walk(s):
                    pass

    # ------------------------------------------------------------------ classification
    def written_outside_init(self):
        w = {}
        for m in self.methods:
            if m == "__init__":
                continue
            fn = self.methods[m]
            for ev in self.events(m):
                if ev.kind == "W":
                    w.setdefault(ev.field, set()).add((m, ev.idx))
        return w

    def _direct_events(self, method):
        out = []
        self._block(self.methods[method].body, out, [], [], {}, 99, method)   # depth 99: no inlining
        return out


def _static_test(test, consts):
    """decide `param == const` style tests when the parameter was bound to a literal at the inlined call"""
    if isinstance(test, ast.Compare) and len(test.ops) == 1 and isinstance(test.left, ast.Name) and test.left.id in consts:
        c = A.const_value(test.comparators[0])
        if isinstance(c, (int, float)):
            v = consts[test.left.id]
            op = type(test.ops[0])
            return {ast.Eq: v == c, ast.NotEq: v != c, ast.Gt: v > c, ast.GtE: v >= c, ast.Lt: v < c, ast.LtE: v <= c}.get(op)
    if isinstance(test, ast.Name) and test.id in consts:
        return bool(consts[test.id])
    return None


def per_iteration_events(K, entry):
    """events of one iteration of the per-sample loop of a batch entry point (or of the whole body of a single-row method)"""
    fn = K.methods[entry]
    loops = [s for s in fn.body if isinstance(s, ast.For)]
    out = []
    if loops:
        body = loops[0].body
        K._block(body, out, [], [], {}, 0, entry)
        return out, loops[0]
    K._block(fn.body, out, [], [], {}, 0, entry)
    return out, None


def _guard_consistent(g1, g2):
    d = dict(g1)
    return all(d.get(k, p) == p for k, p in g2)


def carry_analysis(K, entry):
    """For every read event in one iteration: is the location (a) init-constant, or (b) written earlier in the iteration on all
    paths compatible with the read's guards?  Returns [(event, verdict, reason)] for reads of fields written outside __init__."""
    evs, loop = per_iteration_events(K, entry)
    wo = K.written_outside_init()
    res = []
    for i, ev in enumerate(evs):
        if ev.kind != "R" or ev.field not in wo:
            continue
        if ev.field not in K.array_fields:
            # scalar field written outside init: must be written earlier in this iteration
            ok = any(p.kind == "W" and p.field == ev.field and _guard_consistent(ev.guards, p.guards) and set(p.guards) <= set(ev.guards) for p in evs[:i])
            res.append((ev, ok, "scalar field written earlier in the iteration" if ok else "scalar field %s carries its value from a previous iteration" % ev.field))
            continue
        res.append((ev,) + _covered(K, evs, i, ev, wo))
    return res, evs


def _covered(K, evs, i, ev, wo):
    # which parts of the field are written outside init at all?  (M_T: only row 0; Lambda: only slot 0)
    outside = wo[ev.field]
    outside_idx = {idx for _, idx in outside}
    partial_rows = None
    if all(idx is not None and idx[0] == "0" for idx in outside_idx):
        partial_rows = "0"          # only row/slot 0 is ever rewritten per sample
    read_loops = {l[2] for l in ev.loops}
    for p in reversed(evs[:i]):
        if p.kind != "W" or p.field != ev.field:
            continue
        # the write must be on every path that reaches the read: its guards must be implied by the read's guards
        if not set(p.guards) <= set(ev.guards):
            continue
        if p.idx is None:
            return True, "whole array written earlier by %s" % p.via
        if ev.idx is not None and p.idx == ev.idx and {l[2] for l in p.loops} <= read_loops:
            return True, "same element written earlier in the same loop iteration"
        # full fill: every index position is a loop variable of a loop that has completed before the read (or '0'/'*' for the extern row write)
        p_loopvars = {l[0]: l[2] for l in p.loops}
        full = True
        for x in p.idx:
            if x == "*":
                continue
            if x in p_loopvars and p_loopvars[x] not in read_loops:
                continue
            if x == "0" and partial_rows == "0":
                continue
            full = False
            break
        if full:
            if partial_rows == "0" and p.idx[0] not in ("0",) and p.idx[0] not in p_loopvars:
                continue
            return True, "filled earlier in this iteration (%s)" % p.via
        # diagonal-only or partial writes do not cover
    if partial_rows == "0":
        # the per-sample part is slot 0; was it written this iteration under compatible guards?
        for p in evs[:i]:
            if p.kind == "W" and p.field == ev.field and p.idx is not None and p.idx[0] == "0":
                if _guard_consistent(ev.guards, p.guards):
                    # written under a guard over an init-constant (fixed_K_prior): the complementary valuation keeps the init value
                    gfields = [g for g, _ in p.guards]
                    if all("self.fixed_K_prior" in g for g in gfields) or not p.guards:
                        return True, "slot 0 rewritten this iteration%s" % (" (under %s; otherwise it keeps its __init__ value)" % gfields[0] if gfields else "")
        # no per-sample write at all in this entry point
        writers = sorted({m for m, _ in outside})
        return False, "slot/row 0 of %s is rewritten per sample elsewhere (%s) but not in this iteration before it is read: it carries the value of the previously evaluated sample" % (ev.field, ", ".join(writers))
    return False, "%s%s is read before it is (fully) written in this iteration: the value left by the previous sample leaks in" % (ev.field, "[%s]" % ", ".join(ev.idx) if ev.idx else "")


# ---------------------------------------------------------------------------------------------
# Loop-nest lifting: every field update inside `for v in range(self.n_x)` nests becomes an
# index-notation term (field, index tuple, op, rational normal form of the right-hand side),
# compared modulo renaming of the loop variables and commutative/associative rewriting.
# ---------------------------------------------------------------------------------------------
import itertools

from ..norm import rat, NormError, parse as _parse


class Update:
    __slots__ = ("field", "idx", "op", "rhs", "loops", "node", "method", "guards")

    def __repr__(self):
        return "%s[%s] %s %s   (loops %s)" % (self.field, ", ".join(self.idx), self.op, A.unparse(self.rhs)[:70], [(v, r) for v, r, _ in self.loops])


def updates(K, method, _depth=0, _loops=(), _guards=(), _consts=None):
    """all field / accumulator updates of a method in program order (self.method() calls inlined)"""
    fn = K.methods[method]
    out = []

    def walk(stmts, loops, guards, consts):
        for s in stmts:
            if isinstance(s, ast.For):
                var = s.target.id if isinstance(s.target, ast.Name) else A.unparse(s.target)
                walk(s.body, loops + ((var, canon(s.iter), id(s)),), guards, consts)
            elif isinstance(s, ast.If):
                sv = _static_test(s.test, consts or {})
                if sv is True:
                    walk(s.body, loops, guards, consts)
                elif sv is False:
                    walk(s.orelse, loops, guards, consts)
                else:
                    walk(s.body, loops, guards + ((canon(s.test), True),), consts)
                    walk(s.orelse, loops, guards + ((canon(s.test), False),), consts)
            elif isinstance(s, (ast.Assign, ast.AugAssign)):
                tgt = s.targets[0] if isinstance(s, ast.Assign) else s.target
                op = "=" if isinstance(s, ast.Assign) else {ast.Add: "+=", ast.Sub: "-=", ast.Mult: "*="}.get(type(s.op), "?=")
                f = K._field_of(tgt, {})
                name = None
                if f is not None:
                    name, idx = f[0], f[1] or ()
                elif isinstance(tgt, ast.Name):
                    name, idx = "$" + tgt.id, ()
                if name is not None:
                    u = Update()
                    u.field, u.idx, u.op, u.rhs, u.loops, u.node, u.method, u.guards = name, tuple(idx), op, s.value, loops, s, method, guards
                    out.append(u)
                # inlined calls on the right-hand side (info = self.make_AAinv())
                for c in A.calls_in(s.value):
                    nm = A.call_name(c) or ""
                    if nm.startswith("self.") and nm[5:] in K.methods and _depth < 4:
                        cs = {}
                        for pn, a in zip(A.param_names(K.methods[nm[5:]])[1:], c.args):
                            v = A.const_value(a)
                            if isinstance(v, (int, float)):
                                cs[pn] = v
                        out.extend(updates(K, nm[5:], _depth + 1, loops, guards, cs))
            elif isinstance(s, ast.Expr) and isinstance(s.value, ast.Call):
                nm = A.call_name(s.value) or ""
                u = Update()
                u.field, u.idx, u.op, u.rhs, u.loops, u.node, u.method, u.guards = "$call:" + nm, (), "call", s.value, loops, s, method, guards
                out.append(u)
            elif isinstance(s, ast.Return):
                u = Update()
                u.field, u.idx, u.op, u.rhs, u.loops, u.node, u.method, u.guards = "$return", (), "return", s.value, loops, s, method, guards
                out.append(u)

    walk(fn.body, tuple(_loops), tuple(_guards), _consts)
    return out


def match_update(u, spec_field, spec_idx, spec_op, spec_rhs_src, ranges):
    """Does update u equal the specification `F[idx] op rhs` modulo renaming of loop variables?
    ranges: {spec var: canonical range string}.  Returns (bool, reason)."""
    if u.field != spec_field or u.op != spec_op or len(u.idx) != len(spec_idx):
        return False, "shape"
    loop_range = {v: r for v, r, _ in u.loops}
    spec_vars = list(ranges)
    u_vars = [v for v, r, _ in u.loops]
    # candidate renamings: each spec var -> a loop var of u with the same range, injective
    cands = []
    for sv in spec_vars:
        cands.append([uv for uv in u_vars if loop_range[uv] == ranges[sv]])
    for combo in itertools.product(*cands):
        if len(set(combo)) != len(combo):
            continue
        ren = dict(zip(spec_vars, combo))
        idx = tuple(ren.get(x, x) for x in spec_idx)
        if idx != u.idx:
            continue
        src = spec_rhs_src
        for sv, uv in ren.items():
            src = _rename_var(src, sv, "__%s__" % uv)
        for uv in u_vars:
            src = src.replace("__%s__" % uv, uv)
        try:
            if rat(u.rhs).equals(rat(_parse(src))):
                return True, ""
        except (NormError, ZeroDivisionError):
            pass
    return False, "rhs"


def _rename_var(src, old, new):
    import re
    return re.sub(r"(?<![\w.])%s(?![\w])" % re.escape(old), new, src)
