"""C19 - time-sampling diagnostics equal their definitions."""
import ast

from .. import astutil as A
from ..norm import canon, parse, dotted, equal, rat, NormError

SA = "thejoker.samples_analysis"
PERM_INVARIANT = {"sort", "histogram", "min", "max", "ptp", "sum", "mean", "unique", "median", "amin", "amax", "bincount"}


def check_map(ctx):
    R = "C19-MAP"
    ctx.rule(R, "MAP_sample returns samples[argmax(ln_prior + ln_likelihood)] (both columns in the maximised expression; argmax, not argmin); with return_index also that index.")
    fn = ctx.prog.func(SA, "MAP_sample", R)
    flow = A.Flow(fn)
    n = 0
    for v, s in flow.returns:
        n += 1
        row = v.elts[0] if isinstance(v, ast.Tuple) else v
        ok = False
        why = "returns `%s`" % A.unparse(row)[:80]
        if isinstance(row, ast.Subscript) and canon(row.value) == "samples" and isinstance(row.slice, ast.Call):
            c = row.slice
            nm = A.last_attr(c)
            arg = c.args[0] if (A.call_name(c) or "").startswith("np.") and c.args else (c.func.value if isinstance(c.func, ast.Attribute) else None)
            if nm == "argmax" and arg is not None:
                try:
                    ok = rat(A.strip_casts(arg)).equals(rat(parse("samples['ln_prior'] + samples['ln_likelihood']")))
                except (NormError, ZeroDivisionError):
                    ok = False
                if not ok:
                    why = "maximises `%s`, not ln_prior + ln_likelihood" % A.unparse(arg)[:60]
            else:
                why = "row selected with %s(...)" % nm
        ctx.check(R, s, "MAP row = argmax of ln_prior + ln_likelihood", ok, why, key="map:%d" % (1 if isinstance(v, ast.Tuple) else 0))
        if isinstance(v, ast.Tuple):
            ctx.check(R, s, "returned index is the same argmax", len(v.elts) == 2 and isinstance(row, ast.Subscript) and canon(v.elts[1]) == canon(row.slice), "index `%s`" % A.unparse(v.elts[1])[:50], key="map:idx")
    ctx.floor(R, n, 2)
    # each missing column leads to a raise (one combined guard or one guard per column; the container may be the table, its column list or the samples object)
    g = True
    for col in ("ln_prior", "ln_likelihood"):
        g = g and any(A.find_raising_guard(fn, A.nnf_of_src("'%s' not in %s" % (col, box))) is not None
                      for box in ("samples.tbl.colnames", "samples.tbl.columns", "samples.tbl", "samples.par_names", "samples", "samples.tbl.keys()", "samples.keys()"))
    # ... or one raising guard whose test involves both names (set forms: `not {"ln_prior", "ln_likelihood"} <= set(cols)`, `.issubset`)
    g = g or any(isinstance(s, ast.If) and A.always_raises(s.body) and "ln_prior" in A.unparse(s.test) and "ln_likelihood" in A.unparse(s.test) for s in A.walk_local(fn))
    ctx.check(R, fn, "missing log-prob columns raise", bool(g), "no raise when ln_prior / ln_likelihood are absent", key="map:guard", nontrivial=False)


def _shift_sets(e, env):
    """tiny shift-set domain over sorted phase arrays:
    returns list of blocks, each a rational shift, for concatenations of (sorted phases + c); None if unknown."""
    if isinstance(e, ast.Name) and e.id in env:
        return env[e.id]
    if isinstance(e, ast.Call) and (A.call_name(e) or "") in ("np.sort", "sorted") and e.args:
        return [0]
    if isinstance(e, ast.Call) and A.last_attr(e) == "sort" and not (A.call_name(e) or "").startswith("np."):
        return [0]
    if isinstance(e, ast.BinOp) and isinstance(e.op, (ast.Add, ast.Sub)):
        l = _shift_sets(e.left, env)
        c = A.const_value(e.right)
        if l is not None and isinstance(c, (int, float)):
            return [x + (c if isinstance(e.op, ast.Add) else -c) for x in l]
        r = _shift_sets(e.right, env)
        c = A.const_value(e.left)
        if r is not None and isinstance(c, (int, float)) and isinstance(e.op, ast.Add):
            return [x + c for x in r]
        return None
    if isinstance(e, ast.Call) and (A.call_name(e) or "") in ("np.concatenate", "np.hstack", "np.append", "np.r_"):
        parts = e.args[0].elts if e.args and isinstance(e.args[0], (ast.Tuple, ast.List)) and (A.call_name(e) != "np.append") else list(e.args)
        out = []
        for p in parts:
            s = _shift_sets(p, env)
            if s is None:
                # a single wrapped element phase[:1] + 1 / [phase[0] + 1]
                if isinstance(p, (ast.List, ast.Tuple)) and len(p.elts) == 1:
                    p = p.elts[0]
                s = _first_elem_shift(p, env)
                if s is None:
                    return None
                out.append(("first", s))
                continue
            out += s
        return out
    return None


def _first_elem_shift(p, env):
    """phase[:1] + c / phase[0] + c -> c"""
    c = 0
    if isinstance(p, ast.BinOp) and isinstance(p.op, ast.Add) and isinstance(A.const_value(p.right), (int, float)):
        c = A.const_value(p.right)
        p = p.left
    if isinstance(p, ast.Subscript) and isinstance(p.value, ast.Name) and env.get(p.value.id) == [0]:
        sl = p.slice
        if (isinstance(sl, ast.Slice) and sl.lower is None and A.const_value(sl.upper) == 1) or A.const_value(sl) == 0:
            return c
    return None


def check_gap(ctx):
    R = "C19-WRAP"
    ctx.rule(R, "max_phase_gap: the array whose adjacent differences are maximised contains the sorted phases followed by a copy (or at least the first element) shifted by "
                "exactly one period, so the arc across phase 1 -> 0 is measured; np.diff(x, append=x[0]+1) is the other accepted idiom.")
    fn = ctx.prog.func(SA, "max_phase_gap", R)
    env = {}
    verdict = None
    phase_src_ok = False
    for s in fn.body:
        if isinstance(s, ast.Assign) and isinstance(s.targets[0], ast.Name):
            ss = _shift_sets(s.value, env)
            if ss is not None:
                env[s.targets[0].id] = ss
                if ss == [0]:
                    inner = s.value.args[0] if isinstance(s.value, ast.Call) and s.value.args else (s.value.func.value if isinstance(s.value, ast.Call) and isinstance(s.value.func, ast.Attribute) else None)
                    if inner is not None and canon(inner) in (canon(parse("data.phase(sample['P'])")),):
                        phase_src_ok = True
        if isinstance(s, ast.Return):
            v = s.value
            # (X[1:] - X[:-1]).max()  |  np.diff(X).max() | np.max(np.diff(X))
            core = None
            if isinstance(v, ast.Call) and A.last_attr(v) in ("max", "amax"):
                core = v.func.value if isinstance(v.func, ast.Attribute) and not (A.call_name(v) or "").startswith("np.") else (v.args[0] if v.args else None)
            if core is None:
                verdict = (False, "the result `%s` is not the maximum of adjacent differences" % A.unparse(v)[:70])
                break
            X = None
            appended = None
            if isinstance(core, ast.BinOp) and isinstance(core.op, ast.Sub):
                a, b = core.left, core.right
                ok_shape = (isinstance(a, ast.Subscript) and isinstance(b, ast.Subscript) and canon(a.value) == canon(b.value) and isinstance(a.slice, ast.Slice)
                            and isinstance(b.slice, ast.Slice) and A.const_value(a.slice.lower) == 1 and a.slice.upper is None and b.slice.lower is None and A.const_value(b.slice.upper) == -1)
                if ok_shape:
                    X = a.value
            elif isinstance(core, ast.Call) and (A.call_name(core) or "") == "np.diff" and core.args:
                X = core.args[0]
                appended = A.get_arg(core, None, "append")
            if X is None:
                verdict = (False, "differences `%s` are not adjacent differences of one array" % A.unparse(core)[:70])
                break
            ss = _shift_sets(X, env)
            if ss is None:
                verdict = (None, "cannot classify the differenced array `%s`" % A.unparse(X)[:60])
                break
            if appended is not None:
                fs = _first_elem_shift(appended, {k: v2 for k, v2 in env.items()})
                if ss == [0] and fs == 1:
                    verdict = (True, "")
                else:
                    verdict = (False, "np.diff(..., append=%s): the wrap-around arc first + 1 - last is not measured (the appended value must be the first phase + 1)" % A.unparse(appended))
                break
            # concatenation of blocks: need [0, ..., then 1 or ('first', 1)] adjacent
            good = False
            for i in range(len(ss) - 1):
                if ss[i] == 0 and (ss[i + 1] == 1 or ss[i + 1] == ("first", 1)):
                    good = True
            if good:
                verdict = (True, "")
            else:
                verdict = (False, "the differenced array is built from blocks with shifts %s: no sorted copy shifted by exactly one period follows the phases, so the arc across phase 1 -> 0 is never (or wrongly) measured" % ss)
            break
    if verdict is None:
        ctx.undecided(R, fn, "max_phase_gap result", "no return statement recognised")
    elif verdict[0] is None:
        ctx.undecided(R, fn, "max_phase_gap includes the wrap-around arc", verdict[1])
    else:
        ctx.check(R, fn, "max_phase_gap includes the wrap-around arc", verdict[0], verdict[1], key="wrap")
    ctx.check("C19-PERM", fn, "max_phase_gap sorts the phases of data.phase(P)", phase_src_ok, "the phases are not np.sort(data.phase(sample['P'])): the result depends on the order of the observations", key="gap:sort")


def check_forms(ctx):
    R = "C19-FORM"
    ctx.rule(R, "phase_coverage = (# occupied bins of data.phase(P) over linspace(0, 1, n_bins+1)) / n_bins; periods_spanned = (max t - min t) / P with P expressed in days.")
    ctx.rule("C19-PERM", "per-observation arrays reach the results only through permutation-invariant reducers (sort, histogram, min, max, ptp).")
    pc = ctx.prog.func(SA, "phase_coverage", R)
    flow = A.Flow(pc)
    rets = flow.returns
    ok = False
    why = "no return"
    if len(rets) == 1:
        v = rets[0][0]
        why = "returns `%s`" % A.unparse(v)[:100]
        if isinstance(v, ast.BinOp) and isinstance(v.op, ast.Div) and canon(v.right) == "n_bins":
            num = v.left
            if isinstance(num, ast.Call) and A.last_attr(num) in ("sum", "count_nonzero"):
                inner = num.func.value if isinstance(num.func, ast.Attribute) and not (A.call_name(num) or "").startswith("np.") else num.args[0]
                from ..norm import cmp_parts
                cp = cmp_parts(inner) if isinstance(inner, ast.Compare) else None   # orientation-free: H > 0, 0 < H, H != 0, H >= 1
                if cp is not None and ((cp[0] in (">", "!=") and A.const_value(cp[2]) == 0) or (cp[0] == ">=" and A.const_value(cp[2]) == 1) or (cp[0] == "!=" and A.const_value(cp[1]) == 0)):
                    h = cp[1] if A.const_value(cp[1]) is None else cp[2]
                    if isinstance(h, ast.Subscript) and A.const_value(h.slice) == 0 and isinstance(h.value, ast.Call) and (A.call_name(h.value) or "") == "np.histogram":
                        hc = h.value
                        bins = A.get_arg(hc, 1, "bins")
                        okb = bins is not None and canon(bins) == canon(parse("np.linspace(0, 1, n_bins + 1)"))
                        okd = canon(hc.args[0]) == canon(parse("data.phase(sample['P'])"))
                        ok = okb and okd
                        if not okb:
                            why = "bins are `%s`, not n_bins equal bins over [0, 1]" % (A.unparse(bins) if bins is not None else None)
                        elif not okd:
                            why = "histogram of `%s`, not of the data phases" % A.unparse(hc.args[0])[:50]
        elif isinstance(v, ast.BinOp) and isinstance(v.op, ast.Div):
            why = "divides by `%s`, not by n_bins" % A.unparse(v.right)
    ctx.check(R, pc, "phase_coverage = occupied bins / n_bins", ok, why, key="coverage")
    ps = ctx.prog.func(SA, "periods_spanned", R)
    flow = A.Flow(ps)
    rets = flow.returns
    ok = False
    why = "no return"
    if len(rets) == 1:
        v = rets[0][0]
        why = "returns `%s`" % A.unparse(v)[:100]
        if isinstance(v, ast.BinOp) and isinstance(v.op, ast.Div):
            num, den = v.left, v.right
            span_forms = ["data.t.jd.max() - data.t.jd.min()", "data.t.mjd.max() - data.t.mjd.min()", "np.ptp(data.t.jd)", "np.ptp(data.t.mjd)", "np.ptp(data.t.tcb.mjd)",
                          "data.t.tcb.mjd.max() - data.t.tcb.mjd.min()", "data._t_bmjd.max() - data._t_bmjd.min()", "np.ptp(data._t_bmjd)", "data._t_bmjd[-1] - data._t_bmjd[0]"]
            okn = any(canon(num) == canon(parse(f)) for f in span_forms)
            okd = canon(den) in (canon(parse("sample['P'].to_value(u.day)")), canon(parse("sample['P'].to(u.day).value")))
            ok = okn and okd
            if not okn:
                why = "numerator `%s` is not the time baseline in days" % A.unparse(num)[:60]
            elif not okd:
                why = "divides by `%s`: the period is not expressed in days (the baseline is)" % A.unparse(den)[:60]
    ctx.check(R, ps, "periods_spanned = baseline [d] / P [d]", ok, why, key="span")
    # permutation invariance: per-observation sources only under invariant reducers
    for q in ("phase_coverage", "periods_spanned"):
        fn = ctx.prog.func(SA, q, R)
        bad = []
        for n in A.walk_local(fn):
            if isinstance(n, ast.Subscript) and ("data.t" in A.unparse(n.value) or "_t_bmjd" in A.unparse(n.value) or "phase(" in A.unparse(n.value)) and A.const_value(n.slice) is None:
                bad.append(n)   # (constant positions of the time-sorted arrays, e.g. _t_bmjd[-1] - _t_bmjd[0], are order-free: RVData sorts, C15-LOCK)
        idx0 = [n for n in A.walk_local(fn) if isinstance(n, ast.Subscript) and "_t_bmjd" in A.unparse(n.value) and isinstance(n.slice, (ast.Constant, ast.UnaryOp))]
        ctx.check("C19-PERM", fn, "%s uses per-observation arrays only through order-free reducers" % q, not bad,
                  "indexes a per-observation array positionally (`%s`)" % (A.unparse(bad[0])[:50] if bad else ""), key=q + ":perm", nontrivial=False)


def check_pure(ctx):
    R = "C19-PURE"
    ctx.rule(R, "the diagnostics only read their arguments: no in-place update (augmented assignment on a view, element / column store, out=, mutating method) reaches "
                "the sample table or the data object, so the row handed back carries the values that were maximised and a second call sees the same input.")
    n = 0
    for q in ("MAP_sample", "is_P_unimodal", "is_P_Kmodal", "max_phase_gap", "phase_coverage", "periods_spanned", "phase_coverage_per_period"):
        fn = ctx.prog.func(SA, q, R)
        params = set(A.param_names(fn))
        # a parameter re-bound to a fresh value is no longer the caller's object; writes are judged against the received objects only
        ws = A.storage_writes(fn, lambda e: isinstance(e, ast.Name) and e.id in params)
        ws = [(node, why) for node, why in ws if not (isinstance(node, ast.AugAssign) and isinstance(node.target, ast.Name) and node.target.id in params and _scalar_param(fn, node.target.id))]
        n += 1
        ctx.check(R, ws[0][0] if ws else fn, "%s leaves its arguments untouched" % q, not ws, ws[0][1] if ws else "", key=q)
    ctx.floor(R, n, 7)


def _scalar_param(fn, name):
    d = A.param_default(fn, name)
    return isinstance(d, ast.Constant) and isinstance(d.value, (int, float, bool, str, type(None)))


def run(ctx):
    from .C15 import check_phase
    ctx.rule("C19-PHASE", "the phases the diagnostics work on are RVData.phase = ((t - t_ref) / P) mod 1: in [0, 1) for every epoch, also before t_ref (shared clause with C15-TREF); "
                          "a truncating fractional part (modf, x - int(x)) gives negative phases there and breaks the wrap-around and the histogram range.")
    check_phase(ctx, "C19-PHASE")
    check_map(ctx)
    check_gap(ctx)
    check_forms(ctx)
    check_pure(ctx)
    from .C07 import _Relabel
    from .C15 import check_lock, check_tref
    ctx.rule("C19-DATA", "order independence rests on RVData: rows are time-sorted on every construction path (also clean=False) and the default reference epoch is the "
                         "minimum time, not the first given (shared with C15-LOCK / C15-TREF).")
    check_lock(_Relabel(ctx, {"C15-LOCK": "C19-DATA"}))
    check_tref(_Relabel(ctx, {"C15-TREF": "C19-DATA"}))
    ctx.assume("np.sort / np.histogram / min / max are invariant under permutations of their input; RVData.phase = ((t - t_ref)/P) mod 1 (C15-TREF)")
