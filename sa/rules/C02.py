"""C02 - rejection keeps sample i with probability L_i / L_max, rows unaltered, in order."""
import ast

from .. import astutil as A
from ..norm import canon, parse, dotted, equal
from . import _rej
from .C10 import classify

FL = "thejoker.src.fast_likelihood"


def check_acc(ctx, S, R="C02-ACC"):
    q = S.name
    if len(S.where_stmts) != 1:
        ctx.undecided(R, S.fn, "acceptance site in %s" % q, "expected one `np.where(mask)[0]`, found %d" % len(S.where_stmts))
        return None
    st = S.acc_stmt
    acc = S.acc
    if acc.get("form") is None:
        ctx.undecided(R, st, "acceptance predicate in %s" % q, acc.get("why", "unrecognised"))
        return None
    ctx.check(R, st, "%s: keeps when exp(L - max L) exceeds U" % q, acc["form"] == "exp>U",
              "the comparison is inverted: a sample is kept when the uniform draw exceeds its likelihood ratio", key=q + ":dir")
    ctx.check(R, st, "%s: strict comparison" % q, acc["op"] == ">",
              "non-strict comparison keeps zero-likelihood (-inf) samples whenever the uniform draw is exactly 0", key=q + ":strict")
    kind, L, red, why = _rej.normaliser(acc["arg"])
    if kind == "unknown":
        ctx.undecided(R, st, "%s: normalised by the maximum" % q, why)
        return None
    ctx.check(R, st, "%s: normalised by the maximum over the same array" % q, kind == "max", why, key=q + ":max")
    if L is None:
        return None
    recv, size, uwhy = _rej.uniform_draw(acc["U"])
    if recv is None:
        ctx.violate(R, st, "%s: threshold is a fresh uniform(0,1) draw" % q, uwhy, key=q + ":U")
        return L
    ctx.check(R, st, "%s: threshold ~ uniform(0,1)" % q, not uwhy, uwhy, key=q + ":Ubounds")
    tags = classify(recv, S.fn)
    ctx.check(R, st, "%s: uniforms come from the sampler's generator" % q, tags <= {"param"},
              "uniform draws come from `%s` (%s), not the rng parameter" % (A.unparse(recv)[:50], sorted(tags)), key=q + ":Urng")
    ctx.check(R, st, "%s: one uniform per evaluated sample" % q, _rej.size_matches(size, L),
              "uniform size `%s` is not the length of the likelihood array `%s`" % (A.unparse(size)[:50] if size is not None else None, A.unparse(L)[:50]), key=q + ":Usize")
    # L is the whole evaluated array
    core = L
    if S.iterative:
        okL = isinstance(core, ast.Call) and (A.call_name(core) or "").split(".")[-1] == "concatenate" and "@loop" in A.unparse(core)
        ctx.check(R, st, "%s: acceptance over all samples evaluated so far" % q, okL,
                  "likelihood array `%s` is not the accumulated array (only the latest batch is tested, earlier acceptances are never re-tested against the new maximum)" % A.unparse(core)[:70], key=q + ":accum")
        if okL:
            oku, whyu = _rej.accum_unfiltered(core)
            ctx.check(R, st, "%s: every evaluated sample enters the accumulated array, in evaluation order" % q, oku, whyu, key=q + ":accum-whole")
    else:
        okL = isinstance(core, ast.Call) and (A.call_name(core) or "").split(".")[-1].startswith("marginal_ln_likelihood")
        ctx.check(R, st, "%s: acceptance over every evaluated sample" % q, okL,
                  "likelihood array `%s` is not the unmodified result of the likelihood evaluation" % A.unparse(core)[:70], key=q + ":whole")
    return L


def rows_arg(S):
    """(call, resolved row-selector expr, kind) of the make_full_samples* call"""
    if len(S.mfs) != 1:
        return None
    c = S.mfs[0]
    if A.last_attr(c) == "make_full_samples_inmem":
        a = A.get_arg(c, 1, "prior_samples_batch")
        r = S.flow.resolve(a, at=A.enclosing_stmt(c)) if a is not None else None
        return c, r, "inmem"
    a = A.get_arg(c, 4, "samples_idx")
    r = S.flow.resolve(a, at=A.enclosing_stmt(c)) if a is not None else None
    return c, r, "file"


def slices_on_index(expr):
    """all slice-subscripts in expr whose value (transitively) contains the where(...)[0] result"""
    out = []
    for n in ast.walk(expr):
        if isinstance(n, ast.Subscript) and isinstance(n.slice, ast.Slice):
            if any(_rej.is_where0(x) for x in ast.walk(n.value)):
                out.append(n)
    return out


def check_trunc(ctx, S, R="C02-TRUNC"):
    q = S.name
    ra = rows_arg(S)
    if ra is None:
        ctx.undecided(R, S.fn, "rows handed to make_full_samples in %s" % q, "expected one make_full_samples* call, found %d" % len(S.mfs))
        return
    c, r, kind = ra
    if r is None:
        ctx.undecided(R, c, "row selector in %s" % q, "argument not found")
        return
    sl = slices_on_index(r)
    limit = "n_requested_samples" if S.iterative else "max_posterior_samples"
    have_limit = False
    for n in sl:
        s = n.slice
        pre = _rej.is_prefix_slice(s)
        ctx.check(R, c, "%s: accepted index only prefix-sliced" % q, pre,
                  "slice `[%s]` on the accepted index is not a prefix [:k]: it drops or reorders the first accepted rows" % A.unparse(s), key=q + ":prefix:" + canon(s))
        if pre:
            names = {x.id.split("@")[0] for x in ast.walk(s.upper) if isinstance(x, ast.Name)}
            if limit in names:
                # k must be the parameter itself (or its documented None fall-back), not k+1 etc.
                leaves = A.strip_ifexp(s.upper)
                exact = any(canon(l) == limit for l in leaves)
                # the documented None fall-back: every evaluated sample may be kept
                fb_ok = {canon(parse("len(prior_samples_batch)")), "n_prior_samples", canon(parse("tb.open_file(prior_samples_file, mode='r').root[JokerSamples._hdf5_path].shape[0]"))}
                others = [l for l in leaves if canon(l) != limit]
                ctx.check(R, c, "%s: without a limit every accepted sample is kept" % q, all(canon(l) in fb_ok for l in others),
                          "when %s is None the prefix length falls back to `%s`, which can drop accepted samples" % (limit, [A.unparse(l)[:40] for l in others]), key=q + ":fallback", nontrivial=False)
                ctx.check(R, c, "%s: truncated to exactly %s" % (q, limit), exact,
                          "prefix length `%s` is not %s itself" % (A.unparse(s.upper)[:60], limit), key=q + ":k")
                have_limit = have_limit or exact
    ctx.check(R, c, "%s: truncation by %s applied before rows are selected" % (q, limit), have_limit,
              "the row selector `%s` is not truncated to the first %s accepted samples" % (A.unparse(r)[:80], limit), key=q + ":limit")
    # no reordering functions between where() and the rows
    bad = [n for n in ast.walk(r) if isinstance(n, ast.Call) and A.last_attr(n) in ("sort", "argsort", "unique", "flip", "shuffle", "permutation", "sorted", "reversed", "roll")
           and any(_rej.is_where0(x) for x in ast.walk(n))]
    ctx.check(R, c, "%s: accepted rows keep evaluation order" % q, not bad,
              "accepted index passes through `%s`: rows no longer appear in evaluation order" % (A.last_attr(bad[0]) if bad else ""), key=q + ":order")


def check_copy(ctx, sites):
    R = "C02-COPY"
    ctx.rule(R, "rows handed to the kernel are library rows selected by the accepted index (batch[idx] with the unmodified batch parameter, or samples_idx=idx); "
                "in batch_get_posterior_samples the nonlinear values read from chunk[n,k] are stored to output column k (k<5) untouched.")
    for S in sites:
        ra = rows_arg(S)
        if ra is None:
            continue
        c, r, kind = ra
        if kind == "inmem":
            ok = False
            why = "rows `%s` are not prior_samples_batch[<accepted index>]" % A.unparse(r)[:70]
            if isinstance(r, ast.Subscript) and canon(r.value) == "prior_samples_batch" and not isinstance(r.slice, ast.Slice):
                shapes = _rej.idx_shape(r.slice)
                ok = all(sh[0] in ("G", "M[G]") for sh in shapes)
                if not ok:
                    why = "index `%s` is not the accepted index (or its image under the row-order map)" % A.unparse(r.slice)[:60]
            ctx.check(R, c, "%s: kernel rows = prior_samples_batch[accepted]" % S.name, ok, why, key=S.name + ":rows")
        else:
            ok = r is not None and all(sh[0] in ("G", "M[G]") for sh in _rej.idx_shape(r))
            ctx.check(R, c, "%s: kernel rows = library rows of the accepted index" % S.name, ok,
                      "samples_idx `%s` does not derive from the acceptance step" % (A.unparse(r)[:60] if r is not None else None), key=S.name + ":rows")
    check_passthrough(ctx, R)
    # kernel side
    fn = ctx.prog.func(FL, "CJokerHelper.batch_get_posterior_samples", R)
    flow = A.Flow(fn)
    order = packed_order(ctx.prog)
    n = 0
    loop_n = None
    for st in A.walk_local(fn):
        if isinstance(st, ast.Assign) and isinstance(st.targets[0], ast.Subscript) and canon(st.targets[0].value) == "samples":
            idx = st.targets[0].slice
            if not (isinstance(idx, ast.Tuple) and len(idx.elts) == 3):
                ctx.undecided(R, st, "kernel output store", "unexpected index shape `%s`" % A.unparse(idx))
                continue
            col = A.const_value(idx.elts[2])
            if col is None:
                continue  # linear block: C03-LAYOUT
            n += 1
            v = flow.resolve(st.value, at=st)
            want_n = canon(idx.elts[0])
            ok = isinstance(v, ast.Subscript) and canon(v.value) == "chunk" and isinstance(v.slice, ast.Tuple) and len(v.slice.elts) == 2 \
                and canon(v.slice.elts[0]) == want_n and A.const_value(v.slice.elts[1]) == col
            ctx.check(R, st, "kernel: output column %d (%s) = chunk[n, %d] unchanged" % (col, order[col] if col < len(order) else "?", col), ok,
                      "output column %d receives `%s`, not the unmodified input value chunk[%s, %d]" % (col, A.unparse(v)[:60], want_n, col), key="kernel:col%d" % col)
    ctx.floor(R, n, 5)


def check_passthrough(ctx, R):
    """make_full_samples / make_full_samples_inmem pass the rows through untouched and in order"""
    mf = ctx.prog.func(_rej.MP, "make_full_samples", R)
    fl = A.Flow(mf)
    rw = A.find_calls(mf, "run_worker")
    okf = len(rw) == 1 and canon(fl.resolve(A.get_arg(rw[0], None, "samples_idx") or ast.Constant(value=None), at=A.enclosing_stmt(rw[0]))) == "samples_idx"
    ctx.check(R, mf, "make_full_samples hands the caller's row index to run_worker unmodified", okf,
              "run_worker receives `%s` instead of the samples_idx it was given (rows would come back in another order than the log-prob columns)" %
              (A.unparse(fl.resolve(A.get_arg(rw[0], None, "samples_idx"), at=A.enclosing_stmt(rw[0])))[:60] if rw and A.get_arg(rw[0], None, "samples_idx") is not None else None), key="mfs:idx")
    for f2, nm in ((mf, "make_full_samples"), (ctx.prog.func(_rej.LH, "make_full_samples_inmem", R), "make_full_samples_inmem")):
        fl2 = A.Flow(f2)
        un = [c for c in A.calls_in(f2) if A.last_attr(c) == "unpack"]
        ok = len(un) == 1
        why = "expected one JokerSamples.unpack call"
        if ok:
            raw = fl2.resolve(A.get_arg(un[0], 0, "packed_samples") or ast.Constant(value=None), at=A.enclosing_stmt(un[0]))
            if nm == "make_full_samples":
                ok = isinstance(raw, ast.Call) and (A.call_name(raw) or "").endswith("concatenate") and isinstance(raw.args[0], ast.Call) and A.last_attr(raw.args[0]) == "run_worker"
            else:
                ok = isinstance(raw, ast.Subscript) and A.const_value(raw.slice) == 0 and isinstance(raw.value, ast.Call) and A.last_attr(raw.value) == "batch_get_posterior_samples" \
                    and canon(A.strip_casts(raw.value.args[0])) == "prior_samples_batch"
            why = "unpacks `%s`, not the kernel output in task order" % A.unparse(raw)[:70]
        ctx.check(R, f2, "%s unpacks the kernel rows unchanged and in order" % nm, ok, why, key=nm + ":unpack")


def packed_order(prog):
    m = prog.module(FL)
    for st in m.tree.body:
        if isinstance(st, ast.Assign) and canon(st.targets[0]) == "_nonlinear_packed_order" and isinstance(st.value, (ast.List, ast.Tuple)):
            return [A.str_const(e) for e in st.value.elts]
    from ..loader import AnalysisIncomplete
    raise AnalysisIncomplete("ANCHOR", "_nonlinear_packed_order", "packed order table not found")


def check_nprior(ctx):
    R = "C02-NPRIOR"
    ctx.rule(R, "n_prior_samples selects the first rows: rejection_sample_helper forwards it (validated <= library size) to the likelihood helper, "
                "which hands it to run_worker -> batch_tasks with start_idx 0; under randomize_prior_order the evaluated rows are a "
                "no-repeat draw of that many rows.")
    S = ctx.prog.func(_rej.MP, "rejection_sample_helper", R)
    flow = A.Flow(S)
    calls = A.find_calls(S, "marginal_ln_likelihood_helper")
    ek = A.effective_kwargs(calls[0], S, flow) if len(calls) == 1 else None
    if ek is None:
        ctx.undecided(R, S, "keywords of the likelihood evaluation", "expected one marginal_ln_likelihood_helper call whose ** arguments can be read")
        return
    np_alts = ek.get("n_prior_samples", [])
    ok_fw = bool(np_alts)
    ctx.check(R, S, "n_prior_samples forwarded to the likelihood evaluation", ok_fw, "n_prior_samples never reaches marginal_ln_likelihood_helper: the whole library is evaluated", key="fw")
    if np_alts:
        leaves = set()
        for terms, val, at in np_alts:
            leaves |= {canon(x) for x in A.strip_ifexp(A.inline_temporaries(val, at, S))}
        ctx.check(R, calls[0], "forwarded value is n_prior_samples (default: library size)", leaves <= {"n_prior_samples", canon(parse("tb.open_file(prior_samples_file, mode='r').root[JokerSamples._hdf5_path].shape[0]"))} and "n_prior_samples" in leaves,
                  "forwards `%s`" % sorted(leaves), key="fwval")
    for terms, val, at in ek.get("samples_idx", []):
        val = A.inline_temporaries(val, at, S)
        for ch in A.strip_ifexp(val):
            if isinstance(ch, ast.Constant) and ch.value is None:
                continue
            ok = isinstance(ch, ast.Call) and A.last_attr(ch) == "choice" and A.const_value(A.get_arg(ch, None, "replace")) is False
            ctx.check(R, calls[0], "random order is a no-repeat draw", ok, "random row order `%s` can repeat rows (replace is not False)" % A.unparse(ch)[:70], key="choice")
            if isinstance(ch, ast.Call):
                size = A.get_arg(ch, 1, "size")
                ctx.check(R, calls[0], "random order has n_prior_samples rows", size is not None and "n_prior_samples" in A.unparse(size), "draws `%s` rows" % (A.unparse(size) if size is not None else None), key="choice-size")
    # guard n_prior_samples > n_total -> raise
    g = [s for s in A.walk_local(S) if isinstance(s, ast.If) and A.always_raises(s.body) and "n_prior_samples" in A.unparse(s.test) and "n_total_samples" in A.unparse(s.test)]
    ctx.check(R, S, "oversized n_prior_samples rejected", bool(g), "no raise when n_prior_samples exceeds the library", key="guard")
    # likelihood helper forwards to run_worker
    H = ctx.prog.func(_rej.MP, "marginal_ln_likelihood_helper", R)
    rw = A.find_calls(H, "run_worker")
    okh = bool(rw) and all(canon(A.get_arg(c, None, "n_prior_samples")) == "n_prior_samples" and canon(A.get_arg(c, None, "samples_idx")) == "samples_idx"
                           for c in rw if A.get_arg(c, None, "n_prior_samples") is not None or True)
    ctx.check(R, H, "likelihood helper forwards both row selectors to run_worker", okh, "run_worker is not given n_prior_samples / samples_idx unchanged", key="helper")
    # results concatenated in task order
    rets = [s for s in A.walk_local(H) if isinstance(s, ast.Return)]
    okc = bool(rets)
    for s in rets:
        v = A.inline_temporaries(s.value, s, H)
        okc = okc and isinstance(v, ast.Call) and (A.call_name(v) or "").endswith("concatenate") and len(v.args) >= 1 and isinstance(v.args[0], ast.Call) and A.call_name(v.args[0]) == "run_worker"
    ctx.check(R, H, "likelihoods concatenated in task order", okc, "marginal_ln_likelihood_helper does not return np.concatenate(results)", key="concat")
    ws = A.storage_writes(H, lambda e: isinstance(e, ast.Call) and (A.call_name(e) or "").endswith("concatenate"))
    ctx.check(R, ws[0][0] if ws else H, "the concatenated likelihoods are returned as computed", not ws,
              (ws[0][1] if ws else "").replace("the input", "the likelihood array") + ": position i no longer holds the likelihood of evaluated sample i", key="concat-inplace")


def check_cache(ctx, R="C02-CACHE"):
    ctx.rule(R, "tempfile_decorator writes the library object it was given - whole and unmodified - to the cache file (`prior_samples.write(f.name, ...)` on the object taken from "
                "the arguments): n_prior_samples / randomize_prior_order are interpreted against the full library by the wrapped function, so a pre-cut or re-ordered cache "
                "changes which rows can be drawn.")
    ut = ctx.prog.func("thejoker.utils", "tempfile_decorator.wrapper", R)
    fl = A.Flow(ut)
    ws = [c for c in A.calls_in(ut) if A.last_attr(c) == "write" and c.args and "name" in A.unparse(c.args[0])]
    if len(ws) != 1:
        ctx.undecided(R, ut, "cache write", "expected one `<library>.write(<temp file name>, ...)`, found %d" % len(ws))
        return
    w = ws[0]
    recv = fl.resolve(w.func.value, at=A.enclosing_stmt(w))
    ok = True
    why = ""
    for terms, leaf in A.ifexp_terms(recv):
        taken = (isinstance(leaf, ast.Subscript) and canon(leaf.value) == "kwargs" and A.str_const(leaf.slice) == "prior_samples_file") or \
            (isinstance(leaf, ast.Call) and A.last_attr(leaf) == "pop" and "args" in canon(leaf.func.value))
        if not taken:
            ok = False
            why = "the object written to the cache is `%s`, not the library taken from the arguments" % A.unparse(leaf)[:90]
    ctx.check(R, w, "the cache file holds the whole library as given", ok, why, key="whole")


def check_api(ctx):
    R = "C02-API"
    ctx.rule(R, "the public method forwards every option it accepts to the helper that implements it, under the same name (max_posterior_samples, n_prior_samples, "
                "n_linear_samples, return_logprobs, return_all_logprobs, n_batches, randomize_prior_order; rng = self.rng, pool = self.pool) with the value it received - "
                "each helper resolves its own defaults, and they differ between the in-memory and the file path -, and the helpers forward "
                "n_linear_samples / n_batches to make_full_samples*.")
    TJ = "thejoker.thejoker"
    fn = ctx.prog.func(TJ, "TheJoker.rejection_sample", R)
    table = [("rejection_sample_inmem", ["max_posterior_samples", "n_linear_samples", "return_all_logprobs"]),
             ("rejection_sample_helper", ["n_prior_samples", "max_posterior_samples", "n_linear_samples", "return_logprobs", "n_batches", "randomize_prior_order", "return_all_logprobs"])]
    for callee, names in table:
        gaps = A.forwarding_gaps(fn, callee, names, as_received=True)
        ctx.check(R, fn, "rejection_sample calls %s once" % callee, len(gaps) == 1, "found %d calls" % len(gaps), key="call:" + callee, nontrivial=False)
        for c, missing, wrong in gaps:
            ctx.check(R, c, "rejection_sample forwards its options to %s" % callee, not missing and not wrong,
                      "not forwarded: %s; forwarded as something else: %s (the option silently keeps its default)" % (missing, {k: A.unparse(v) for k, v in wrong.items()}), key="fw:" + callee)
            for kw, want in (("rng", "self.rng"),) + ((("pool", "self.pool"),) if callee.endswith("helper") else ()):
                v = A.get_arg(c, None, kw)
                ctx.check(R, c, "%s gets %s=%s" % (callee, kw, want), v is not None and canon(v) == want, "%s=%s" % (kw, A.unparse(v) if v is not None else "missing"), key="fw:%s:%s" % (callee, kw), nontrivial=False)
    for mod, q, callee, names in ((_rej.LH, "rejection_sample_inmem", "make_full_samples_inmem", ["n_linear_samples"]), (_rej.MP, "rejection_sample_helper", "make_full_samples", ["n_linear_samples", "n_batches"]),
                                  (_rej.LH, "iterative_rejection_inmem", "make_full_samples_inmem", ["n_linear_samples"]), (_rej.MP, "iterative_rejection_helper", "make_full_samples", ["n_linear_samples", "n_batches"])):
        f = ctx.prog.func(mod, q, R)
        for c, missing, wrong in A.forwarding_gaps(f, callee, names, as_received=True):
            ctx.check(R, c, "%s forwards %s to %s" % (q, names, callee), not missing and not wrong, "not forwarded: %s %s" % (missing, {k: A.unparse(v) for k, v in wrong.items()}), key="fw:%s:%s" % (q, callee))
    for mod, q, callee, names in ((_rej.MP, "make_full_samples", "run_worker", ["n_batches", "samples_idx", "rng"]), (_rej.MP, "marginal_ln_likelihood_helper", "run_worker", ["n_batches", "samples_idx", "n_prior_samples"])):
        f = ctx.prog.func(mod, q, R)
        for c, missing, wrong in A.forwarding_gaps(f, callee, names, as_received=True):
            ctx.check(R, c, "%s forwards %s to run_worker" % (q, names), not missing and not wrong, "not forwarded: %s %s" % (missing, {k: A.unparse(v) for k, v in wrong.items()}), key="fw:%s:run_worker" % q)


def run(ctx):
    ctx.rule("C02-ACC", "at each of the four rejection sites the accepted index is np.where(mask)[0] with mask == exp(L - max(L)) > U (strict; or its "
                        "mirror / log form), max over the same whole evaluated array L without extra arguments, U = rng.uniform(size=len(L)) with default "
                        "bounds from the function's rng parameter.")
    ctx.rule("C02-TRUNC", "the only slices applied to the accepted index before rows are selected are prefix slices [:k] with k exactly the documented limit; "
                          "no sort/unique/shuffle touches it.")
    ctx.rule("C02-SIB", "the four sibling sites agree on the acceptance normal form.")
    sites = []
    sig = {}
    for mod, name in _rej.SITES:
        S = _rej.analyze(ctx.prog, mod, name)
        sites.append(S)
        check_acc(ctx, S)
        check_trunc(ctx, S)
        if S.acc and S.acc.get("form"):
            kind, L, red, _ = _rej.normaliser(S.acc["arg"])
            sig[name] = (S.acc["form"], S.acc["op"], kind)
    ctx.floor("C02-ACC", len([s for s in sites if s.acc]), 4)
    # sibling agreement
    if sig:
        from collections import Counter
        common = Counter(sig.values()).most_common(1)[0][0]
        for name, s in sig.items():
            S = [x for x in sites if x.name == name][0]
            ctx.check("C02-SIB", S.acc_stmt, "%s agrees with its siblings" % name, s == common,
                      "acceptance form %s differs from the siblings' %s" % (s, common), key=name)
    check_copy(ctx, sites)
    check_nprior(ctx)
    check_cache(ctx)
    check_api(ctx)
    ctx.rule("C02-PART", "file paths: batches partition the evaluated rows exactly once and in order (shared implementation with C16), so rows come back in evaluation order.")
    from .C16 import check_batch_tasks, check_run_worker
    from .C07 import _Relabel
    check_batch_tasks(_Relabel(ctx, {"C16-P": "C02-PART"}))
    check_run_worker(_Relabel(ctx, {"C16-RUN": "C02-PART"}))
    ctx.rule("C02-ROWS", "the batch readers return the requested rows in the requested order (shared with C12-COL): an accepted index then selects the rows of the samples "
                         "whose likelihood entered the acceptance test.")
    from .C12 import _reader_checks
    _reader_checks(ctx, "C02-ROWS", "read_batch_slice", "slice")
    _reader_checks(ctx, "C02-ROWS", "read_batch_idx", "idx")
    ctx.rule("C02-UNPACK", "the returned table is built from the kernel rows without touching the values: unpack attaches units[k] to column k unchanged (shared with C17-PACK).")
    from .C17 import check_pack
    check_pack(_Relabel(ctx, {"C17-PACK": "C02-UNPACK"}))
    ctx.assume("np.where(mask)[0] returns the ascending positions of True; Generator.uniform(size=n) returns n iid U[0,1) values; fancy indexing copies rows unchanged")
