"""C09 - prior draws and reported ln_prior follow the declared densities."""
import ast

from .. import astutil as A
from ..loader import AnalysisIncomplete
from ..norm import canon, parse, dotted, rat, equal, short_fn, NormError, Rat, Poly, default_atom
from .C10 import classify

DI = "thejoker.distributions"
PR = "thejoker.prior"


class _LogExpand(ast.NodeTransformer):
    """log(x / y) -> log(x) - log(y) ; log(x * y) -> log(x) + log(y)"""

    def visit_Call(self, n):
        self.generic_visit(n)
        if short_fn(dotted(n.func)) == "log" and len(n.args) == 1 and isinstance(n.args[0], ast.BinOp):
            b = n.args[0]
            mk = lambda x: ast.Call(func=n.func, args=[x], keywords=[])
            if isinstance(b.op, ast.Div):
                return ast.BinOp(left=self.visit(mk(b.left)), op=ast.Sub(), right=self.visit(mk(b.right)))
            if isinstance(b.op, ast.Mult):
                return ast.BinOp(left=self.visit(mk(b.left)), op=ast.Add(), right=self.visit(mk(b.right)))
        if (dotted(n.func) or "").endswith("as_tensor_variable") and len(n.args) == 1:
            return n.args[0]
        return n


def lognorm(e):
    return _LogExpand().visit(A.clone(e))


def _eq(a, b_src):
    try:
        return rat(lognorm(a)).equals(rat(lognorm(parse(b_src))))
    except (NormError, ZeroDivisionError):
        return False


def check_uniformlog(ctx):
    R = "C09-FORM"
    ctx.rule(R, "UniformLog (both pymc-version variants): logp is switch(a <= value <= b, -log(value) - log(log b - log a), -inf) - the log of the documented normalised density "
                "1/(x ln(b/a)) with -inf outside the support - wrapped in check_parameters(a > 0, a < b); rng_fn returns exp(u (log b - log a) + log a) with "
                "u = rng.uniform(size=size): the inverse CDF of the same density, inside [a, b].")
    m = ctx.prog.module(DI)
    logps = m.all_functions.get("UniformLog.logp", [])
    rngs = m.all_functions.get("UniformLogRV.rng_fn", [])
    ctx.floor(R + ":logp", len(logps), 1)   # the two pymc-version branches may be merged into one definition
    ctx.floor(R + ":rng_fn", len(rngs), 1)
    for k, fn in enumerate(logps):
        tag = "logp variant %d" % (k + 1)
        flow = A.Flow(fn)
        rets = flow.returns
        if len(rets) != 1:
            ctx.undecided(R, fn, tag, "expected one return")
            continue
        v = rets[0][0]
        res = v
        if isinstance(v, ast.Call) and (A.call_name(v) or "").split(".")[-1] == "check_parameters":
            res = v.args[0]
            conds = v.args[1:]
            ctxt = " ".join(canon(c) for c in conds)
            okp = len(conds) >= 1 and A.nnf(conds[0]) in (A.nnf_of_src("(a > 0) & (a < b)"),) or ("band(" in ctxt)
            ctx.check(R, fn, tag + ": parameters validated (a > 0, a < b)", bool(conds), "check_parameters has no condition", key="logp%d:params" % k, nontrivial=False)
        else:
            ctx.violate(R, fn, tag + ": parameters validated (a > 0, a < b)", "logp is not wrapped in check_parameters", key="logp%d:params" % k)
        # support: switch(inside-test, density, -inf)  or  switch(outside-test, -inf, density); the tests compare `value` itself with both bounds
        inside = None
        if isinstance(res, ast.Call) and (A.call_name(res) or "").split(".")[-1] in ("switch", "where") and len(res.args) == 3:
            cond, br1, br2 = res.args
            cn = A.nnf(_cmp_calls(lognorm(cond)))
            inside_forms = [A.nnf_of_src(x) for x in ("(value >= a) & (value <= b)", "(value > a) & (value < b)", "(value >= a) & (value < b)", "(value > a) & (value <= b)")]
            outside_forms = [("or", frozenset(_neg(k) for k in f[1])) for f in inside_forms]
            if cn in inside_forms:
                inside, outside, oks = br1, br2, True
            elif cn in outside_forms:
                inside, outside, oks = br2, br1, True
            else:
                inside, outside, oks = br1, br2, False
            ctx.check("C09-SUPP", fn, tag + ": -inf outside [a, b]", oks and _is_neg_inf(outside),
                      "support test `%s` is not a comparison of `value` itself with both bounds (joined so that a NaN or out-of-range value selects -inf), or the outside value is `%s`" % (A.unparse(cond)[:70], A.unparse(outside)[:30]), key="logp%d:support" % k)
        else:
            ctx.violate("C09-SUPP", fn, tag + ": -inf outside [a, b]", "the value returned by logp does not depend on comparisons of `value` with the bounds: it is finite outside the support", key="logp%d:support" % k)
            inside = res
        ok = _eq(inside, "-pt.log(value) - pt.log(pt.log(b) - pt.log(a))")
        why = "inside the support logp = `%s`" % A.unparse(inside)[:90]
        if not ok and _eq(inside, "-value - pt.log(pt.log(b) - pt.log(a))"):
            why += " (subtracts the value itself, not its logarithm: kind error Dim - Log)"
        ctx.check(R, fn, tag + ": log density = -log(x) - log(log(b/a))", ok, why, key="logp%d:form" % k)
    for k, fn in enumerate(rngs):
        tag = "rng_fn variant %d" % (k + 1)
        flow = A.Flow(fn)
        rets = flow.returns
        if len(rets) != 1:
            ctx.undecided(R, fn, tag, "expected one return")
            continue
        v = rets[0][0]
        ok = False
        why = "returns `%s`" % A.unparse(v)[:90]
        if isinstance(v, ast.Call) and short_fn(dotted(v.func)) == "exp" and len(v.args) == 1:
            arg = v.args[0]
            draws = [c for c in ast.walk(arg) if isinstance(c, ast.Call) and isinstance(c.func, ast.Attribute) and c.func.attr in ("uniform", "random")]
            if len({canon(d) for d in draws}) == 1:
                d = draws[0]
                U = ast.Name(id="UDRAW", ctx=ast.Load())

                class Sub(ast.NodeTransformer):
                    def visit_Call(self, n):
                        if canon(n) == canon(d):
                            return U
                        return self.generic_visit(n)
                arg2 = Sub().visit(A.clone(arg))
                ok = _eq(arg2, "UDRAW * (np.log(b) - np.log(a)) + np.log(a)")
                tags = classify(d.func.value, fn)
                size = A.get_arg(d, None, "size") or (d.args[0] if d.func.attr == "random" and d.args else None)
                low, high = A.get_arg(d, 0, "low"), A.get_arg(d, 1, "high")
                oku = tags <= {"param"} and size is not None and canon(size) == "size" and (d.func.attr == "random" or (low is None and high is None))
                ctx.check(R, fn, tag + ": u ~ rng.uniform(size=size)", oku, "draw `%s` (generator %s)" % (A.unparse(d), sorted(tags)), key="rng%d:u" % k)
                if not ok:
                    why = "exponent `%s` is not u (log b - log a) + log a" % A.unparse(arg2)[:80]
            else:
                why = "exponent uses %d different draws" % len({canon(d) for d in draws})
        elif "uniform" in A.unparse(v):
            why += ": the inverse-CDF exponential is missing (draws are uniform in x, not in log x)"
        ctx.check(R, fn, tag + ": inverse CDF exp(u log(b/a) + log a)", ok, why, key="rng%d:form" % k)


def _cmp_calls(e):
    """pt.ge(x, y) / pt.and_(p, q) ... -> comparison / boolean operators"""
    class T(ast.NodeTransformer):
        def visit_Call(self, n):
            self.generic_visit(n)
            nm = (A.call_name(n) or "").split(".")[-1]
            ops = {"ge": ast.GtE, "le": ast.LtE, "gt": ast.Gt, "lt": ast.Lt}
            if nm in ops and len(n.args) == 2:
                return ast.Compare(left=n.args[0], ops=[ops[nm]()], comparators=[n.args[1]])
            if nm in ("and_", "bitwise_and", "logical_and") and len(n.args) == 2:
                return ast.BinOp(left=n.args[0], op=ast.BitAnd(), right=n.args[1])
            if nm in ("or_", "bitwise_or", "logical_or") and len(n.args) == 2:
                return ast.BinOp(left=n.args[0], op=ast.BitOr(), right=n.args[1])
            return n
    return T().visit(A.clone(e))


def _neg(lit):
    return ("lit", not lit[1], lit[2])


def _bit_to_bool(term):
    """treat the canonical strings band(...) / bor(...) of tensor & and | as and / or over their comparison literals"""
    if term[0] == "lit" and (term[2].startswith("band(") or term[2].startswith("bor(")):
        return term   # handled by _split below
    return term


def _bound(c, val, bound, lower):
    p = __import__("sa.norm", fromlist=["cmp_parts"]).cmp_parts(c)
    if p is None:
        return False
    op, l, r = p   # l > r or l >= r
    if op not in (">", ">="):
        return False
    if lower:
        return canon(l) == val and canon(r) == bound
    return canon(l) == bound and canon(r) == val


def _is_neg_inf(e):
    return canon(e) in (canon(parse("-np.inf")), canon(parse("-float('inf')")), canon(parse("-pt.inf")), canon(parse("-numpy.inf")), canon(parse("-math.inf")))


def check_fcm(ctx):
    R = "C09-FCM"
    ctx.rule(R, "FixedCompanionMass.dist builds sigma = clip(sigma_K0 (P/P0)^(-1/3) / sqrt(1 - e^2), 0, max_K) with P0 converted to the unit of P and max_K to the unit of "
                "sigma_K0 (unconditionally), passes mu and that sigma to Normal, and records sigma_K0 / max_K / P0 as quantities for the kernel.")
    fn = ctx.prog.func(DI, "FixedCompanionMass.dist", R)
    flow = A.Flow(fn)
    sup = [c for c in A.calls_in(fn) if isinstance(c.func, ast.Attribute) and c.func.attr == "dist" and "super" in A.unparse(c.func.value)]
    if len(sup) != 1:
        ctx.undecided(R, fn, "super().dist call", "expected one")
        return
    c = sup[0]
    ctx.check(R, c, "mean forwarded", canon(A.get_arg(c, None, "mu")) == "mu", "mu=%s" % A.unparse(A.get_arg(c, None, "mu") or ast.Constant(value=None)), key="mu", nontrivial=False)
    sg = A.get_arg(c, None, "sigma")
    sgr = A.inline_temporaries(sg, A.enclosing_stmt(c), fn) if sg is not None else None
    ok = False
    why = "sigma=%s" % (A.unparse(sgr)[:100] if sgr is not None else None)
    if isinstance(sgr, ast.Call) and (A.call_name(sgr) or "").split(".")[-1] == "clip" and len(sgr.args) == 3:
        body, lo, hi = sgr.args
        okf = equal(body, parse("sigma_K0.value * (P / P0.value) ** (-1 / 3) / np.sqrt(1 - e**2)"))
        okl = A.const_value(lo) in (0, 0.0)
        okh = canon(hi) == canon(parse("max_K.value"))
        ok = okf and okl and okh
        if not okf:
            why = "sigma body `%s` is not sigma_K0 (P/P0)^(-1/3) / sqrt(1 - e^2)" % A.unparse(body)[:80]
        elif not okh:
            why = "upper clip bound `%s` is not max_K" % A.unparse(hi)
    elif sgr is not None and "clip" not in A.unparse(sgr):
        why += ": the cap at max_K is missing"
    ctx.check(R, c, "sigma = clip(sigma_K0 (P/P0)^(-1/3) / sqrt(1-e^2), 0, max_K)", ok, why, key="sigma")
    # unit handling: the .value strips happen in the right units
    mk = [s for s in A.walk_local(fn) if isinstance(s, ast.Assign) and canon(s.targets[0]) == "max_K"]
    okm = len(mk) == 1 and canon(mk[0].value) == canon(parse("max_K.to(sigma_K0.unit)")) and not A.guards_of(mk[0])
    ctx.check(R, fn, "max_K expressed in the unit of sigma_K0 on every path", okm,
              "max_K conversion is %s: its bare value caps a sigma expressed in another unit" % ("conditional on `%s`" % A.unparse(A.guards_of(mk[0])[0][0]) if mk and A.guards_of(mk[0]) else "missing/changed (%s)" % [A.unparse(s.value) for s in mk]), key="max_K-unit")
    p0 = [s for s in A.walk_local(fn) if isinstance(s, ast.Assign) and canon(s.targets[0]) == "P0"]
    okp = len(p0) == 1 and canon(p0[0].value) == canon(parse("P0.to(getattr(P, UNIT_ATTR_NAME))")) and [(canon(t), pol) for t, pol in A.guards_of(p0[0])] == [(canon(parse("hasattr(P, UNIT_ATTR_NAME)")), True)]
    ctx.check(R, fn, "P0 expressed in the unit of the period variable", okp, "P0 conversion: %s" % [A.unparse(s.value) for s in p0], key="P0-unit")
    # recorded on the object that is returned (whatever the local holding it is called)
    rn = _returned_name(fn)
    pre = (rn or "dist") + "._"
    attrs = {"dist._" + dotted(s.targets[0])[len(pre):]: canon(s.value) for s in A.walk_local(fn) if isinstance(s, ast.Assign) and (dotted(s.targets[0]) or "").startswith(pre)}
    oka = attrs == {"dist._sigma_K0": "sigma_K0", "dist._max_K": "max_K", "dist._P0": "P0"}
    ctx.check(R, fn, "sigma_K0 / max_K / P0 recorded for the kernel", oka, "recorded attributes: %s" % attrs, key="attrs")
    qi = [d for d in fn.decorator_list if isinstance(d, ast.Call) and (A.call_name(d) or "").endswith("quantity_input")]
    okq = len(qi) == 1 and {k.arg: canon(k.value) for k in qi[0].keywords} == {"sigma_K0": canon(parse("u.km / u.s")), "P0": "u.day", "max_K": canon(parse("u.km / u.s"))}
    ctx.check(R, fn, "inputs validated as speed / time quantities", okq, "quantity_input decorator changed", key="qi", nontrivial=False)
    # agreement with the kernel's variance rule
    from . import _kernel
    K = _kernel.Kernel(ctx.prog)
    fnk = K.methods["batch_marginal_ln_likelihood"]
    lam = [s for s in A.walk_local(fnk) if isinstance(s, ast.Assign) and canon(s.targets[0]) == canon(parse("self.Lambda[0]")) and not (isinstance(s.value, ast.Call))]
    if lam and isinstance(sgr, ast.Call) and len(sgr.args) == 3:
        sig_k = parse("self.sigma_K0 * (P / self.P0) ** (-1 / 3) / np.sqrt(1 - e**2)")
        agree = equal(lam[0].value, ast.BinOp(left=sig_k, op=ast.Pow(), right=ast.Constant(value=2))) and equal(sgr.args[0], parse("sigma_K0.value * (P / P0.value) ** (-1 / 3) / np.sqrt(1 - e**2)"))
        ctx.check(R, lam[0], "kernel K-variance rule = sigma(P, e)^2 of the distribution", agree, "kernel uses `%s`" % A.unparse(lam[0].value)[:80], key="kernel-agree")


def _mro(m, cname):
    """in-package linearisation by single inheritance: [class, base, base of base ...] (ClassDef nodes), plus the first external base name"""
    out, ext = [], None
    seen = set()
    while cname in m.classes and cname not in seen:
        seen.add(cname)
        cd = m.classes[cname]
        out.append(cd)
        nxt = None
        for b_ in cd.bases:
            bn = dotted(b_) or ""
            if bn.split(".")[-1] in m.classes:
                nxt = bn.split(".")[-1]
                break
            ext = ext or bn
        if nxt is None:
            break
        cname = nxt
    return out, ext


def _mangle(attr, owner):
    return "_%s%s" % (owner.lstrip("_"), attr) if attr.startswith("__") and not attr.endswith("__") else attr


def _class_value(mro, attr, accessed_in):
    """value expression of `cls.<attr>` looked up on the MRO, with Python's private-name mangling (`__x` written in class B means `_B__x`)"""
    want = _mangle(attr, accessed_in)
    for cd in mro:
        for st in cd.body:
            if isinstance(st, ast.Assign) and len(st.targets) == 1 and isinstance(st.targets[0], ast.Name) and _mangle(st.targets[0].id, cd.name) == want:
                return st.value
    return None


def _kipping_params(ctx, m, cname):
    """(alpha, beta, description) the class hands to Beta.dist, following inherited `dist` methods and class attributes"""
    mro, ext = _mro(m, cname)
    for cd in mro:
        dist = [f for f in cd.body if isinstance(f, ast.FunctionDef) and f.name == "dist"]
        if not dist:
            continue
        fn = dist[0]
        c = [x for x in A.calls_in(fn) if isinstance(x.func, ast.Attribute) and x.func.attr == "dist"]
        if len(c) != 1:
            return None, None, "dist of %s does not call the base dist once" % cd.name, ext
        vals = []
        for kw in ("alpha", "beta"):
            e = A.get_arg(c[0], None, kw)
            v = None
            if e is not None:
                e = A.inline_temporaries(e, A.enclosing_stmt(c[0]), fn)
                if isinstance(e, ast.Name):
                    src = A.reaching_binding_stmt(e.id, A.enclosing_stmt(c[0]))
                    if src is not None and isinstance(src.targets[0], ast.Tuple) and isinstance(src.value, ast.Attribute) and canon(src.value.value) in ("cls", "self"):
                        pos = [i for i, t in enumerate(src.targets[0].elts) if isinstance(t, ast.Name) and t.id == e.id]
                        tv = _class_value(mro, src.value.attr, cd.name)
                        if pos and isinstance(tv, ast.Tuple) and pos[0] < len(tv.elts):
                            e = tv.elts[pos[0]]
                if isinstance(e, ast.Attribute) and canon(e.value) in ("cls", "self"):
                    e = _class_value(mro, e.attr, cd.name) or e
                if isinstance(e, ast.Subscript) and isinstance(e.value, ast.Attribute) and canon(e.value.value) in ("cls", "self") and isinstance(A.const_value(e.slice), int):
                    tv = _class_value(mro, e.value.attr, cd.name)
                    if isinstance(tv, ast.Tuple) and A.const_value(e.slice) < len(tv.elts):
                        e = tv.elts[A.const_value(e.slice)]
                v = A.const_value(e)
            vals.append(v)
        return vals[0], vals[1], "dist defined in %s" % cd.name, ext
    return None, None, "no dist method", ext


def check_kipping(ctx):
    R = "C09-KIP"
    ctx.rule(R, "Kipping (2013) Beta parameters: short (0.697, 3.27), long (1.12, 3.09), global (0.867, 3.03) - these numbers are the documented density; decided on the parameters "
                "each class effectively hands to Beta.dist (inherited `dist` methods and class attributes are followed with Python's name-mangling rule for `__x`).")
    table = {"Kipping13Short": (0.697, 3.27), "Kipping13Long": (1.12, 3.09), "Kipping13Global": (0.867, 3.03)}
    m = ctx.prog.module(DI)
    for cls, (a, b) in table.items():
        if cls not in m.classes:
            raise AnalysisIncomplete(R, cls, "class not found")
        ga, gb, how, ext = _kipping_params(ctx, m, cls)
        cd = m.classes[cls]
        ctx.check(R, cd, "%s = Beta(%s, %s)" % (cls, a, b), ga == a and gb == b, "Beta(%s, %s) (%s)" % (ga, gb, how), key=cls)
        ctx.check(R, cd, "%s is a pm.Beta" % cls, ext == "pm.Beta", "external base %s" % ext, key=cls + ":base", nontrivial=False)
        extra = [x.name for x in cd.body if isinstance(x, ast.FunctionDef) and x.name in ("logp", "logcdf", "icdf", "support_point", "moment", "rng_fn")] + \
                []
        ctx.check(R, cd, "%s inherits Beta's log-density and sampler" % cls, not extra,
                  "%s defines %s: pymc registers class-level hooks by the random-variable op, which these classes share with pm.Beta - every Beta variable in the process gets it" % (cls, extra), key=cls + ":hooks")


def check_wire(ctx):
    R = "C09-WIRE"
    ctx.rule(R, "default priors: e <- Kipping13Global [dimensionless], omega, M0 <- uniform angle [rad], s <- the given constant in its own unit, "
                "P <- UniformLog(P_min, P_max in P_min's unit) [P_min's unit]; K <- FixedCompanionMass(P, e, sigma_K0, P0) [sigma_K0's unit]; v_i <- Normal(0, sigma_v[name]) [its unit].")
    fn = ctx.prog.func(PR, "default_nonlinear_prior", R)
    want = {
        "e": "xu.with_unit(Kipping13Global('e'), u.one)",
        "omega": "xu.with_unit(angle('omega'), u.rad)",
        "M0": "xu.with_unit(angle('M0'), u.rad)",
        "s": "xu.with_unit(pm.Deterministic('s', pt.constant(s.value)), s.unit)",
        "P": "xu.with_unit(UniformLog('P', P_min.value, P_max.to_value(P_min.unit)), P_min.unit)",
    }
    got = {}
    OUT = _returned_name(fn) or "out_pars"
    for s in A.walk_local(fn):
        if isinstance(s, ast.Assign) and isinstance(s.targets[0], ast.Subscript) and canon(s.targets[0].value) == OUT and A.str_const(s.targets[0].slice):
            got[A.str_const(s.targets[0].slice)] = s
    for name, src in want.items():
        s = got.get(name)
        ok = s is not None and canon(A.inline_temporaries(s.value, s, fn)) == canon(parse(src))
        g = A.term_strings(A.path_condition(s, fn, inline=False)) if s is not None else set()
        okg = ("-'%s' in pars" % name) in g
        why = "out_pars['%s'] = %s" % (name, A.unparse(s.value)[:100] if s is not None else "missing")
        ctx.check(R, s or fn, "default prior of %s" % name, ok and okg, why if not ok else "default is not guarded by `'%s' not in pars`" % name, key="nl:" + name)
    ang = [n for n in ast.walk(fn) if isinstance(n, ast.ImportFrom) and any(a.name == "angle" for a in n.names)]
    ctx.check(R, fn, "angle prior is pymc_ext's uniform angle", len(ang) == 1 and ang[0].module == "pymc_ext.distributions", "angle imported from %s" % [a.module for a in ang], key="angle", nontrivial=False)
    fl = ctx.prog.func(PR, "default_linear_prior", R)
    got = {}
    OUT = _returned_name(fl) or "out_pars"
    loopvar = None
    for s in A.walk_local(fl):
        if isinstance(s, ast.Assign) and isinstance(s.targets[0], ast.Subscript) and canon(s.targets[0].value) == OUT:
            k_ = s.targets[0].slice
            lp_ = A.enclosing(s, (ast.For,))
            if isinstance(k_, ast.Name) and lp_ is not None and k_.id in A.loop_roles(lp_.target, lp_.iter) and not isinstance(s.value, ast.Subscript):
                loopvar = k_.id
                got["name"] = s
            else:
                got[canon(k_)] = s
    sK = got.get(canon(parse("'K'")))
    okK = sK is not None and canon(A.inline_temporaries(sK.value, sK, fl)) == canon(parse("xu.with_unit(FixedCompanionMass('K', P=model.named_vars.get('P', None), e=model.named_vars.get('e', None), sigma_K0=sigma_K0, P0=P0), sigma_K0.unit)"))
    ctx.check(R, sK or fl, "default prior of K", okK, "out_pars['K'] = %s" % (A.unparse(sK.value)[:120] if sK is not None else "missing"), key="l:K")
    sv = got.get("name")
    NV = loopvar or "name"
    okv = sv is not None and canon(A.inline_temporaries(sv.value, sv, fl)) == canon(parse("xu.with_unit(pm.Normal(%s, 0.0, sigma_v[%s].value), sigma_v[%s].unit)" % (NV, NV, NV)))
    lp = A.enclosing(sv, (ast.For,)) if sv is not None else None
    if okv and lp is not None:
        it, tg = lp.iter, lp.target
        if isinstance(it, ast.Call) and A.call_name(it) == "enumerate" and len(it.args) == 1 and isinstance(tg, ast.Tuple) and len(tg.elts) == 2:
            it, tg = it.args[0], tg.elts[1]
        src = A.unpack_source(it.id, lp) if isinstance(it, ast.Name) else None
        okv = isinstance(tg, ast.Name) and tg.id == NV and src is not None and A.call_name(src[0]) == "validate_poly_trend" and src[1] == 1
    else:
        okv = False
    ctx.check(R, sv or fl, "default prior of v_i", okv, "out_pars[name] = %s" % (A.unparse(sv.value)[:100] if sv is not None else "missing"), key="l:v")


def _returned_name(fn):
    rets = [s for s in A.walk_local(fn) if isinstance(s, ast.Return)]
    names = {s.value.id for s in rets if isinstance(s.value, ast.Name)}
    return names.pop() if len(names) == 1 and len(rets) == len([s for s in rets if isinstance(s.value, ast.Name)]) else None


def check_offset_names(ctx):
    R = "C09-WIRE"
    init = ctx.prog.func(PR, "JokerPrior.__init__", R)
    # each offset prior is registered under ITS OWN name (the pymc variable's name): sampling and log-densities look parameters up by name
    hits = []
    for lp in [n for n in A.walk_local(init) if isinstance(n, ast.For)]:
        it = A.inline_temporaries(lp.iter, lp, init)
        if not ("v0_offsets" in A.unparse(it) and isinstance(lp.target, ast.Name)):
            continue
        v = lp.target.id
        for st in lp.body:
            if isinstance(st, ast.Assign) and isinstance(st.targets[0], ast.Subscript) and canon(st.value) == v:
                hits.append((st, canon(st.targets[0].slice) == canon(parse("%s.name" % v)), A.unparse(st.targets[0].slice)))
    ok = len(hits) == 1 and hits[0][1]
    ctx.check(R, hits[0][0] if hits else init, "offset priors are registered under their own variable names", ok,
              ("registered under `%s`, not under the variable's own name" % hits[0][2]) if hits else
              "no `pars[p.name] = p` over the given offsets: names are assigned by position, so differently ordered (correctly named) offsets swap their priors", key="offset-names")


def check_default(ctx):
    R = "C09-WIRE"
    fn = ctx.prog.func(PR, "JokerPrior.default", R)
    table = [("default_nonlinear_prior", ["P_min", "P_max", "s", "model", "pars"]), ("default_linear_prior", ["sigma_K0", "P0", "sigma_v", "poly_trend", "model", "pars"]), ("cls", ["model", "poly_trend", "v0_offsets"])]
    for callee, names in table:
        gaps = A.forwarding_gaps(fn, callee, names)
        ctx.check(R, fn, "JokerPrior.default calls %s once" % callee, len(gaps) == 1, "found %d calls" % len(gaps), key="default:call:" + callee, nontrivial=False)
        for c, missing, wrong in gaps:
            ctx.check(R, c, "JokerPrior.default forwards %s to %s" % (names, callee), not missing and not wrong,
                      "not forwarded: %s; forwarded as something else: %s - the option given to JokerPrior.default is silently replaced by the callee's default" % (missing, {k: A.unparse(v) for k, v in wrong.items()}),
                      key="default:fw:" + callee)
    # defaults of the callee must not silently stand in for required inputs
    dl = ctx.prog.func(PR, "default_linear_prior", R)
    for nm in ("sigma_K0", "P0"):
        d = A.param_default(dl, nm)
        ctx.check(R, dl, "default_linear_prior has no built-in %s" % nm, d is not None and isinstance(d, ast.Constant) and d.value is None, "default %s=%s" % (nm, A.unparse(d) if d is not None else "required"), key="default:none:" + nm, nontrivial=False)
    pd = A.param_default(fn, "P0")
    ctx.check(R, fn, "documented default P0 = 1 year", pd is not None and canon(pd) == canon(parse("1 * u.year")), "P0 default %s" % (A.unparse(pd) if pd is not None else None), key="default:P0", nontrivial=False)
    merged = [s for s in A.walk_local(fn) if isinstance(s, ast.Assign) and isinstance(s.targets[0], ast.Name) and (
        (isinstance(s.value, ast.Dict) and s.value.keys and all(k is None for k in s.value.keys)) or (isinstance(s.value, ast.BinOp) and isinstance(s.value.op, ast.BitOr)))]
    for m_ in merged:
        if isinstance(m_.value, ast.BinOp):
            # a | b on two mappings = {**a, **b}
            m_.value = ast.copy_location(ast.Dict(keys=[None, None], values=[m_.value.left, m_.value.right]), m_.value)
    okm = len(merged) == 1 and all(k is None for k in merged[0].value.keys) and len(merged[0].value.values) == 2
    if okm:
        srcs = []
        for v in merged[0].value.values:
            r = A.inline_temporaries(v, merged[0], fn)
            srcs.append(A.call_name(r) if isinstance(r, ast.Call) else None)
        okm = srcs == ["default_nonlinear_prior", "default_linear_prior"]
    ctx.check(R, merged[0] if merged else fn, "nonlinear and linear defaults are merged into the prior", okm, "pars = %s" % (A.unparse(merged[0].value) if merged else None), key="default:merge", nontrivial=False)


def _draw_list(pl):
    """the drawn list is the values of a mapping D in key order: returns ({canonical spellings of the key list}, D) or (None, None)"""
    from .C04 import _comp_equal
    if isinstance(pl, ast.Call) and A.call_name(pl) == "list" and len(pl.args) == 1 and isinstance(pl.args[0], ast.Call) and A.last_attr(pl.args[0]) == "values" and not pl.args[0].args:
        D = pl.args[0].func.value
        ks = ["list(%s.keys())", "list(%s)", "%s.keys()", "%s"]
        return {canon(parse(k % A.unparse(D))) for k in ks}, D
    if isinstance(pl, ast.ListComp) and len(pl.generators) == 1 and not pl.generators[0].ifs and isinstance(pl.generators[0].target, ast.Name) \
            and isinstance(pl.elt, ast.Subscript) and canon(pl.elt.slice) == pl.generators[0].target.id:
        D = pl.elt.value
        K = pl.generators[0].iter
        dn = A.unparse(D)
        own = {canon(parse(k % dn)) for k in ("list(%s.keys())", "list(%s)", "%s.keys()", "%s")}
        return (own if canon(K) in own else {canon(K)}), D
    return None, None


def _selection_nnf(cond, kname, flow, at, fn):
    """NNF of the selection condition with `k in W` unfolded through the set algebra that builds W"""
    def rec(t, neg):
        if isinstance(t, ast.UnaryOp) and isinstance(t.op, ast.Not):
            return rec(t.operand, not neg)
        if isinstance(t, ast.BoolOp):
            is_and = isinstance(t.op, ast.And) != neg
            kids = [rec(v, neg) for v in t.values]
            return A.conj(kids) if is_and else _disj(kids)
        if isinstance(t, ast.Compare) and len(t.ops) == 1 and isinstance(t.ops[0], (ast.In, ast.NotIn)) and canon(t.left) == kname:
            E = t.comparators[0]
            if isinstance(E, ast.Name):
                E = flow.resolve(E, at=at)
            return A.membership(t.left, E, neg != isinstance(t.ops[0], ast.NotIn))
        return A.nnf(t, neg)
    return rec(cond, False)


def _disj(kids):
    flat = set()
    for k in kids:
        if k[0] == "or":
            flat |= set(k[1])
        else:
            flat.add(k)
    return next(iter(flat)) if len(flat) == 1 else ("or", frozenset(flat))


def _sub(node, **kw):
    """parse a template and substitute $-free placeholders NAME -> AST"""
    t = parse(node)
    return A._Subst(kw, False).visit(A.clone(t))


def check_sum(ctx):
    R = "C09-SUM"
    ctx.rule(R, "JokerPrior.sample draws exactly the selected variables with one pm.draw(..., random_seed=rng); column `name` of the result is the draw of variable `name` "
                "in that variable's unit; ln_prior is the sum over ALL drawn variables of pm.logp(par, its own column) (a variable whose log-density cannot be evaluated "
                "is skipped with a warning - allow-listed, needed for the constant jitter); the selection is the nonlinear names plus, iff generate_linear, the linear and offset names. "
                "All clauses are stated over the expressions that reach the sinks (local names are irrelevant).")
    fn = ctx.prog.func(PR, "JokerPrior.sample", R)
    flow = A.Flow(fn)

    def I(e, st):
        return A.inline_temporaries(e, st, fn, depth=8)
    draws = [c for c in A.calls_in(fn) if A.call_name(c) == "pm.draw"]
    if len(draws) != 1:
        ctx.violate(R, fn, "one joint pm.draw", "found %d pm.draw calls: variables drawn separately are no longer jointly distributed (K depends on P, e)" % len(draws), key="draw-count")
        return
    d = draws[0]
    dst = A.enclosing_stmt(d)
    pl = I(d.args[0], dst)
    names_src, D = _draw_list(pl)
    ctx.check(R, d, "draws the selected variables in name order", names_src is not None, "draw list `%s`" % A.unparse(pl)[:80], key="draw-list")
    ctx.check(R, d, "draws `size` samples", canon(A.get_arg(d, None, "draws")) == "size", "draws=%s" % A.unparse(A.get_arg(d, None, "draws") or ast.Constant(value=None)), key="draw-size", nontrivial=False)
    if names_src is None:
        return
    # ---- selection
    Dx = D
    if isinstance(Dx, ast.Name):
        Dx = flow.resolve(Dx, at=dst)
    oksel = False
    why = "selected variables = %s" % A.unparse(Dx)[:120]
    if isinstance(Dx, ast.DictComp) and len(Dx.generators) == 1 and len(Dx.generators[0].ifs) == 1:
        g = Dx.generators[0]
        kv = g.target
        if isinstance(kv, ast.Tuple) and len(kv.elts) == 2 and all(isinstance(e, ast.Name) for e in kv.elts) and canon(g.iter) == canon(parse("self.pars.items()")) \
                and canon(Dx.key) == kv.elts[0].id and canon(Dx.value) == kv.elts[1].id:
            kname = kv.elts[0].id
            want = A.nnf_of_src("%s in self._nonlinear_equiv_units or ((%s in self._linear_equiv_units or %s in self._v0_offsets_equiv_units) and generate_linear)" % (kname, kname, kname))
            got = _selection_nnf(g.ifs[0], kname, flow, dst, fn)
            oksel = A.nnf_equiv(got, want)
            if not oksel:
                why = "selection condition `%s` is not equivalent to: nonlinear, or (linear or offset) and generate_linear" % A.unparse(g.ifs[0])[:100]
    ctx.check(R, d, "selection = nonlinear (+ linear and offsets iff generate_linear)", oksel, why, key="selection")
    Dcan = canon(D)
    # ---- pairing of names and draws: the mapping built by zipping the name list with the draw result
    RAW = None
    okrs = False
    why = "no {name: draw} mapping zipped from the names and the draw result"
    site = fn
    for dc in [n for n in A.walk_local(fn) if isinstance(n, ast.DictComp) and len(n.generators) == 1]:
        it = dc.generators[0].iter
        if not (isinstance(it, ast.Call) and A.call_name(it) == "zip" and len(it.args) >= 2):
            continue
        st = A.enclosing_stmt(dc)
        last = flow.resolve(it.args[-1], at=st)
        if not (isinstance(last, ast.Call) and A.call_name(last) == "pm.draw"):
            continue
        first = I(it.args[0], st)
        tg = dc.generators[0].target
        okrs = canon(first) in names_src and isinstance(tg, ast.Tuple) and len(tg.elts) == len(it.args) and not dc.generators[0].ifs \
            and canon(dc.key) == canon(tg.elts[0]) and canon(A.strip_casts(dc.value, any_astype=True)) == canon(tg.elts[-1])
        why = "mapping = %s" % A.unparse(dc)[:110]
        site = st
        RAW = I(dc, st)
        break
    ctx.check(R, site, "draw i is stored under name i", okrs, why, key="pairing")
    if RAW is None:
        return
    RAWcan = canon(RAW)
    # the mapping is read-only from here on: the columns and the log-density are both taken from it, as drawn
    ws = A.storage_writes(fn, lambda e, dc=dc: e is dc)
    ctx.check(R, ws[0][0] if ws else site, "the draws are stored and evaluated as drawn", not ws,
              (ws[0][1] if ws else "").replace("the input", "the mapping of draws") + ": the returned column (and the value its log-density is evaluated at) is no longer the draw of that variable", key="raw-write")

    def is_raw(e, st):
        return canon(I(e, st)) == RAWcan

    def is_D(e, st):
        return canon(I(e, st)) == Dcan or canon(e) == Dcan
    # ---- logp loop
    lps = [c for c in A.calls_in(fn) if A.call_name(c) == "pm.logp"]
    if len(lps) != 1:
        ctx.violate(R, fn, "ln_prior sums pm.logp terms", "found %d pm.logp calls" % len(lps), key="logp-count")
        return
    lc = lps[0]
    loop = A.enclosing(lc, (ast.For,))
    pv = kv_ = None
    okloop = False
    if loop is not None:
        it = I(loop.iter, loop)
        if isinstance(loop.target, ast.Name):
            pv = loop.target.id
            okloop = canon(it) == canon(pl) or (isinstance(it, ast.Call) and A.last_attr(it) == "values" and not it.args and is_D(it.func.value, loop)) \
                or (isinstance(it, ast.Call) and A.call_name(it) == "list" and len(it.args) == 1 and isinstance(it.args[0], ast.Call) and A.last_attr(it.args[0]) == "values" and is_D(it.args[0].func.value, loop))
        elif isinstance(loop.target, ast.Tuple) and len(loop.target.elts) == 2 and all(isinstance(e, ast.Name) for e in loop.target.elts):
            kv_, pv = loop.target.elts[0].id, loop.target.elts[1].id
            okloop = isinstance(it, ast.Call) and A.last_attr(it) == "items" and not it.args and is_D(it.func.value, loop)
    ctx.check(R, loop or lc, "log-density loop runs over every drawn variable", okloop, "loop is `for %s in %s`" % (A.unparse(loop.target), A.unparse(loop.iter)[:90]) if loop is not None else "not in a loop", key="logp-loop")
    acc_name = None
    if loop is not None and pv is not None:
        lst = A.enclosing_stmt(lc)
        a1 = lc.args[1] if len(lc.args) > 1 else None
        okterm = canon(lc.args[0]) == pv and isinstance(a1, ast.Subscript) and is_raw(a1.value, lst) and canon(a1.slice) in ([canon(parse("%s.name" % pv))] + ([kv_] if kv_ else []))
        ctx.check(R, lc, "each term is pm.logp(par, <its own column>)", bool(okterm), "term is `%s`" % A.unparse(lc)[:80], key="logp-term")
        # nothing before the try may skip a variable
        tr = A.enclosing(lc, (ast.Try,))
        first = tr if tr is not None else A.enclosing_stmt(lc)
        pre = loop.body[:loop.body.index(first)] if first in loop.body else loop.body
        skips = [x for s_ in pre for x in A.walk_local(s_) if isinstance(x, (ast.Continue, ast.Break))]
        nested = first not in loop.body
        ctx.check(R, loop, "no variable is excluded from the sum up front", not skips and not nested,
                  "an earlier `continue`/condition skips some variables (their log-density is dropped although they are drawn)", key="logp-skip")
        app = [c for c in A.calls_in(loop) if A.last_attr(c) == "append"]
        okapp = len(app) == 1 and not A.guards_of(app[0], stop=loop) and isinstance(app[0].func.value, ast.Name)
        if okapp:
            acc_name = app[0].func.value.id
            v = flow.resolve(app[0].args[0], at=A.enclosing_stmt(app[0]))
            okapp = any(x is lc or (isinstance(x, ast.Call) and A.call_name(x) == "pm.logp") for x in ast.walk(v))
        ctx.check(R, loop, "every evaluated term is accumulated", okapp, "append sites: %d" % len(app), key="logp-append", nontrivial=False)
    # ---- the result table
    tbl = None
    st_all = [s_ for s_ in A.walk_local(fn) if isinstance(s_, ast.Assign) and isinstance(s_.targets[0], ast.Subscript) and isinstance(s_.targets[0].value, ast.Name)]
    rets = flow.returns
    tname = canon(rets[0][1].value) if len(rets) == 1 and isinstance(rets[0][1].value, ast.Name) else "prior_samples"
    st = [s_ for s_ in st_all if s_.targets[0].value.id == tname]
    lpcol = [s_ for s_ in st if A.str_const(s_.targets[0].slice) == "ln_prior"]
    oks = False
    whys = "no ln_prior column"
    if len(lpcol) == 1:
        v = I(lpcol[0].value, lpcol[0])
        if isinstance(v, ast.Name):
            defs = [s_ for s_ in A.walk_local(fn) if isinstance(s_, ast.Assign) and isinstance(s_.targets[0], ast.Name) and s_.targets[0].id == v.id]
            if len(defs) == 1 and A.dominates(loop, defs[0]) if loop is not None else False:
                v = I(defs[0].value, defs[0])
        oks = acc_name is not None and canon(v) in (canon(parse("%s.sum(axis=0)" % acc_name)), canon(parse("%s.sum(0)" % acc_name)), canon(parse("sum(%s)" % acc_name)))
        whys = "ln_prior = %s" % A.unparse(v)[:80]
    ctx.check(R, lpcol[0] if lpcol else fn, "ln_prior = sum of the terms over variables", oks, whys, key="sum")
    g = [(canon(t), pol) for t, pol in A.guards_of(lpcol[0])] if lpcol else []
    ctx.check(R, lpcol[0] if lpcol else fn, "ln_prior column stored under return_logprobs", len(lpcol) == 1 and ("return_logprobs", True) in g, "ln_prior store guarded by %s" % g, key="lpcol", nontrivial=False)
    cols = [s_ for s_ in st if not A.str_const(s_.targets[0].slice) and A.enclosing(s_, (ast.For,)) is not None]
    okc = False
    whyc = "no per-name column store"
    if len(cols) == 1:
        c = cols[0]
        lp = A.enclosing(c, (ast.For,))
        it = I(lp.iter, lp)
        nm = pvar = None
        if isinstance(lp.target, ast.Name) and canon(it) in names_src:
            nm = lp.target.id
        elif isinstance(lp.target, ast.Tuple) and len(lp.target.elts) == 2 and all(isinstance(e, ast.Name) for e in lp.target.elts) \
                and isinstance(it, ast.Call) and A.last_attr(it) == "items" and not it.args and is_D(it.func.value, lp):
            nm, pvar = lp.target.elts[0].id, lp.target.elts[1].id
        v = I(c.value, c)
        whyc = "column store: %s" % A.unparse(c.value)[:100]
        if nm is not None and canon(c.targets[0].slice) == nm and isinstance(v, ast.BinOp) and isinstance(v.op, ast.Mult):
            for val, unit in ((v.left, v.right), (v.right, v.left)):
                okv = isinstance(val, ast.Call) and A.call_name(val) in ("np.atleast_1d", "np.asarray", "np.array") and len(val.args) == 1 and isinstance(val.args[0], ast.Subscript) \
                    and canon(val.args[0].slice) == nm and canon(val.args[0].value) == RAWcan
                oku = isinstance(unit, ast.Call) and A.call_name(unit) == "getattr" and len(unit.args) == 3 and canon(unit.args[1]) == canon(parse("xu.UNIT_ATTR_NAME")) \
                    and canon(unit.args[2]) == canon(parse("u.one"))
                if oku:
                    src = unit.args[0]
                    oku = (pvar is not None and canon(src) == pvar) or (isinstance(src, ast.Subscript) and canon(src.slice) == nm and canon(src.value) in (Dcan, canon(parse("self.pars"))))
                if okv and oku:
                    okc = True
    ctx.check(R, cols[0] if cols else fn, "column `name` = its own draw in its own unit", okc, whyc, key="column")
    # parents: a variable whose distribution depends on other drawn variables must be evaluated at those rows' values
    R2 = "C09-PARENTS"
    ctx.rule(R2, "a log-density term of a variable whose distribution parameters are other drawn variables (the default K prior depends on P and e) is evaluated with those "
                 "variables bound to the same rows' drawn values, not re-drawn.")
    ev = A.parent(lc)
    evalcall = None
    x = lc
    while x is not None and not isinstance(x, ast.stmt):
        p = A.parent(x)
        if isinstance(p, ast.Attribute) and p.attr == "eval" and isinstance(A.parent(p), ast.Call):
            evalcall = A.parent(p)
            break
        x = p
    dl = ctx.prog.func(PR, "default_linear_prior", R2)
    dep = [c for c in A.calls_in(dl) if A.call_name(c) == "FixedCompanionMass" and A.get_arg(c, None, "P") is not None and A.get_arg(c, None, "e") is not None]
    if evalcall is not None and dep:
        bound = bool(evalcall.args) or bool(evalcall.keywords)
        ctx.check(R2, evalcall, "pm.logp(K | P, e) evaluated at each row's own P, e", bound,
                  "`.eval()` without values for the parent variables: the K term of ln_prior is computed for freshly re-drawn P and e, not for the P, e of the row (generate_linear=True, return_logprobs=True)",
                  key="logp-eval-without-parent-values")


def run(ctx):
    ctx.rule("C09-SUPP", "the value returned by logp depends on comparisons of `value` with both bounds, joined conjunctively, and is -inf outside.")
    check_uniformlog(ctx)
    check_fcm(ctx)
    check_kipping(ctx)
    check_wire(ctx)
    check_offset_names(ctx)
    from .C05 import check_mutable_defaults
    check_mutable_defaults(ctx, "C09-STATE")
    check_default(ctx)
    check_sum(ctx)
    ctx.assume("densities and samplers of pymc / pytensor built-ins (Beta, Normal, angle) are as documented; pm.draw draws jointly from the model graph")
