"""C01 - the marginal log-likelihood equals the analytic Gaussian marginal."""
import ast

from .. import astutil as A
from ..norm import canon, parse, dotted, equal, rat, NormError
from . import _kernel
from .C02 import packed_order

FL = "thejoker.src.fast_likelihood"
PH = "thejoker.prior_helpers"
LHM = "thejoker.likelihood_helpers"
NL, NT = "range(self.n_linear)", "range(self.n_times)"
PROLOGUES = ("batch_marginal_ln_likelihood", "batch_get_posterior_samples", "test_likelihood_worker")


def fold_roles(ctx, K, R):
    """get_ivar: which parameter is written (folded weights), which is the raw array, which the jitter; and its formula"""
    fn = K.modfuncs.get("get_ivar")
    if fn is None:
        ctx.violate(R, K.mod.tree, "jitter fold routine", "get_ivar not found: the jitter is never folded into the weights", key="fold-missing")
        return None
    params = A.param_names(fn)
    stores = [s for s in A.walk_local(fn) if isinstance(s, ast.Assign) and isinstance(s.targets[0], ast.Subscript) and isinstance(s.targets[0].value, ast.Name) and s.targets[0].value.id in params]
    if len(stores) != 1:
        ctx.undecided(R, fn, "fold routine shape", "expected one array store, found %d" % len(stores))
        return None
    st = stores[0]
    out_p = st.targets[0].value.id
    idx = canon(st.targets[0].slice)
    arrays = sorted({n.value.id for n in ast.walk(st.value) if isinstance(n, ast.Subscript) and isinstance(n.value, ast.Name) and n.value.id in params})
    scalars = sorted({n.id for n in ast.walk(st.value) if isinstance(n, ast.Name) and n.id in params} - set(arrays))
    ok_shape = len(arrays) == 1 and len(scalars) == 1 and arrays[0] != out_p
    if not ok_shape:
        ctx.violate(R, st, "fold = f(raw weights, jitter)", "the folded weights are computed from arrays %s and scalars %s" % (arrays, scalars), key="fold-shape")
        return None
    raw_p, s_p = arrays[0], scalars[0]
    want = parse("%s[%s] / (1 + %s * %s * %s[%s])" % (raw_p, idx, s_p, s_p, raw_p, idx))
    okf = equal(st.value, want)
    ctx.check(R, st, "fold: W = ivar / (1 + s^2 ivar)", okf, "folded weight is `%s`, not ivar/(1 + s^2 ivar) = 1/(sigma^2 + s^2)" % A.unparse(st.value), key="fold-form")
    lp = A.enclosing(st, (ast.For,))
    okl = lp is not None and isinstance(lp.target, ast.Name) and lp.target.id == idx and canon(lp.iter) in (canon(parse("range(%s.shape[0])" % raw_p)), canon(parse("range(len(%s))" % raw_p)), canon(parse("range(%s.shape[0])" % out_p)))
    ctx.check(R, st, "fold covers every epoch", okl, "fold loop is `for %s in %s`" % (A.unparse(lp.target), A.unparse(lp.iter)) if lp is not None else "not in a loop", key="fold-loop")
    return {"fn": fn, "raw": params.index(raw_p), "s": params.index(s_p), "out": params.index(out_p)}


def check_jit(ctx, K):
    R = "C01-JIT"
    ctx.rule(R, "jitter reaches the algebra: in each per-sample prologue the fold routine receives the raw inverse variances (the field initialised from data.ivar), the packed "
                "jitter column and an output field W; the fold is W = ivar/(1 + s^2 ivar) over every epoch; the marginalisation chain (likelihood_worker -> make_AAinv, "
                "make_bBBinv) reads W and never the raw field.")
    roles = fold_roles(ctx, K, R)
    if roles is None:
        return None
    order = packed_order(ctx.prog)
    s_col = order.index("s")
    W = None
    raw = None
    n = 0
    for entry in PROLOGUES:
        fn = K.methods[entry]
        calls = [c for c in A.calls_in(fn) if A.call_name(c) == "get_ivar"]
        if len(calls) != 1:
            ctx.violate(R, fn, "%s folds the jitter once per sample" % entry, "found %d fold calls: the weights used for this sample do not contain its jitter" % len(calls), key=entry + ":fold-call")
            continue
        c = calls[0]
        n += 1
        a_raw, a_s, a_out = c.args[roles["raw"]], c.args[roles["s"]], c.args[roles["out"]]
        f_raw, f_out = K._field_of(a_raw, {}), K._field_of(a_out, {})
        ok = f_raw is not None and f_out is not None and f_raw[0] != f_out[0]
        ctx.check(R, c, "%s: fold(raw field, jitter, output field)" % entry, ok, "fold called as `%s`" % A.unparse(c), key=entry + ":fold-args")
        if not ok:
            continue
        raw, W = f_raw[0], f_out[0]
        flow = A.Flow(fn)
        sv = flow.resolve(a_s, at=A.enclosing_stmt(c))
        oks = isinstance(sv, ast.Subscript) and canon(sv.value) in ("chunk", "chunk_row") and (A.const_value(sv.slice.elts[-1]) if isinstance(sv.slice, ast.Tuple) else A.const_value(sv.slice)) == s_col
        ctx.check(R, c, "%s: jitter = packed column %d ('s')" % (entry, s_col), oks, "jitter argument is `%s`" % A.unparse(sv), key=entry + ":fold-s")
        # the fold must not be conditional inside the per-sample body
        g = A.guards_of(c)
        ctx.check(R, c, "%s: fold is unconditional" % entry, not g, "fold only under `%s`" % (A.unparse(g[0][0]) if g else ""), key=entry + ":fold-uncond", nontrivial=False)
    ctx.floor(R, n, 3)
    if W is None:
        return None
    # raw field provenance
    init = K.methods["__init__"]
    rs = [s for s in A.walk_local(init) if isinstance(s, ast.Assign) and dotted(s.targets[0]) == "self." + raw]
    okr = len(rs) == 1 and "data.ivar" in A.unparse(rs[0].value)
    ctx.check(R, rs[0] if rs else init, "raw weights are the data's inverse variances", okr, "self.%s = %s" % (raw, A.unparse(rs[0].value)[:60] if rs else None), key="raw-src")
    # chain reads
    evs = K.events("likelihood_worker")
    raw_reads = [e for e in evs if e.kind == "R" and e.field == raw]
    w_reads = [e for e in evs if e.kind == "R" and e.field == W]
    seen = set()
    for e in raw_reads:
        k = (e.via, getattr(e.node, "lineno", 0))
        if k in seen:
            continue
        seen.add(k)
        ctx.violate(R, e.node, "marginalisation reads the jitter-folded weights", "`%s` in %s reads the raw inverse variances `%s`: this term ignores the jitter s" % (A.unparse(e.node), e.via, raw),
                    key="raw-read:%s:%s" % (e.via, canon(e.node)))
    ctx.check(R, K.methods["likelihood_worker"], "chain reads W (%s)" % W, len(w_reads) >= 6 or bool(raw_reads), "only %d reads of the folded weights in the chain" % len(w_reads), key="w-reads")
    if not raw_reads:
        ctx.ok(R, K.methods["likelihood_worker"], "no read of the raw weights in likelihood_worker / make_AAinv / make_bBBinv", "%d reads of %s, 0 of %s" % (len(w_reads), W, raw))
    return W


def check_slot(ctx, K):
    R = "C01-SLOT"
    ctx.rule(R, "prior slots = design-matrix rows: K -> 0, v0 -> 1, offset k -> 2+k, v_m (m >= 1) -> 1 + n_offsets + m; decided by evaluating the slotting if-tree over the "
                "abstract cells {K, v0, other} x fixed_K_prior {0, 1} with exact linear index forms; each slot receives (mean, std**2); the default-K cell writes no Lambda "
                "(it is set per sample); M_T row i = trend-matrix column i-1; the linear name order is K, v0, v1, ... .")
    fn = K.methods["__init__"]
    # --- offsets loop
    loops = [l for l in A.walk_local(fn) if isinstance(l, ast.For)]
    off = [l for l in loops if canon(l.iter) == canon(parse("range(self.n_offsets)"))]
    ok = False
    why = "no loop over range(self.n_offsets)"
    if len(off) == 1:
        l = off[0]
        i = l.target.id
        st = {}
        for s in A.walk_local(l):
            if isinstance(s, ast.Assign) and isinstance(s.targets[0], ast.Subscript) and dotted(s.targets[0].value) in ("self.mu", "self.Lambda"):
                st[dotted(s.targets[0].value)] = s
        okidx = all(k in st and equal(st[k].targets[0].slice, parse("2 + %s" % i)) for k in ("self.mu", "self.Lambda"))
        okval = "self.mu" in st and canon(st["self.mu"].value) == "mu" and "self.Lambda" in st and equal(st["self.Lambda"].value, parse("std ** 2"))
        nm = [s for s in l.body if isinstance(s, ast.Assign) and canon(s.targets[0]) == "name"]
        okname = len(nm) == 1 and canon(nm[0].value) == canon(parse("prior.v0_offsets[%s].name" % i))
        ok = okidx and okval and okname
        why = "offset %s stores %s" % (i, {k: (A.unparse(v.targets[0].slice), A.unparse(v.value)) for k, v in st.items()})
        if not okname:
            why = "offset name is %s" % ([A.unparse(s.value) for s in nm])
    ctx.check(R, off[0] if off else fn, "offset k: (mean, std**2) at slot 2 + k, from the k-th offset prior", ok, why, key="offsets")
    # --- linear loop
    lin = [l for l in loops if canon(l.iter) == canon(parse("enumerate(prior._linear_equiv_units.keys())")) or canon(l.iter) == canon(parse("enumerate(prior._linear_equiv_units)"))]
    if len(lin) != 1 or not isinstance(lin[0].target, ast.Tuple):
        ctx.undecided(R, fn, "linear-parameter slotting loop", "expected `for i, name in enumerate(prior._linear_equiv_units.keys())`")
        return
    l = lin[0]
    iv, nv = l.target.elts[0].id, l.target.elts[1].id
    cells = [("K", 0, 0), ("K", 0, 1), ("v0", 1, 0), ("v0", 1, 1), ("other", None, 0), ("other", None, 1)]
    n = 0
    for name, ival, fixed in cells:
        stores = _eval_cell(l.body, nv, iv, name, fixed, {})
        n += 1
        label = "cell (name=%s, fixed_K_prior=%d)" % (name, fixed)
        if stores is None:
            ctx.undecided(R, l, label, "the slotting if-tree uses a test outside the abstract domain")
            continue
        lam = [s for s in stores if s[0] == "self.Lambda"]
        mus = [s for s in stores if s[0] == "self.mu"]
        exp = {"K": "0", "v0": "1", "other": "%s + self.n_offsets" % iv}[name]

        def idx_ok(e):
            e2 = _subst_const(e, iv, ival) if ival is not None else e
            w = _subst_const(parse(exp), iv, ival) if ival is not None else parse(exp)
            return equal(e2, w)
        if name == "K" and fixed == 0:
            okc = not lam and len(mus) == 1 and idx_ok(mus[0][1]) and canon(mus[0][2]) == "mu"
            why = "default-K cell stores %s (expected only the mean at slot 0; the variance is set per sample)" % [(s[0], A.unparse(s[1]), A.unparse(s[2])) for s in stores]
        else:
            okc = len(lam) == 1 and len(mus) == 1 and idx_ok(lam[0][1]) and idx_ok(mus[0][1]) and equal(lam[0][2], parse("std ** 2")) and canon(mus[0][2]) == "mu"
            got = [(s[0], A.unparse(s[1]), A.unparse(s[2])) for s in stores]
            why = "%s stores %s, expected (mean, std**2) at slot %s" % (label, got, exp)
            if lam and not idx_ok(lam[0][1]):
                why += ": the variance lands in slot `%s`%s" % (A.unparse(lam[0][1]), " (slot 0 stays 0 and an offset slot is overwritten when n_offsets > 0)" if name == "K" else "")
        ctx.check(R, l, label, okc, why, key="cell:%s:%d" % (name, fixed))
    ctx.floor(R, n, 6)
    # mean/std source for the cell: same name
    ms = [c for c in A.calls_in(l) if A.call_name(c) == "_pytensor_get_mean_std"]
    ctx.check(R, l, "one (mean, std) per linear parameter", len(ms) == 1, "found %d conversions in the loop" % len(ms), key="ms-count", nontrivial=False)
    # the per-sample complement of the default-K cell
    fnm = K.methods["batch_marginal_ln_likelihood"]
    lam0 = [s for s in A.walk_local(fnm) if isinstance(s, ast.Assign) and canon(s.targets[0]) == canon(parse("self.Lambda[0]"))]
    g_ok = bool(lam0) and all([(canon(t), pol) for t, pol in A.guards_of(s)] == [(canon(parse("self.fixed_K_prior == 0")), True)] for s in lam0)
    ctx.check(R, lam0[0] if lam0 else fnm, "the default-K variance is written per sample under the same guard", g_ok, "per-sample Lambda[0] writes: %s" % [A.unparse(s)[:50] for s in lam0], key="lambda0-guard")
    fk = [s for s in A.walk_local(fn) if isinstance(s, ast.Assign) and dotted(s.targets[0]) == "self.fixed_K_prior"]
    okfk = sorted((A.const_value(s.value), [(canon(t), pol) for t, pol in A.guards_of(s)][0][1]) for s in fk) == [(0, True), (1, False)] and \
        all("FixedCompanionMass" in A.unparse(A.guards_of(s)[0][0]) for s in fk)
    ctx.check(R, fk[0] if fk else fn, "fixed_K_prior = 0 exactly for the FixedCompanionMass prior", okfk, "fixed_K_prior assignments changed", key="fixed-flag")
    # M_T rows
    mt = [s for s in A.walk_local(fn) if isinstance(s, ast.Assign) and isinstance(s.targets[0], ast.Subscript) and dotted(s.targets[0].value) == "self.M_T"]
    okm = False
    if len(mt) == 1:
        s = mt[0]
        lps = [a for a in A.ancestors(s) if isinstance(a, ast.For)]
        rng = {a.target.id: canon(a.iter) for a in lps if isinstance(a.target, ast.Name)}
        ti = s.targets[0].slice
        if isinstance(ti, ast.Tuple) and len(ti.elts) == 2:
            i, n_ = canon(ti.elts[0]), canon(ti.elts[1])
            okm = rng.get(i) == canon(parse("range(1, self.n_linear)")) and rng.get(n_) == canon(parse("range(self.n_times)")) and canon(s.value) == canon(parse("trend_M[%s, %s - 1]" % (n_, i)))
    ctx.check(R, mt[0] if mt else fn, "M_T row i = column i-1 of the trend matrix (row 0 is the Kepler column)", okm, "M_T fill: %s" % (A.unparse(mt[0]) if mt else None), key="M_T")
    nl = [s for s in A.walk_local(fn) if isinstance(s, ast.Assign) and dotted(s.targets[0]) == "self.n_linear"]
    ctx.check(R, nl[0] if nl else fn, "n_linear = 1 + poly_trend + n_offsets", len(nl) == 1 and equal(nl[0].value, parse("1 + self.n_poly + self.n_offsets")), "n_linear = %s" % (A.unparse(nl[0].value) if nl else None), key="n_linear")
    # linear name order K, v0, v1...
    gl = ctx.prog.func(PH, "get_linear_equiv_units", R)
    vp = ctx.prog.func(PH, "validate_poly_trend", R)
    oko, why = _name_order(gl, vp)
    ctx.check(R, gl, "linear names in the order K, v0, v1, ...", oko, why, key="name-order")


def _name_order(gl, vp):
    """get_linear_equiv_units returns {'K': .., **{name: .. for i, name in enumerate(V)}} with V the name list of validate_poly_trend,
    and that list is [f'v{i}' for i in range(poly_trend)] (insertion order of the dict = column order of the linear block)"""
    from .C04 import _comp_equal
    fl = A.Flow(gl)
    if len(fl.returns) != 1:
        return False, "get_linear_equiv_units has %d returns" % len(fl.returns)
    d = fl.returns[0][1].value
    if isinstance(d, ast.Name):
        # D = {'K': ..}; for i, name in enumerate(V): D[name] = ..; return D   -- the same insertion order as {'K': .., **{name: .. for ..}}
        ds = A.reaching_binding_stmt(d.id, fl.returns[0][1])
        blk = A.block_of(ds) if ds is not None else None
        if ds is not None and isinstance(ds.value, ast.Dict) and len(ds.value.keys) == 1 and blk:
            p_, f_, lst, i_ = blk
            nxt = lst[i_ + 1] if i_ + 1 < len(lst) else None
            others = [s_ for s_ in A.walk_local(gl) if isinstance(s_, (ast.Assign, ast.AugAssign)) and s_ is not ds and d.id in A.unparse(s_.targets[0] if isinstance(s_, ast.Assign) else s_.target)]
            if isinstance(nxt, ast.For) and len(nxt.body) == 1 and isinstance(nxt.body[0], ast.Assign) and isinstance(nxt.body[0].targets[0], ast.Subscript) \
                    and canon(nxt.body[0].targets[0].value) == d.id and others == [nxt.body[0]] and not nxt.orelse:
                comp = ast.DictComp(key=nxt.body[0].targets[0].slice, value=nxt.body[0].value, generators=[ast.comprehension(target=nxt.target, iter=nxt.iter, ifs=[], is_async=0)])
                d = ast.Dict(keys=list(ds.value.keys) + [None], values=list(ds.value.values) + [comp])
                ast.fix_missing_locations(d)
    if not isinstance(d, ast.Dict):
        d = A.inline_temporaries(d, fl.returns[0][1], gl)
    if not (isinstance(d, ast.Dict) and len(d.keys) == 2 and A.str_const(d.keys[0]) == "K" and d.keys[1] is None):
        return False, "returned mapping is `%s`: K is not the first key followed by the trend names" % A.unparse(d)[:80]
    c = d.values[1]
    if not (isinstance(c, ast.DictComp) and len(c.generators) == 1 and not c.generators[0].ifs):
        return False, "trend names are not added by one comprehension"
    g = c.generators[0]
    it = g.iter
    if not (isinstance(it, ast.Call) and A.call_name(it) == "enumerate" and len(it.args) == 1 and isinstance(g.target, ast.Tuple) and len(g.target.elts) == 2
            and canon(c.key) == canon(g.target.elts[1])):
        return False, "trend names are not taken in enumeration order: `%s`" % A.unparse(c)[:80]
    src = it.args[0]
    # V: second element of validate_poly_trend(...)
    okv = False
    if isinstance(src, ast.Name):
        ds = A.reaching_binding_stmt(src.id, fl.returns[0][1])
        if isinstance(ds, ast.Assign) and isinstance(ds.targets[0], ast.Tuple) and isinstance(ds.value, ast.Call) and A.call_name(ds.value) == "validate_poly_trend":
            pos = [i for i, e in enumerate(ds.targets[0].elts) if isinstance(e, ast.Name) and e.id == src.id]
            okv = pos == [1]
    elif isinstance(src, ast.Subscript) and isinstance(src.value, ast.Call) and A.call_name(src.value) == "validate_poly_trend" and A.const_value(src.slice) == 1:
        okv = True
    if not okv:
        return False, "enumerated names `%s` are not validate_poly_trend(...)[1]" % A.unparse(src)
    fv = A.Flow(vp)
    for v, st in fv.returns:
        r = A.inline_temporaries(st.value, st, vp)
        if not (isinstance(r, ast.Tuple) and len(r.elts) == 2 and _comp_equal(r.elts[1], parse("[f'v{i}' for i in range(poly_trend)]"))):
            return False, "validate_poly_trend returns `%s`: names are not v0, v1, ... in order" % A.unparse(r)[:80]
    return bool(fv.returns), "validate_poly_trend has no return"


def _subst_const(e, name, val):
    class T(ast.NodeTransformer):
        def visit_Name(self, n):
            if n.id == name:
                return ast.Constant(value=val)
            return n
    return T().visit(A.clone(e))


def _eval_cell(stmts, nv, iv, name, fixed, env):
    """evaluate the slotting statements for one abstract cell; returns [(array, index expr, value expr)] or None if a test is undecidable"""
    out = []
    env = dict(env)
    for s in stmts:
        if isinstance(s, ast.If):
            v = _test(s.test, nv, name, fixed)
            if v is None:
                return None
            r = _eval_cell(s.body if v else s.orelse, nv, iv, name, fixed, env)
            if r is None:
                return None
            out += r
        elif isinstance(s, ast.Assign):
            t = s.targets[0]
            if isinstance(t, ast.Name):
                env[t.id] = A._Subst(dict(env), False).visit(A.clone(s.value))
            elif isinstance(t, ast.Subscript) and dotted(t.value) in ("self.mu", "self.Lambda"):
                idx = A._Subst(dict(env), False).visit(A.clone(t.slice))
                out.append((dotted(t.value), idx, s.value))
    return out


def _test(t, nv, name, fixed):
    if isinstance(t, ast.BoolOp):
        vals = [_test(v, nv, name, fixed) for v in t.values]
        if any(v is None for v in vals):
            return None
        return all(vals) if isinstance(t.op, ast.And) else any(vals)
    if isinstance(t, ast.UnaryOp) and isinstance(t.op, ast.Not):
        v = _test(t.operand, nv, name, fixed)
        return None if v is None else not v
    if isinstance(t, ast.Compare) and len(t.ops) == 1:
        l, r = t.left, t.comparators[0]
        if isinstance(l, ast.Name) and l.id == nv and A.str_const(r) is not None:
            eq = (name == A.str_const(r)) if name != "other" else False
            if name == "other" and A.str_const(r) not in ("K", "v0"):
                return None
            return eq if isinstance(t.ops[0], ast.Eq) else (not eq) if isinstance(t.ops[0], ast.NotEq) else None
        if dotted(l) == "self.fixed_K_prior" and isinstance(A.const_value(r), int):
            c = A.const_value(r)
            return {ast.Eq: fixed == c, ast.NotEq: fixed != c}.get(type(t.ops[0]))
        if isinstance(l, ast.Name) and l.id == nv and isinstance(t.ops[0], ast.In) and isinstance(r, (ast.Tuple, ast.List, ast.Set)):
            vals = [A.str_const(e) for e in r.elts]
            return name in vals
    return None


def check_kvar(ctx, K):
    R = "C01-KVAR"
    ctx.rule(R, "K-variance rule on the marginal path: Lambda[0] = sigma_K0^2 (P/P0)^(-2/3) / (1 - e^2) = (sigma of FixedCompanionMass.dist)^2, followed by "
                "Lambda[0] = min(max_K^2, Lambda[0]) mirroring clip(sigma, 0, max_K); P and e are the packed columns of this sample.")
    fn = K.methods["batch_marginal_ln_likelihood"]
    lam = [s for s in A.walk_local(fn) if isinstance(s, ast.Assign) and canon(s.targets[0]) == canon(parse("self.Lambda[0]"))]
    rule = [s for s in lam if not (isinstance(s.value, ast.Call) and A.call_name(s.value) in ("min", "fmin", "np.minimum"))]
    cap = [s for s in lam if s not in rule]
    ok = len(rule) == 1 and equal(rule[0].value, parse("self.sigma_K0**2 * (P / self.P0)**(-2/3.) / (1 - e**2)"))
    ctx.check(R, rule[0] if rule else fn, "Var(K) = sigma_K0^2 (P/P0)^(-2/3) / (1 - e^2)", ok, "Lambda[0] = %s" % (A.unparse(rule[0].value) if rule else None), key="rule")
    okc = len(cap) == 1 and bool(rule) and cap[0].lineno > rule[0].lineno and sorted(canon(a) for a in cap[0].value.args) == sorted([canon(parse("self.max_K**2")), canon(parse("self.Lambda[0]"))])
    why = "cap statements: %s" % [A.unparse(s.value) for s in cap]
    if cap and not okc and any(canon(a) == canon(parse("self.max_K")) for a in cap[0].value.args):
        why += " (max_K is not squared: a standard deviation caps a variance)"
    ctx.check(R, cap[0] if cap else fn, "Var(K) capped at max_K^2", okc, why, key="cap")
    flow = A.Flow(fn)
    for nm, col in (("P", 0), ("e", 1)):
        v = flow.resolve(ast.Name(id=nm, ctx=ast.Load()), at=rule[0]) if rule else None
        okv = isinstance(v, ast.Subscript) and canon(v.value) == "chunk" and isinstance(v.slice, ast.Tuple) and A.const_value(v.slice.elts[1]) == col
        ctx.check(R, rule[0] if rule else fn, "%s in the rule is packed column %d of this sample" % (nm, col), okv, "%s = %s" % (nm, A.unparse(v) if v is not None else None), key="col:" + nm, nontrivial=False)


def check_args(ctx, K):
    R = "C01-ARGS"
    ctx.rule(R, "packed columns <-> Kepler arguments: at each c_rv_from_elements call the argument at the extern prototype position of P, e, omega, phi0 is the local bound to "
                "chunk[n, k] with k the index of P, e, omega, M0 in the packed order; K = 1.; t0 = the field initialised from data._t_ref_bmjd; times = the field initialised "
                "from data._t_bmjd; output = row 0 of the design matrix; N_t = n_times; tolerance / iteration arguments are the module constants.")
    proto = K.mod.pyx.externs.get("c_rv_from_elements")
    if not proto:
        ctx.undecided(R, K.mod.tree, "extern prototype", "c_rv_from_elements prototype not found")
        return
    order = packed_order(ctx.prog)
    want_pos = {"t": "~self.t[0]", "rv": "~self.M_T[0, 0]", "N_t": "self.n_times", "K": "1.0", "t0": "self.t0", "tol": "anomaly_tol", "maxiter": "anomaly_maxiter"}
    elem = {"P": "P", "e": "e", "omega": "omega", "phi0": "M0"}   # twobody's C source names the mean-anomaly-at-reference slot phi0
    ctx.check(R, K.mod.tree, "prototype has the expected slots", all(k in proto for k in list(want_pos) + list(elem)), "prototype parameters: %s" % proto, key="proto", nontrivial=False)
    n = 0
    for entry in PROLOGUES:
        fn = K.methods[entry]
        calls = [c for c in A.calls_in(fn) if A.call_name(c) == "c_rv_from_elements"]
        if len(calls) != 1:
            ctx.violate(R, fn, "%s evaluates the Kepler column once per sample" % entry, "found %d calls" % len(calls), key=entry + ":call")
            continue
        c = calls[0]
        n += 1
        flow = A.Flow(fn)
        if len(c.args) != len(proto):
            ctx.violate(R, c, "%s: argument count" % entry, "%d arguments for %d prototype slots" % (len(c.args), len(proto)), key=entry + ":argc")
            continue
        for slot, src in want_pos.items():
            a = c.args[proto.index(slot)]
            ok = canon(a) == canon(parse(src))
            ctx.check(R, c, "%s: slot %s = %s" % (entry, slot, src.replace("~", "&")), ok, "slot %s receives `%s`" % (slot, A.unparse(a).replace("~", "&")), key="%s:%s" % (entry, slot))
        for slot, pname in elem.items():
            a = c.args[proto.index(slot)]
            v = flow.resolve(a, at=A.enclosing_stmt(c))
            k = order.index(pname)
            ok = isinstance(v, ast.Subscript) and canon(v.value) in ("chunk", "chunk_row") and (A.const_value(v.slice.elts[-1]) if isinstance(v.slice, ast.Tuple) else A.const_value(v.slice)) == k
            if ok and isinstance(v.slice, ast.Tuple):
                ok = canon(v.slice.elts[0]) == "n"
            ctx.check(R, c, "%s: slot %s = packed column %d (%s)" % (entry, slot, k, pname), ok, "slot %s receives `%s`" % (slot, A.unparse(v)), key="%s:%s" % (entry, slot))
    ctx.floor(R, n, 3)
    init = K.methods["__init__"]
    st = {dotted(s.targets[0]): canon(A.strip_casts(s.value)) for s in A.walk_local(init) if isinstance(s, ast.Assign) and dotted(s.targets[0]) in ("self.t0", "self.t", "self.n_times")}
    ok = st.get("self.t0") == canon(parse("data._t_ref_bmjd")) and st.get("self.t") == canon(parse("data._t_bmjd")) and st.get("self.n_times") == canon(parse("len(data)"))
    ctx.check(R, init, "t0 / t / n_times come from the data object's reference epoch, times and length", ok, "t0 = %s, t = %s, n_times = %s" % (st.get("self.t0"), st.get("self.t"), st.get("self.n_times")), key="t0")
    tol = {canon(s.targets[0]): A.const_value(s.value) for s in K.mod.tree.body if isinstance(s, ast.Assign) and canon(s.targets[0]) in ("anomaly_tol", "anomaly_maxiter")}
    ctx.check(R, K.mod.tree, "Kepler tolerance 1e-10, at most 128 iterations", tol == {"anomaly_tol": 1e-10, "anomaly_maxiter": 128}, "constants: %s" % tol, key="tol", nontrivial=False)


TENSOR_SPEC = [
    # (id, method, field, idx, op, rhs source with W for the folded weights, {var: range})
    ("Ainv-zero", "make_AAinv", "Ainv", ("i", "j"), "=", "0.", {"i": NL, "j": NL}),
    ("Ainv-diag", "make_AAinv", "Ainv", ("i", "i"), "=", "1 / self.Lambda[i]", {"i": NL}),
    ("Ainv-acc", "make_AAinv", "Ainv", ("i", "j"), "+=", "self.M_T[j, n] * self.W[n] * self.M_T[i, n]", {"i": NL, "j": NL, "n": NT}),
    ("Atmp-copy", "make_AAinv", "Atmp", ("i", "j"), "=", "self.Ainv[i, j]", {"i": NL, "j": NL}),
    ("A-copy", "make_AAinv", "A", ("i", "j"), "=", "self.Atmp[i, j]", {"i": NL, "j": NL}),
    ("b-zero", "make_bBBinv", "b", ("n",), "=", "0.", {"n": NT}),
    ("b-acc", "make_bBBinv", "b", ("n",), "+=", "self.M_T[i, n] * self.mu[i]", {"n": NT, "i": NL}),
    ("B-zero", "make_bBBinv", "B", ("n", "m"), "=", "0.", {"n": NT, "m": NT}),
    ("B-diag", "make_bBBinv", "B", ("n", "n"), "=", "1 / self.W[n]", {"n": NT}),
    ("B-acc", "make_bBBinv", "B", ("n", "m"), "+=", "self.M_T[i, n] * self.Lambda[i] * self.M_T[i, m]", {"n": NT, "m": NT, "i": NL}),
    ("Btmp-copy", "make_bBBinv", "Btmp", ("n", "m"), "=", "self.B[n, m]", {"n": NT, "m": NT}),
    ("Binv-zero", "make_bBBinv", "Binv", ("n", "m"), "=", "0.", {"n": NT, "m": NT}),
    ("Binv-diag", "make_bBBinv", "Binv", ("n", "n"), "=", "self.W[n]", {"n": NT}),
    ("Binv-woodbury", "make_bBBinv", "Binv", ("n", "m"), "-=", "self.W[n] * self.M_T[i, n] * self.A[i, j] * self.M_T[j, m] * self.W[m]", {"n": NT, "m": NT, "i": NL, "j": NL}),
    ("logdet-zero", "make_bBBinv", "$log_det_val", (), "=", "0.", {}),
    ("logdet-acc", "make_bBBinv", "$log_det_val", (), "+=", "log(2 * pi * fabs(self.Btmp[i, i]))", {"i": NT}),
    ("chi2-zero", "likelihood_worker", "$chi2", (), "=", "0.", {}),
    ("chi2-acc", "likelihood_worker", "$chi2", (), "+=", "(self.b[m] - self.rv[m]) * self.Binv[n, m] * (self.b[n] - self.rv[n])", {"n": NT, "m": NT}),
]


def check_tensor(ctx, K, W, R="C01-TENSOR", spec=None, method_root="likelihood_worker"):
    ctx.rule(R, "loop-nest lifting: each field update of the marginalisation chain, as an index-notation term modulo loop-variable renaming and exact rational normal form, "
                "equals the form the closed Gaussian marginal prescribes - Ainv = diag(1/Lambda) + M^T W M; A = inv(Ainv) by LU (dgetrf + dgetri on a copy); b = M mu; "
                "B = diag(1/W) + M Lambda M^T; Binv = diag(W) - W M A M^T W (Woodbury); logdet = sum log(2 pi |LU(B)_ii|); chi2 = (b-y)^T Binv (b-y); result = -(chi2 + logdet)/2; "
                "a failing LAPACK call returns the +inf sentinel.")
    ups = _kernel.updates(K, method_root)
    spec = spec or TENSOR_SPEC
    for sid, method, field, idx, op, rhs, ranges in spec:
        src = rhs.replace("self.W[", "self.%s[" % W)
        cands = [u for u in ups if u.method == method and u.field == field and u.op == op and len(u.idx) == len(idx)]
        hit = None
        for u in cands:
            ok, _ = _kernel.match_update(u, field, idx, op, src, ranges)
            if ok:
                hit = u
                break
        if hit is not None:
            ctx.ok(R, hit.node, "%s: %s[%s] %s %s" % (sid, field.lstrip("$"), ", ".join(idx), op, rhs), "matched `%s`" % A.unparse(hit.node)[:80])
        else:
            # nearest candidate for the report
            near = [u for u in ups if u.method == method and u.field == field]
            near_same = [u for u in near if len(u.idx) == len(idx) and (u.op == op or (op in ("+=", "-=") and u.op in ("+=", "-=")))]
            rep = (near_same or near or [None])[-1] if not near_same else near_same[0]
            for u in near_same:
                if {r for _, r, _ in u.loops} == set(ranges.values()) or len(u.loops) == len(ranges):
                    rep = u
            ctx.violate(R, rep.node if rep is not None else K.methods[method], "%s: %s[%s] %s %s" % (sid, field.lstrip("$"), ", ".join(idx), op, rhs),
                        "no update of this form in %s; closest is `%s`" % (method, A.unparse(rep.node)[:110] if rep is not None else "none"), key="tensor:" + sid)
    ctx.floor(R, len(spec), len(spec))
    if method_root != "likelihood_worker":
        return
    # LAPACK steps and the result
    lw = K.methods["likelihood_worker"]
    calls = {(u.method, u.field): u for u in ups if u.op == "call"}
    def lap(method, name, arr, pos):
        u = calls.get((method, "$call:lapack." + name))
        ok = u is not None and len(u.rhs.args) > pos and canon(u.rhs.args[pos]) == canon(parse("~self.%s[0, 0]" % arr))
        ctx.check(R, u.node if u else K.methods[method], "%s: %s factorises/inverts %s in place" % (method, name, arr), ok, "lapack.%s call: %s" % (name, A.unparse(u.rhs)[:80] if u else "missing"), key="lapack:%s:%s" % (method, name))
        return u
    u1 = lap("make_AAinv", "dgetrf", "Atmp", 2)
    u2 = lap("make_AAinv", "dgetri", "Atmp", 1)
    u3 = lap("make_bBBinv", "dgetrf", "Btmp", 2)
    if u1 and u2:
        ctx.check(R, u2.node, "LU factorisation precedes the inversion", u1.node.lineno < u2.node.lineno, "dgetri before dgetrf", key="lapack:order", nontrivial=False)
    # failure sentinels
    for method, want in (("make_AAinv", "-1"), ("make_bBBinv", "INF")):
        fn = K.methods[method]
        fails = [s for s in A.walk_local(fn) if isinstance(s, ast.If) and canon(s.test) == canon(parse("info != 0"))]
        okf = len(fails) >= 1 and all(len(s.body) == 1 and isinstance(s.body[0], ast.Return) and canon(s.body[0].value) == canon(parse(want)) for s in fails)
        ctx.check(R, fn, "%s: a failing LAPACK call returns the failure sentinel" % method, okf, "info checks: %s" % [A.unparse(s)[:40] for s in fails], key="sentinel:" + method)
    fl = [s for s in A.walk_local(lw) if isinstance(s, ast.If) and canon(s.test) == canon(parse("info < 0")) and isinstance(s.body[0], ast.Return) and canon(s.body[0].value) == "INF"]
    ctx.check(R, lw, "likelihood_worker propagates a failed inversion as the sentinel", len(fl) == 1, "no `if info < 0: return INF`", key="sentinel:worker")
    rets = [u for u in ups if u.op == "return" and u.method == "likelihood_worker" and not u.guards]
    okr = len(rets) >= 1 and equal(rets[-1].rhs, parse("-0.5 * (chi2 + log_det_val)"))
    ctx.check(R, rets[-1].node if rets else lw, "result = -(chi2 + logdet) / 2", okr, "returns `%s`" % (A.unparse(rets[-1].rhs) if rets else None), key="result")
    ld = [u for u in ups if u.method == "likelihood_worker" and u.field == "$log_det_val"]
    okl = len(ld) == 1 and canon(ld[0].rhs) == canon(parse("self.make_bBBinv()"))
    info = [u for u in ups if u.method == "likelihood_worker" and u.field == "$info" and isinstance(u.rhs, ast.Call)]
    oki = len(info) == 1 and canon(info[0].rhs) == canon(parse("self.make_AAinv()")) and bool(ld) and info[0].node.lineno < ld[0].node.lineno
    ctx.check(R, lw, "A is computed before the Woodbury inverse that uses it", okl and oki, "call order of make_AAinv / make_bBBinv changed", key="order")
    rb = [s for s in A.walk_local(K.methods["make_bBBinv"]) if isinstance(s, ast.Return) and not A.guards_of(s)]
    ctx.check(R, K.methods["make_bBBinv"], "make_bBBinv returns the log-determinant", len(rb) == 1 and canon(rb[0].value) == "log_det_val", "returns %s" % [A.unparse(s.value) for s in rb], key="logdet-ret", nontrivial=False)


def check_entry(ctx, K):
    R = "C01-ENTRY"
    ctx.rule(R, "batch_marginal_ln_likelihood stores likelihood_worker(0) of sample n at position n of the output, one entry per input row, and returns that array; "
                "the Python wrappers hand the packed batch over unchanged and return np.array(ll).")
    fn = K.methods["batch_marginal_ln_likelihood"]
    st = [s for s in A.walk_local(fn) if isinstance(s, ast.Assign) and isinstance(s.targets[0], ast.Subscript) and canon(s.targets[0].value) == "ll"]
    ok = len(st) == 1 and canon(st[0].targets[0].slice) == "n" and isinstance(st[0].value, ast.Call) and A.call_name(st[0].value) == "self.likelihood_worker"
    lp = A.enclosing(st[0], (ast.For,)) if st else None
    ok = ok and lp is not None and canon(lp.iter) == canon(parse("range(n_samples)")) and lp.target.id == "n"
    ctx.check(R, st[0] if st else fn, "ll[n] = likelihood_worker(...) for every row n", ok, "store: %s" % (A.unparse(st[0]) if st else None), key="ll")
    ns = [s for s in A.walk_local(fn) if isinstance(s, ast.Assign) and canon(s.targets[0]) == "n_samples"]
    ctx.check(R, fn, "n_samples = number of input rows", len(ns) == 1 and canon(ns[0].value) == canon(parse("chunk.shape[0]")), "n_samples = %s" % (A.unparse(ns[0].value) if ns else None), key="n_samples", nontrivial=False)
    rets = [s for s in A.walk_local(fn) if isinstance(s, ast.Return)]
    ctx.check(R, fn, "returns the filled array", len(rets) == 1 and canon(rets[0].value) == "ll", "returns %s" % [A.unparse(s.value) for s in rets], key="ret", nontrivial=False)
    w = ctx.prog.func(LHM, "marginal_ln_likelihood_inmem", R)
    rr = [s for s in A.walk_local(w) if isinstance(s, ast.Return)]
    fl = A.Flow(w)
    okw = len(rr) == 1 and isinstance(fl.returns[0][0], ast.Call) and canon(A.strip_casts(fl.returns[0][0])).startswith("joker_helper.batch_marginal_ln_likelihood(")
    ctx.check(R, w, "in-memory wrapper returns the kernel's values unchanged", okw, "returns `%s`" % (A.unparse(fl.returns[0][0])[:80] if fl.returns else None), key="wrapper")


def run(ctx):
    K = _kernel.Kernel(ctx.prog)
    W = check_jit(ctx, K)
    check_slot(ctx, K)
    check_kvar(ctx, K)
    check_args(ctx, K)
    check_entry(ctx, K)
    if W is None:
        W = "s_ivar"
    check_tensor(ctx, K, W)
    # unit tags of kernel scalars (shared with C07)
    from .C07 import check_kernel_units, _Relabel
    ctx.rule("C01-UNIT", "unit tags of the kernel scalars and prior means/stds (shared implementation with C07-KERNEL).")
    check_kernel_units(_Relabel(ctx, {"C07-KERNEL": "C01-UNIT"}))
    # design matrix columns (shared with C08-COL)
    from .C08 import check_col
    ctx.rule("C01-DESIGN", "trend / offset design matrix and offset-prior order (shared implementation with C08-COL).")
    check_col(_Relabel(ctx, {"C08-COL": "C01-DESIGN"}))
    from .C07 import check_meanstd
    check_meanstd(_Relabel(ctx, {"C07-MEANSTD": "C01-UNIT"}))
    from .C15 import check_ivar
    ctx.rule("C01-IVAR", "the inverse variances handed to the kernel are 1/err^2 (or the full inverse covariance) of the stored errors (shared with C15-IVAR).")
    check_ivar(_Relabel(ctx, {"C15-IVAR": "C01-IVAR"}))
    from .C05 import check_fresh
    ctx.rule("C01-STATE", "nothing on the sampler path keeps or changes state between calls (no memoisation, no module-level mutation - e.g. of the internal unit table the "
                          "helper reads -, no caching on caller-owned objects): the value for a sample cannot depend on what was evaluated before (shared with C05-FRESH).")
    check_fresh(_Relabel(ctx, {"C05-FRESH": "C01-STATE"}))
    from .C04 import check_tref as c04_tref
    from .C15 import check_tref as c15_tref
    ctx.rule("C01-EPOCH", "the Kepler column and the trend powers are taken about data._t_ref_bmjd, the TCB MJD of the data's reference epoch (shared with C04-TREF / C15-TREF).")
    c04_tref(_Relabel(ctx, {"C04-TREF": "C01-EPOCH"}), K)
    c15_tref(_Relabel(ctx, {"C15-TREF": "C01-EPOCH"}))
    # samples reach the kernel packed as (P, e, omega, M0, s) in internal units (shared with C05-FEED / C12-COL)
    from .C09 import check_fcm
    ctx.rule("C01-KPRIOR", "the scale and the cap the kernel reads from the K prior (`sigma_K0`, `max_K`, stored on the distribution) are what FixedCompanionMass.dist was given, "
                           "with max_K defaulting to a velocity (500 km/s), not to a bare number in the unit of another argument (shared with C09-FCM).")
    check_fcm(_Relabel(ctx, {"C09-FCM": "C01-KPRIOR"}))
    from .C08 import check_lock as c08_lock
    ctx.rule("C01-MERGE", "multi-survey input reaches the kernel as ONE time-ordered data set whose per-row survey labels are built in the same pass and order as the rows "
                          "(the caller's iteration order, never re-sorted keys): the offset indicator columns then mark the rows of their own survey (shared with C08-LOCK).")
    c08_lock(_Relabel(ctx, {"C08-LOCK": "C01-MERGE"}))
    from .C15 import check_lock as c15_lock
    ctx.rule("C01-DATA", "the data object the kernel reads keeps every observation paired: ONE selection (finite filter, then a stable time sort of the filtered rows) is applied "
                         "alike to times, velocities and errors (shared with C15-LOCK).")
    c15_lock(_Relabel(ctx, {"C15-LOCK": "C01-DATA"}))
    from .C05 import check_feed
    from .C12 import _reader_checks
    ctx.rule("C01-FEED", "prior samples reach the kernel packed in the helper's order and internal units on every path (shared with C05-FEED); the file readers convert from the "
                         "units found in this file's header on this call (shared with C12-COL).")
    check_feed(_Relabel(ctx, {"C05-FEED": "C01-FEED"}))
    _reader_checks(ctx, "C01-FEED", "read_batch_slice", "slice")
    _reader_checks(ctx, "C01-FEED", "read_batch_idx", "idx")
    ctx.assume("LAPACK dgetrf/dgetri/dsysv and twobody's c_rv_from_elements compute what they document; round-off, finiteness and Kepler-solver convergence are not decided")
    ctx.assume("the compiled extension is rebuilt from this .pyx (Cython is not installed in this sandbox: the checks read the source of truth)")
