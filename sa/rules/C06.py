"""C06 - reported ln_prior / ln_likelihood stay attached to their own sample.

Index-space typing of the four rejection functions.  With G the (truncated)
accepted index in evaluated order and R the row selector that built the
returned samples (R = G, or R = M[G] for the evaluation-order map M):
  ln_likelihood column  = L[G]   (L the array the acceptance step used)
  ln_prior column       = P[R] / read_coordinates(R, field="ln_prior")
and the *same version* of G (after the same truncation) must appear in all three.
"""
import ast

from .. import astutil as A
from ..norm import canon, parse, dotted
from . import _rej
from .C02 import rows_arg

TJ = "thejoker.thejoker"


def check_site(ctx, S):
    R = "C06-SPACE"
    q = S.name
    ra = rows_arg(S)
    if ra is None or ra[1] is None or S.acc is None or S.acc.get("form") is None:
        ctx.undecided(R, S.fn, "%s: sample construction" % q, "acceptance site or make_full_samples call not recognised")
        return
    call, rows, kind = ra
    if kind == "inmem":
        if not (isinstance(rows, ast.Subscript) and canon(rows.value) == "prior_samples_batch"):
            ctx.undecided(R, call, "%s: rows" % q, "rows are not prior_samples_batch[...]")
            return
        Rsel = rows.slice
    else:
        Rsel = rows
    kindL, L, red, _ = _rej.normaliser(S.acc["arg"])
    # positions in L must be evaluation positions: L is the unfiltered result of the likelihood evaluation (or its accumulation)
    if L is not None:
        whyL = None
        if S.iterative:
            okL, whyL = _rej.accum_unfiltered(L)
        else:
            okL = isinstance(L, ast.Call) and (A.call_name(L) or "").split(".")[-1].startswith("marginal_ln_likelihood")
        ctx.check(R, S.acc_stmt, "%s: accepted positions are evaluation positions (likelihood array not filtered / compacted)" % q, okL,
                  whyL or "the accepted positions index `%s`, a filtered or re-indexed copy of the evaluated likelihoods: they no longer address the rows / ln_prior values of the library" % A.unparse(L)[:70], key=q + ":space-L")
    shapes = _rej.idx_shape(Rsel)
    # G versions used to build the samples (per IfExp leaf)
    def g_of(shape):
        if shape[0] == "G":
            return canon(_wrap(shape[1]))
        if shape[0] == "M[G]":
            return canon(_wrap(shape[2]))
        return None

    def _wrap(slices):
        # canonical description of the slice stack applied to where(...)[0]
        return ast.Tuple(elts=[ast.Constant(value=A.unparse(s)) for s in slices], ctx=ast.Load())

    if any(sh[0] == "other" for sh in shapes):
        ctx.undecided(R, call, "%s: row selector shape" % q, "row selector `%s` is not G or M[G]" % A.unparse(Rsel)[:70])
        return
    gvers = {g_of(sh) for sh in shapes}
    identity = all(sh[0] == "G" or _is_identity_map(sh[1]) for sh in shapes)
    n_linear_note = "each nonlinear row is repeated n_linear_samples times by the kernel in the same order"
    # ---- ln_likelihood
    for st in S.cols.get("ln_likelihood", []):
        v = S.flow.resolve(st.value, at=st)
        label = "%s: ln_likelihood column" % q
        if not (isinstance(v, ast.Subscript) and not isinstance(v.slice, ast.Slice)):
            ctx.violate(R, st, label, "stored value `%s` is not L[G]" % A.unparse(v)[:70], key=q + ":ll-shape")
            continue
        arr_ok = L is not None and canon(v.value) == canon(L)
        ctx.check(R, st, label + " reads the array the acceptance step used", arr_ok,
                  "values come from `%s`, but the accepted positions index `%s`" % (A.unparse(v.value)[:50], A.unparse(L)[:50] if L is not None else None), key=q + ":ll-arr")
        ish = _rej.idx_shape(v.slice)
        ok = all(sh[0] == "G" for sh in ish) and {g_of(sh) for sh in ish} == gvers
        if not ok and all(sh[0] == "M[G]" for sh in ish):
            why = "ln_likelihood is indexed with library-row numbers `%s`, but the likelihood array is in evaluation order" % A.unparse(v.slice)[:60]
            ok = identity and {g_of(sh) for sh in ish} == gvers
        else:
            why = "ln_likelihood index `%s` is not the accepted index (after the same truncation) that built the samples" % A.unparse(v.slice)[:70]
        ctx.check(R, st, label + " indexed by the accepted positions that built the rows", ok, why, key=q + ":ll-idx")
    # ---- ln_prior
    for st in S.cols.get("ln_prior", []):
        v = S.flow.resolve(st.value, at=st)
        label = "%s: ln_prior column" % q
        idx = None
        if isinstance(v, ast.Call) and A.last_attr(v) == "read_coordinates":
            idx = v.args[0] if v.args else A.get_arg(v, None, "coords")
            fld = A.get_arg(v, 1, "field")
            ctx.check("C06-FIELD", st, "%s: ln_prior read selects field='ln_prior'" % q, fld is not None and A.str_const(fld) == "ln_prior",
                      "read_coordinates(%s) returns %s, not the float ln_prior column" % (A.unparse(fld) if fld is not None else "no field", "another column" if fld is not None else "whole records"),
                      key=q + ":field")
        elif isinstance(v, ast.Subscript) and not isinstance(v.slice, ast.Slice):
            idx = v.slice
            ctx.check(R, st, label + " reads the ln_prior argument", canon(v.value) == "ln_prior", "values come from `%s`" % A.unparse(v.value)[:50], key=q + ":lp-arr")
        if idx is None:
            ctx.violate(R, st, label, "stored value `%s` is neither P[R] nor read_coordinates(R, ...)" % A.unparse(v)[:70], key=q + ":lp-shape")
            continue
        same = canon(idx) == canon(Rsel)
        if not same and identity:
            ish = _rej.idx_shape(idx)
            same = all(sh[0] in ("G", "M[G]") for sh in ish) and {g_of(sh) for sh in ish} == gvers
        ctx.check(R, st, label + " indexed by the library rows that built the samples", same,
                  "ln_prior rows `%s` differ from the rows `%s` the samples were built from" % (A.unparse(idx)[:60], A.unparse(Rsel)[:60]), key=q + ":lp-idx")
    # presence (file variants gate on return_logprobs; inmem on ln_prior)
    ctx.check(R, S.fn, "%s stores both columns" % q, bool(S.cols.get("ln_prior")) and bool(S.cols.get("ln_likelihood")),
              "a log-prob column is never stored", key=q + ":both")
    # stores happen after the samples object was built from the same call
    for k, sts in S.cols.items():
        for st in sts:
            ctx.check(R, st, "%s: %s stored into the object built from those rows" % (q, k), canon(st.targets[0].value) == canon(A.enclosing_stmt(call).targets[0]) if isinstance(A.enclosing_stmt(call), ast.Assign) else False,
                      "column stored into `%s`" % A.unparse(st.targets[0].value), key="%s:%s-obj" % (q, k), nontrivial=False)
    # ---- return_all_logprobs
    if not S.iterative:
        R2 = "C06-ALL"
        ok_any = False
        for v0, s in S.flow.returns:
            pc = set(A.term_strings(A.path_condition(s, S.fn, inline=False)))
            for terms, v in A.top_ifexp_terms(v0):
                conds = pc | set(A.term_strings(terms))
                under = "+return_all_logprobs" in conds
                if not (isinstance(v, ast.Tuple) and len(v.elts) == 2):
                    if under:
                        ctx.violate(R2, s, "%s: with return_all_logprobs the likelihoods are returned too" % q, "returns `%s` although return_all_logprobs is set" % A.unparse(v)[:50], key=q + ":all")
                        ok_any = True
                    continue
                whole = L is not None and canon(v.elts[1]) == canon(L)
                ctx.check(R2, s, "%s: second return value is the whole evaluated likelihood array" % q, whole and under,
                          "returns `%s` (under %s), not every evaluated ln-likelihood in evaluation order" % (A.unparse(v.elts[1])[:50], sorted(conds)), key=q + ":all")
                ok_any = True
        if not ok_any:
            ctx.violate(R2, S.fn, "%s honours return_all_logprobs" % q, "no `return samples, <all ln-likelihoods>` branch", key=q + ":all-missing")
        # the evaluated array is handed out (and indexed for the ln_likelihood column) as computed: nothing writes into it in between
        ws = A.storage_writes(S.fn, lambda e: isinstance(e, ast.Call) and (A.call_name(e) or "").split(".")[-1].startswith("marginal_ln_likelihood"))
        ctx.check(R2, ws[0][0] if ws else S.fn, "%s: the evaluated likelihood array is not overwritten" % q, not ws,
                  (ws[0][1] if ws else "").replace("the input", "the evaluated likelihood array") + ": what is returned under return_all_logprobs / stored as ln_likelihood is no longer the ln-likelihood", key=q + ":all-inplace")
    ctx.notes.append({q: {"rows": A.unparse(Rsel)[:120], "identity_map": identity, "note": n_linear_note}})


def check_mapcond(ctx, S):
    """file rejection sampler: rows are addressed through the row map M exactly when the likelihoods were evaluated on M"""
    R = "C06-SPACE"
    q = S.name
    ra = rows_arg(S)
    evs = [c for c in A.calls_in(S.fn) if (A.last_attr(c) or "") == "marginal_ln_likelihood_helper"]
    if ra is None or ra[1] is None or len(evs) != 1:
        ctx.undecided(R, S.fn, "%s: evaluation order and row map" % q, "likelihood evaluation or make_full_samples call not recognised")
        return
    ek = A.effective_kwargs(evs[0], S.fn, S.flow)
    if ek is None:
        ctx.undecided(R, evs[0], "%s: keywords of the likelihood evaluation" % q, "** arguments cannot be read")
        return
    alts = []
    for terms, val, at in ek.get("samples_idx", []):
        v = S.flow.resolve(val, at=at)
        for t2, leaf in A.ifexp_terms(v):
            if isinstance(leaf, ast.Constant) and leaf.value is None:
                continue
            alts.append((A.conj(list(terms) + list(t2)), canon(leaf)))
    call, rows, kind = ra
    for terms, leaf in A.ifexp_terms(rows):
        sh = _rej.idx_shape(leaf)
        if len(sh) != 1 or sh[0][0] == "other":
            continue   # reported by the shape clause
        sh = sh[0]
        # only the part of the path condition that talks about what the alternatives talk about (unrelated guards - a deferred raise, option defaults - add atoms
        # but no information, and push the truth table over its size limit)
        rel = set()
        for t_, _ in alts:
            rel |= A._atoms(t_, set())
        for t_ in terms:
            rel |= A._atoms(t_, set())
        pcs = [t_ for t_ in A.path_condition(A.enclosing_stmt(call), S.fn) if A._atoms(t_, set()) & rel and A._atoms(t_, set()) <= rel]
        c = A.conj(list(terms) + pcs)
        if sh[0] == "M[G]":
            m = canon(sh[1])
            same = [t for t, mm in alts if mm == m]
            cover = ("or", frozenset(same)) if len(same) != 1 else same[0]
            ok = bool(same) and A.nnf_implies(c, cover)
            why = "rows are looked up through `%s` under %s, but the likelihoods were evaluated in that order only under %s: in the remaining cases position i of the " \
                  "likelihood array is row i, not row M[i]" % (A.unparse(sh[1])[:40], A.term_strings([c]), [A.term_strings([t]) for t in same])
            ctx.check(R, call, "%s: rows go through the row map only when the evaluation used it" % q, ok, why, key=q + ":map-if-eval")
        else:
            ok = all(A.nnf_implies(c, A.nnf_not(t)) for t, _ in alts)
            bad = [A.term_strings([t]) for t, _ in alts if not A.nnf_implies(c, A.nnf_not(t))]
            ctx.check(R, call, "%s: accepted positions are used as row numbers only when the evaluation ran on the first rows" % q, ok,
                      "under %s the accepted positions are used as library rows although the likelihoods may have been evaluated on a row map (under %s): "
                      "the returned rows are not the accepted ones" % (A.term_strings([c]), bad), key=q + ":eval-if-map")


def _is_identity_map(M):
    """np.arange(0, n, 1) / np.arange(n)"""
    if isinstance(M, ast.Call) and (A.call_name(M) or "").endswith("arange"):
        a = M.args
        if len(a) == 1:
            return True
        if len(a) >= 2 and A.const_value(a[0]) == 0 and (len(a) == 2 or A.const_value(a[2]) == 1):
            return True
    return False


def check_api(ctx):
    R = "C06-API"
    ctx.rule(R, "in the in-memory API paths ln_prior is taken (under return_logprobs) from the same JokerSamples object that is then packed, before packing, "
                "and handed to the in-memory sampler as ln_prior=; the file paths forward return_logprobs.")
    n = 0
    for meth, callee in (("TheJoker.rejection_sample", "rejection_sample_inmem"), ("TheJoker.iterative_rejection_sample", "iterative_rejection_inmem")):
        fn = ctx.prog.func(TJ, meth, R)
        flow = A.Flow(fn)
        cs = A.find_calls(fn, callee)
        if len(cs) != 1:
            ctx.undecided(R, fn, "%s -> %s" % (meth, callee), "expected one call")
            continue
        c = cs[0]
        n += 1
        lp = A.get_arg(c, None, "ln_prior")
        batch = A.get_arg(c, 1, "prior_samples_batch")
        if lp is None or batch is None:
            ctx.violate(R, c, "%s passes ln_prior" % meth, "ln_prior is not handed to %s" % callee, key=meth + ":arg")
            continue
        lpr = flow.resolve(lp, at=A.enclosing_stmt(c))
        br = flow.resolve(batch, at=A.enclosing_stmt(c))
        # object the ln_prior column was read from
        src = [x for x in ast.walk(lpr) if isinstance(x, ast.Subscript) and A.str_const(x.slice) == "ln_prior"]
        packs = [x for x in ast.walk(br) if isinstance(x, ast.Call) and A.last_attr(x) == "pack"]
        ok = bool(src) and bool(packs) and all(canon(x.value) == canon(packs[0].func.value) for x in src)
        ctx.check(R, c, "%s: ln_prior and packed rows come from the same samples object" % meth, ok,
                  "ln_prior is read from `%s`, rows are packed from `%s`" % (A.unparse(src[0].value)[:50] if src else None, A.unparse(packs[0].func.value)[:50] if packs else None), key=meth + ":same")
        other = [x for x in ast.walk(lpr) if isinstance(x, ast.Subscript) and isinstance(x.slice, ast.Constant) and isinstance(x.slice.value, str) and x.slice.value != "ln_prior"]
        ctx.check(R, c, "%s: the ln_prior column is the one read" % meth, not other, "reads column %s as ln_prior" % ([A.unparse(x.slice) for x in other]), key=meth + ":col")
        gated = any(isinstance(x, ast.IfExp) and "return_logprobs" in A.unparse(x.test) for x in ast.walk(lpr))
        ctx.check(R, c, "%s: ln_prior only taken under return_logprobs" % meth, gated, "ln_prior is not gated by return_logprobs", key=meth + ":gate", nontrivial=False)
    for meth, callee in (("TheJoker.rejection_sample", "rejection_sample_helper"), ("TheJoker.iterative_rejection_sample", "iterative_rejection_helper")):
        fn = ctx.prog.func(TJ, meth, R)
        for c in A.find_calls(fn, callee):
            n += 1
            v = A.get_arg(c, None, "return_logprobs")
            ctx.check(R, c, "%s forwards return_logprobs to %s" % (meth, callee), v is not None and canon(v) == "return_logprobs", "return_logprobs=%s" % (A.unparse(v) if v is not None else "missing"), key=meth + ":fw")
    ctx.floor(R, n, 4)


def check_inmem_api(ctx):
    R = "C06-INMEM"
    ctx.rule(R, "in-memory API path: the packed array handed to rejection_sample_inmem / iterative_rejection_inmem is P.pack(units=H.internal_units, names=H.packed_order)[0] of the "
                "library object P exactly as given (no permutation, no slicing: the accepted positions index both this array and ln_prior), and the ln_prior handed over is "
                "P['ln_prior'] of the same object (or None / the caller's flag).")
    TJ = "thejoker.thejoker"
    n = 0
    for meth, callee in (("TheJoker.rejection_sample", "rejection_sample_inmem"), ("TheJoker.iterative_rejection_sample", "iterative_rejection_inmem")):
        fn = ctx.prog.func(TJ, meth, R)
        fl = A.Flow(fn)
        cs = [c for c in A.calls_in(fn) if A.call_name(c) == callee]
        if len(cs) != 1:
            ctx.undecided(R, fn, "%s call" % callee, "expected one call, found %d" % len(cs))
            continue
        c = cs[0]
        st = A.enclosing_stmt(c)
        batch = A.get_arg(c, 1, "prior_samples_batch")
        lp = A.get_arg(c, None, "ln_prior")
        if batch is None:
            ctx.undecided(R, c, "%s: packed batch argument" % meth, "not found")
            continue
        n += 1
        owners = set()
        ok = True
        why = ""
        for terms, leaf in A.ifexp_terms(fl.resolve(batch, at=st)):
            core = A.strip_casts(leaf)
            if isinstance(core, ast.Subscript) and A.const_value(core.slice) == 0 and isinstance(core.value, ast.Call) and A.last_attr(core.value) == "pack":
                owners.add(canon(core.value.func.value))
                continue
            if any(isinstance(x, ast.Call) and A.last_attr(x) in ("permutation", "shuffle", "choice", "argsort", "sort") for x in ast.walk(core)) or \
                    (isinstance(core, ast.Subscript) and any(isinstance(x, ast.Call) and A.last_attr(x) == "pack" for x in ast.walk(core))):
                ok = False
                why = "the packed library is re-ordered / cut (`%s`) after ln_prior was taken from the object: accepted positions pair a row with another row's ln_prior" % A.unparse(core)[:90]
            # otherwise: the caller's own array (documented escape hatch)
        ctx.check(R, c, "%s: the packed library reaches the sampler in the object's row order" % meth, ok, why, key=meth + ":batch")
        if lp is not None:
            okl = True
            whyl = ""
            for terms, leaf in A.ifexp_terms(fl.resolve(lp, at=st)):
                if isinstance(leaf, ast.Constant) or canon(leaf) == "return_logprobs":
                    continue
                if isinstance(leaf, ast.Subscript) and A.str_const(leaf.slice) == "ln_prior" and (not owners or canon(leaf.value) in owners):
                    continue
                okl = False
                whyl = "ln_prior handed over is `%s`, not the ln_prior column of the object that was packed" % A.unparse(leaf)[:80]
            ctx.check(R, c, "%s: ln_prior comes from the same object, in the same order" % meth, okl, whyl, key=meth + ":ln_prior")
    ctx.floor(R, n, 2)


def run(ctx):
    ctx.rule("C06-SPACE", "index-space typing: the ln_likelihood column is L[G] with L the array the acceptance used and G the accepted positions after the same "
                          "truncation that built the rows; the ln_prior column is read at the library rows R that built the samples (R = G or R = M[G]).")
    ctx.rule("C06-FIELD", "a coordinate read stored as ln_prior selects field='ln_prior' (a record array is not a float column).")
    ctx.rule("C06-ALL", "under return_all_logprobs the second return value is the whole evaluated likelihood array, unsliced.")
    n = 0
    for mod, name in _rej.SITES:
        S = _rej.analyze(ctx.prog, mod, name)
        check_site(ctx, S)
        if name == "rejection_sample_helper":
            check_mapcond(ctx, S)
        n += 1
    ctx.floor("C06-SPACE", n, 4)
    check_inmem_api(ctx)
    ctx.rule("C06-ROWS", "make_full_samples / make_full_samples_inmem hand the caller's row index to the kernel unmodified and unpack the kernel rows in task order "
                         "(otherwise rows come back in another order than the log-prob columns).")
    from .C02 import check_passthrough
    check_passthrough(ctx, "C06-ROWS")
    from .C17 import check_unpack_shape
    check_unpack_shape(ctx, "C06-ROWS")
    ctx.rule("C06-CHAIN", "iterative samplers: position i of the accumulated likelihood array is row M[i] - windows are consecutive [cursor, cursor+size) and the cursor "
                          "advances by the size just evaluated (shared with C14-CHAIN).")
    from .C14 import check_chain
    for mod, name in _rej.SITES[2:]:
        check_chain(ctx, _rej.analyze(ctx.prog, mod, name), R="C06-CHAIN")
    ctx.rule("C06-PART", "file paths: the batches handed to the pool partition the evaluated rows exactly once and in order, so position i of the concatenated result is "
                         "row i of the request (shared implementation with C16).")
    from .C16 import check_batch_tasks, check_run_worker
    from .C07 import _Relabel
    check_batch_tasks(_Relabel(ctx, {"C16-P": "C06-PART"}))
    check_run_worker(_Relabel(ctx, {"C16-RUN": "C06-PART"}))
    from .C12 import check_dispatch
    ctx.rule("C06-READ", "the likelihood stage and the row-producing stage read the library through the same conversions: every selector kind of read_batch forwards file, "
                         "columns and units to its reader (shared with C12-DISPATCH).")
    check_dispatch(_Relabel(ctx, {"C12-DISPATCH": "C06-READ"}))
    ctx.floor("C06-FIELD", ctx.count("C06-FIELD"), 2)
    check_api(ctx)
    ctx.assume("numpy fancy indexing and tables.read_coordinates return rows in the order of the index array")
    ctx.assume("the kernel emits, for input row i, n_linear_samples consecutive output rows (C03-LAYOUT / C02-COPY)")
