"""C17 - sample-table operations preserve the physical orbit and its metadata."""
import ast

from .. import astutil as A
from ..norm import canon, parse, dotted, equal, rat, NormError

SM = "thejoker.samples"


class _StripTo(ast.NodeTransformer):
    """X.to(unit, ...) -> X ; np.squeeze(X) -> X ; np.atleast_1d(X) -> X   (value-preserving for physical quantities)"""

    def visit_Call(self, n):
        self.generic_visit(n)
        if isinstance(n.func, ast.Attribute) and n.func.attr == "to":
            return n.func.value
        if (A.call_name(n) or "") in ("np.squeeze", "np.atleast_1d") and n.args:
            return n.args[0]
        return n


def strip_to(e):
    return _StripTo().visit(A.clone(e))


def _subst_expr(expr, target_canon, repl):
    class T(ast.NodeTransformer):
        def visit(self, n):
            if isinstance(n, ast.expr) and canon(n) == target_canon:
                return A.clone(repl)
            return self.generic_visit(n)
    return T().visit(A.clone(expr))


def _acc(e):
    """`self.tbl['K']` -> `self['K']` (the same column, see prenorm.column_accessors) so that both spellings compare equal in this rule"""
    e = A.clone(e)
    for n in ast.walk(e):
        if isinstance(n, ast.Subscript) and isinstance(n.slice, ast.Constant) and isinstance(n.slice.value, str) and isinstance(n.value, ast.Attribute) and n.value.attr == "tbl" \
                and isinstance(n.value.value, ast.Name) and n.value.value.id == "self":
            n.value = n.value.value
    return e


def check_wrap(ctx):
    R = "C17-WRAP"
    ctx.rule(R, "wrap_K: every store is subscripted by the one mask K < 0; K <- |K| on those rows; omega <- (omega + pi rad) mod (2 pi rad) on those rows, with pi carrying "
                "the radian unit (or omega stripped in radians), so that the row's RV curve is unchanged; returns self.")
    fn = ctx.prog.func(SM, "JokerSamples.wrap_K", R)
    masks = [s for s in A.walk_local(fn) if isinstance(s, ast.Assign) and isinstance(s.targets[0], ast.Name) and isinstance(s.value, ast.Compare)]
    okm = len(masks) == 1 and canon(masks[0].value) == canon(parse("self.tbl['K'] < 0")) or (len(masks) == 1 and canon(masks[0].value) == canon(parse("self['K'] < 0")))
    ctx.check(R, fn, "mask = K < 0", okm, "mask is `%s`" % (A.unparse(masks[0].value) if masks else None), key="mask")
    if not masks:
        return
    mname = masks[0].targets[0].id
    stores = [s for s in A.walk_local(fn) if isinstance(s, (ast.Assign, ast.AugAssign)) and isinstance((s.targets[0] if isinstance(s, ast.Assign) else s.target), ast.Subscript)]
    final = {}
    for s in stores:
        tgt = s.targets[0] if isinstance(s, ast.Assign) else s.target
        col = tgt.value
        colname = None
        if isinstance(col, ast.Subscript) and A.str_const(col.slice) in ("K", "omega"):
            colname = A.str_const(col.slice)
        if colname is None:
            ctx.violate(R, s, "stores only touch masked K / omega rows", "store `%s` writes outside K/omega" % A.unparse(tgt), key="other-store")
            continue
        ctx.check(R, s, "store to %s is restricted to the mask" % colname, canon(tgt.slice) == mname,
                  "`%s` updates rows selected by `%s`, not only the rows with K < 0" % (A.unparse(tgt), A.unparse(tgt.slice)), key="masked:" + colname + ":" + str(len([k for k in final if k == colname])))
        val = _acc(s.value if isinstance(s, ast.Assign) else ast.BinOp(left=A.clone(tgt), op=s.op, right=s.value))
        if colname in final:
            val = _subst_expr(val, canon(_acc(tgt)), final[colname])
        final[colname] = val
    K0 = parse("self['K'][%s]" % mname)
    O0 = parse("self['omega'][%s]" % mname)
    if "K" in final:
        k = canon(final["K"])
        okk = k in (canon(parse("np.abs(self['K'][%s])" % mname)), canon(parse("abs(self['K'][%s])" % mname)), canon(parse("-self['K'][%s]" % mname)))
        ctx.check(R, fn, "K <- |K| on the masked rows", okk, "K becomes `%s`" % A.unparse(final["K"])[:70], key="K")
    else:
        ctx.violate(R, fn, "K <- |K| on the masked rows", "K is never updated", key="K")
    if "omega" in final:
        o = final["omega"]
        forms = ["(self['omega'][M] + np.pi * u.rad) % (2 * np.pi * u.rad)", "(self['omega'][M] + np.pi * u.radian) % (2 * np.pi * u.radian)",
                 "np.mod(self['omega'][M] + np.pi * u.rad, 2 * np.pi * u.rad)", "(self['omega'][M] - np.pi * u.rad) % (2 * np.pi * u.rad)",
                 "np.mod(self['omega'][M].to_value(u.rad) + np.pi, 2 * np.pi) * u.rad", "((self['omega'][M].to_value(u.rad) + np.pi) % (2 * np.pi)) * u.rad",
                 "(self['omega'][M] + 180 * u.deg) % (360 * u.deg)"]
        oko = any(canon(o) == canon(parse(f.replace("M", mname))) for f in forms)
        why = "omega becomes `%s`" % A.unparse(o)[:90]
        if not oko:
            txt = A.unparse(o)
            if ".value" in txt:
                why += ": pi is added to the bare number in the column's own unit (wrong unless omega is stored in radians)"
            elif "%" not in txt and "mod" not in txt:
                why += ": not reduced modulo 2 pi"
            elif "np.pi" in txt and "2 * np.pi" not in txt.replace("(2 * np.pi", "2 * np.pi") and "2*np.pi" not in txt:
                why += ": modulus is not 2 pi"
        ctx.check(R, fn, "omega <- (omega + pi) mod 2 pi, in radians, on the masked rows", oko, why, key="omega")
    else:
        ctx.violate(R, fn, "omega <- (omega + pi) mod 2 pi", "omega is never updated: the RV curve of the flipped rows changes sign", key="omega")
    rets = [s for s in A.walk_local(fn) if isinstance(s, ast.Return)]
    ctx.check(R, fn, "returns self", len(rets) == 1 and canon(rets[0].value) == "self", "returns `%s`" % (A.unparse(rets[0].value) if rets else None), key="ret", nontrivial=False)


def check_phase(ctx):
    R = "C17-PHASE"
    ctx.rule(R, "get_time_with_phase returns t_ref + P*(M0 + phase)/(2 pi) computed from the current columns on every call (no cached value); get_t0 is phase = 0.")
    fn = ctx.prog.func(SM, "JokerSamples.get_time_with_phase", R)
    flow = A.Flow(fn)
    rets = flow.returns
    if len(rets) != 1:
        ctx.undecided(R, fn, "single return", "found %d returns" % len(rets))
        return
    v = strip_to(rets[0][0])
    want = "TREF + self['P'] * self['M0'] / (2 * np.pi) + self['P'] * phase / (2 * np.pi)"
    leaves = A.ifexp_cases(v)
    ok = True
    why = ""
    seen_tref = set()
    for conds, e in leaves:
        # identify the reference-epoch atom: either self.t_ref or the parameter t_ref
        good = False
        for tr in ("self.t_ref", "t_ref"):
            try:
                if rat(e).equals(rat(parse(want.replace("TREF", tr)))):
                    good = True
                    seen_tref.add(tr)
            except (NormError, ZeroDivisionError):
                pass
        if not good:
            ok = False
            why = "returns `%s`, not t_ref + P*(M0 + phase)/(2 pi)" % A.unparse(e)[:100]
    ctx.check(R, fn, "time with phase = t_ref + P (M0 + phase) / 2 pi", ok, why, key="form")
    ctx.check(R, fn, "uses the table's epoch, or the one passed in when the table has none", seen_tref == {"self.t_ref", "t_ref"} or not ok, "reference epochs used: %s" % sorted(seen_tref), key="tref", nontrivial=False)
    cache = [n for n in A.walk_local(fn) if isinstance(n, ast.Attribute) and dotted(n) == "self._cache"]
    ctx.check(R, fn, "no cached result", not cache, "reads or writes self._cache: a later call after columns changed returns stale times", key="cache")
    g0 = ctx.prog.func(SM, "JokerSamples.get_t0", R)
    rr = [s for s in A.walk_local(g0) if isinstance(s, ast.Return)]
    ok0 = len(rr) == 1 and isinstance(rr[0].value, ast.Call) and canon(rr[0].value.func) == "self.get_time_with_phase" and canon(A.get_arg(rr[0].value, None, "t_ref")) == "t_ref" \
        and canon(A.get_arg(rr[0].value, 0, "phase", with_default=True)) in (canon(parse("0 * u.rad")), canon(parse("0.0 * u.rad")), canon(parse("0 * u.radian")))
    ctx.check(R, g0, "get_t0 = get_time_with_phase(phase=0)", ok0, "get_t0 returns `%s`" % (A.unparse(rr[0].value) if rr else None), key="t0")
    # the only user of the instance cache is get_orbit's template, which is fully overwritten
    m = ctx.prog.module(SM)
    users = sorted({A.qualname(A.enclosing_function(n)) for n in ast.walk(m.tree) if isinstance(n, ast.Attribute) and dotted(n) == "self._cache" and A.enclosing_function(n) is not None})
    ctx.check(R, m.functions["JokerSamples.__init__"], "instance cache only holds the get_orbit template", set(users) <= {"JokerSamples.__init__", "JokerSamples.get_orbit"},
              "self._cache is used by %s" % users, key="cache-users")
    keys = {A.str_const(n.slice) for n in ast.walk(m.tree) if isinstance(n, ast.Subscript) and dotted(n.value) == "self._cache"}
    ctx.check(R, m.functions["JokerSamples.__init__"], "cache keys", keys <= {"orbit"}, "cache keys %s" % sorted(str(k) for k in keys), key="cache-keys", nontrivial=False)


def check_meta(ctx):
    R = "C17-META"
    ctx.rule(R, "every construction of the class inside its own methods passes a Table/Row taken from self.tbl (metadata travels with it) or **self.tbl.meta; copy() "
                "passes a table copy and t_ref; __getitem__ returns the column for a parameter name and a re-wrapped table selection otherwise; _apply applies the "
                "reducer to every column.")
    m = ctx.prog.module(SM)
    n = 0
    for q in ("JokerSamples.__getitem__", "JokerSamples._apply", "JokerSamples.copy"):
        fn = ctx.prog.func(SM, q, R)
        flow = A.Flow(fn)
        for c in A.calls_in(fn):
            f = flow.resolve(c.func, at=A.enclosing_stmt(c))
            if canon(f) not in ("self.__class__", "cls"):
                continue
            n += 1
            a0 = A.get_arg(c, 0, "samples")
            a0r = flow.resolve(a0, at=A.enclosing_stmt(c)) if a0 is not None else None
            star = [k for k in c.keywords if k.arg is None]
            from_tbl = a0r is not None and ((isinstance(a0r, ast.Subscript) and dotted(a0r.value) == "self.tbl") or canon(A.strip_casts(a0r)) == "self.tbl" or canon(a0r) == canon(parse("self.tbl.copy()")))
            meta_kw = any(canon(k.value) == "self.tbl.meta" for k in star)
            ctx.check(R, c, "%s: new object keeps the metadata" % q, from_tbl or meta_kw,
                      "constructed from `%s` without the table metadata (t_ref / poly_trend / n_offsets are lost)" % (A.unparse(a0)[:50] if a0 is not None else None), key=q + ":meta")
            if q.endswith("copy"):
                tr = A.get_arg(c, None, "t_ref")
                ctx.check(R, c, "copy passes t_ref", from_tbl and (tr is None or canon(tr) == "self.t_ref"), "copy() does not carry the table / epoch", key="copy:t_ref", nontrivial=False)
                ctx.check(R, c, "copy copies the table", a0r is not None and canon(a0r) == canon(parse("self.tbl.copy()")), "copy() shares `%s` with the original" % (A.unparse(a0r) if a0r is not None else None), key="copy:copy")
    ctx.floor(R, n, 3)
    # receiving side: a table handed to the constructor without explicit poly_trend / n_offsets / t_ref supplies them from its metadata
    init = ctx.prog.func(SM, "JokerSamples.__init__", R)
    iflow = A.Flow(init, track_self=True)
    sinks = {}
    for c in A.calls_in(init):
        cn = A.call_name(c)
        if cn == "validate_poly_trend" and c.args:
            sinks["poly_trend"] = (c.args[0], A.enclosing_stmt(c))
        elif cn == "validate_n_offsets" and c.args:
            sinks["n_offsets"] = (c.args[0], A.enclosing_stmt(c))
    for st_ in A.walk_local(init):
        if isinstance(st_, ast.Assign) and (dotted(st_.targets[0]) == "self.t_ref" or canon(st_.targets[0]) == canon(parse("self.tbl.meta['t_ref']"))):
            sinks["t_ref"] = (st_.value, st_)
    for key in ("poly_trend", "n_offsets", "t_ref"):
        if key not in sinks:
            ctx.violate(R, init, "constructor uses the table's %s" % key, "no place where %s is validated / stored" % key, key="init:" + key)
            continue
        e, at = sinks[key]
        r = A.assume_none(iflow.resolve(e, at=at), [key])
        ok = True
        seen = []
        table_leaves = 0
        for terms, leaf in A.ifexp_terms(r):
            ts = A.term_strings(terms)
            if any(t.startswith("+isinstance(samples") for t in ts):
                table_leaves += 1
                # Time(...) wrappers around the popped value are fine
                core = [x for x in ast.walk(leaf) if isinstance(x, ast.Call) and A.last_attr(x) == "pop" and x.args and A.str_const(x.args[0]) == key]
                seen.append(A.unparse(leaf)[:60])
                ok = ok and bool(core)
        ctx.check(R, at, "a table passed without explicit %s supplies it from its metadata" % key, ok and table_leaves > 0,
                  "with %s left at None and a table as input the constructor uses `%s`, not the table's own %s: indexing, copy() and median_period() reset it" % (key, "; ".join(seen) or "?", key),
                  key="init:" + key)
    check_ingest(ctx, R)
    check_meta_branch(ctx, R)
    check_setitem(ctx, R)
    gi = ctx.prog.func(SM, "JokerSamples.__getitem__", R)
    rets = [s for s in A.walk_local(gi) if isinstance(s, ast.Return)]
    colret = [s for s in rets if canon(s.value) == canon(parse("self.tbl[key]"))]
    okc = False
    if len(colret) == 1:
        pc = A.conj(A.path_condition(colret[0], gi))
        okc = A.nnf_implies(pc, A.nnf_of_src("isinstance(key, str) and key in self.par_names"))
    ctx.check(R, gi, "a parameter name returns that column", okc, "column access path changed", key="getitem:col")
    sel = [s for s in rets if isinstance(s.value, ast.Call) and canon(A.get_arg(s.value, 0, "samples") or ast.Constant(value=None)) == canon(parse("self.tbl[key]"))]
    ctx.check(R, gi, "any other key returns the re-wrapped selection self.tbl[key]", len(sel) >= 1 and len(sel) + len(colret) == len(rets), "returns: %s" % [A.unparse(s.value)[:40] for s in rets], key="getitem:sel")
    ap = ctx.prog.func(SM, "JokerSamples._apply", R)
    loops = [l for l in A.walk_local(ap) if isinstance(l, ast.For)]
    comps = [n for n in A.walk_local(ap) if isinstance(n, ast.DictComp)]
    iters_ok = (canon(parse("self.tbl.colnames")), canon(parse("self.par_names")))
    oka = False
    if len(loops) == 1 and canon(loops[0].iter) in iters_ok and isinstance(loops[0].target, ast.Name):
        k = loops[0].target.id
        st = [s for s in loops[0].body if isinstance(s, ast.Assign) and isinstance(s.targets[0], ast.Subscript)]
        oka = len(st) == 1 and canon(st[0].targets[0].slice) == k and canon(strip_to(A.inline_temporaries(st[0].value, st[0], ap))) in (canon(parse("func(self[%s])" % k)), canon(parse("func(self.tbl[%s])" % k)))
    elif len(comps) == 1 and len(comps[0].generators) == 1 and canon(comps[0].generators[0].iter) in iters_ok and not comps[0].generators[0].ifs and isinstance(comps[0].generators[0].target, ast.Name):
        k = comps[0].generators[0].target.id
        oka = canon(comps[0].key) == k and canon(strip_to(comps[0].value)) in (canon(parse("func(self[%s])" % k)), canon(parse("func(self.tbl[%s])" % k)))
    if False:
        pass
    ctx.check(R, ap, "_apply reduces every column under its own name", oka, "loop body does not store func(self[k]) under k for every column", key="apply")
    for q, fnm in (("JokerSamples.mean", "np.mean"), ("JokerSamples.std", "np.std")):
        f = ctx.prog.func(SM, q, R)
        rr = [s for s in A.walk_local(f) if isinstance(s, ast.Return)]
        ctx.check(R, f, "%s = _apply(%s)" % (q, fnm), len(rr) == 1 and canon(rr[0].value) == canon(parse("self._apply(%s)" % fnm)), "returns `%s`" % (A.unparse(rr[0].value) if rr else None), key=q, nontrivial=False)


def check_setitem(ctx, R="C17-META"):
    """JokerSamples.__setitem__ stores through Table.__setitem__ (which copies): a column must never share memory with the array the caller passed - wrap_K and
    friends update columns in place"""
    fn = ctx.prog.func(SM, "JokerSamples.__setitem__", R)
    stores = [s_ for s_ in A.walk_local(fn) if isinstance(s_, ast.Assign) and isinstance(s_.targets[0], ast.Subscript) and canon(s_.targets[0].value) == "self.tbl"]
    alias = [c for c in A.calls_in(fn) if isinstance(c.func, ast.Attribute) and "self.tbl" in canon(c.func.value) and
             (c.func.attr in ("add_column", "add_columns", "replace_column", "__setitem__") or any(k.arg == "copy" and A.const_value(k.value) is False for k in c.keywords))]
    ctx.check(R, alias[0] if alias else fn, "__setitem__ stores a copy of the value (tbl[key] = val)", bool(stores) and not alias,
              "`%s` can keep the caller's array as the column itself: two columns assigned from one array then change together" % (A.unparse(alias[0])[:60] if alias else "no tbl[key] = val store"), key="setitem:copy")


def check_meta_branch(ctx, R):
    init = ctx.prog.func(SM, "JokerSamples.__init__", R)
    # the branch that takes t_ref / poly_trend / n_offsets from the input's metadata applies to tables AND rows (integer indexing, median_period, MAP_sample hand a Row)
    okb = False
    why = "no isinstance(samples, ...) branch that reads the input's metadata"
    for s_ in A.walk_local(init):
        if isinstance(s_, ast.If) and any(isinstance(c_, ast.Call) and A.last_attr(c_) == "pop" and c_.args and A.str_const(c_.args[0]) == "t_ref" for x in s_.body for c_ in A.calls_in(x)):
            for c_ in [x for x in ast.walk(s_.test) if isinstance(x, ast.Call) and A.call_name(x) == "isinstance" and len(x.args) == 2]:
                tys = {canon(e) for e in (c_.args[1].elts if isinstance(c_.args[1], ast.Tuple) else [c_.args[1]])}
                okb = "Row" in tys and bool(tys & {"Table", "QTable"})
                why = "metadata is taken over for %s only: a Row (integer index, median_period, MAP_sample) loses t_ref / poly_trend / n_offsets" % sorted(tys)
    ctx.check(R, init, "metadata of tables and rows is taken over", okb, why, key="init:meta-branch")
    # a missing epoch is stored as None (the header key is always present: appends compare it)
    st = [s_ for s_ in A.walk_local(init) if isinstance(s_, ast.Assign) and canon(s_.targets[0]) == canon(parse("self.tbl.meta['t_ref']"))]
    okt = len(st) == 1 and not any("t_ref" in t for t in A.term_strings(A.path_condition(st[0], init, inline=False)))
    ctx.check(R, st[0] if st else init, "t_ref is stored in the table metadata on every path (None included)", okt,
              "the t_ref entry is %s: samples without an epoch write no key, and a later append of samples WITH an epoch meets no conflict" % ("written only under %s" % sorted(A.term_strings(A.path_condition(st[0], init, inline=False))) if st else "never written"), key="init:t_ref-store")
    for q_ in ("JokerSamples.read", "JokerSamples._read_tables"):
        if q_ not in ctx.prog.module(SM).functions:
            continue
        f_ = ctx.prog.func(SM, q_, R)
        # (re-building the mapping from ITSELF - re-keying, filtering - is what is excluded; installing the header read from the file is the normal path)
        repl = [s_ for s_ in A.walk_local(f_) if isinstance(s_, ast.Assign) and any(isinstance(t_, ast.Attribute) and t_.attr == "meta" and canon(t_) in canon(s_.value) for t_ in s_.targets)]
        ctx.check(R, repl[0] if repl else f_, "%s keeps the metadata keys as read" % q_, not repl,
                  "`%s` rebuilds the whole metadata mapping: foreign header cards (an undefined T_REF) can turn into the object's own keys" % (A.unparse(repl[0])[:60] if repl else ""), key="read:meta:" + q_, nontrivial=False)


def check_ingest(ctx, R):
    """JokerSamples.__init__ takes the columns of whatever it is given: the ingestion runs whenever `samples is not None` (an empty table is falsy: a truthiness
    test drops the columns and units of a 0-row table on read(), copy() and slicing)"""
    init = ctx.prog.func(SM, "JokerSamples.__init__", R)
    loops = [lp for lp in A.walk_local(init) if isinstance(lp, ast.For) and any(isinstance(s_, ast.Assign) and isinstance(s_.targets[0], ast.Subscript) and canon(s_.targets[0].value) == "self"
                                                                                  for s_ in lp.body)]
    ok = False
    why = "no loop that stores the input columns"
    for lp in loops:
        pc = A.conj(A.path_condition(lp, init))
        ok = A.nnf_implies(A.nnf_of_src("samples is not None"), pc)
        why = "columns are ingested only under %s: an input that is not None but falsy (a table without rows) loses its columns and units" % sorted(A.term_strings([pc]))
        if ok:
            break
    ctx.check(R, loops[0] if loops else init, "the constructor ingests the columns of every input that is not None", ok, why, key="init:ingest")


def check_median(ctx):
    R = "C17-MEDIAN"
    ctx.rule(R, "median_period returns self[idx] with idx an arg-selection (argpartition / argsort at the middle rank) over the P column: a member row, not an interpolated value.")
    fn = ctx.prog.func(SM, "JokerSamples.median_period", R)
    flow = A.Flow(fn)
    rets = flow.returns
    ok = False
    why = "no return"
    if len(rets) == 1:
        v = rets[0][0]
        why = "returns `%s`" % A.unparse(v)[:80]
        if isinstance(v, ast.Subscript) and canon(v.value) == "self":
            idx = v.slice
            if isinstance(idx, ast.Subscript) and isinstance(idx.value, ast.Call) and A.last_attr(idx.value) in ("argpartition", "argsort"):
                c = idx.value
                arr = c.args[0] if c.args and (A.call_name(c) or "").startswith("np.") else (c.func.value if isinstance(c.func, ast.Attribute) else None)
                mid = canon(parse("len(self['P']) // 2"))
                okarr = arr is not None and canon(arr) == canon(parse("self['P']"))
                okmid = canon(idx.slice) == mid and (A.last_attr(c) == "argsort" or (len(c.args) >= 2 and canon(c.args[1]) == mid))
                ok = okarr and okmid
                if not okarr:
                    why = "the selection is over `%s`, not the period column" % (A.unparse(arr) if arr is not None else None)
                elif not okmid:
                    why = "the selected rank is not len(P)//2 in both places"
    ctx.check(R, fn, "median_period = self[arg-median of P]", ok, why, key="median")


def check_unpack_shape(ctx, R="C17-PACK"):
    """unpack reads its array as (rows, parameters) - it never transposes / reshapes it on a guess (a square block would be read the other way round)"""
    fn = ctx.prog.func(SM, "JokerSamples.unpack", R)
    p0 = A.param_names(fn)[1] if len(A.param_names(fn)) > 1 else "packed_samples"
    bad = []
    for s_ in A.walk_local(fn):
        if isinstance(s_, ast.Assign) and any(isinstance(t_, ast.Name) and t_.id == p0 for t_ in s_.targets):
            v = A.strip_casts(s_.value)
            if canon(v) != p0:
                bad.append(s_)
    # (reading a transposed VIEW to walk the columns is fine; what is excluded is re-binding the array itself to another arrangement)
    ctx.check(R, bad[0] if bad else fn, "unpack keeps the (rows, parameters) layout it is given", not bad,
              "`%s` re-arranges the packed array: rows and parameters can be exchanged" % (A.unparse(bad[0])[:60] if bad else ""), key="unpack:layout")


def check_pack(ctx):
    check_unpack_shape(ctx)
    R = "C17-PACK"
    ctx.rule(R, "pack iterates names once, strips column `name` in units.get(name, own unit), records that same unit under that name and stacks the columns in that order; "
                "unpack pairs the i-th key of the unit table with column i of the packed array and attaches units[key] to it unchanged; extra kwargs reach the constructor "
                "(temporaries and local names are irrelevant: expressions are compared after inlining them).")
    fn = ctx.prog.func(SM, "JokerSamples.pack", R)
    loops = [l for l in A.walk_local(fn) if isinstance(l, ast.For) and canon(A.inline_temporaries(l.iter, l, fn)) in ("names", canon(parse("list(names)")))]
    ok = len(loops) == 1 and isinstance(loops[0].target, ast.Name)
    if ok:
        l = loops[0]
        nm = l.target.id
        want_unit = canon(parse("units.get(%s, self.tbl[%s].unit)" % (nm, nm)))
        app = [c for c in A.calls_in(l) if A.last_attr(c) == "append"]
        oka = False
        got_unit = None
        if len(app) == 1:
            v = A.inline_temporaries(app[0].args[0], A.enclosing_stmt(app[0]), fn)
            if isinstance(v, ast.Call) and isinstance(v.func, ast.Attribute) and v.func.attr == "to_value" and canon(v.func.value) == canon(parse("self.tbl[%s]" % nm)) and v.args:
                got_unit = canon(v.args[0])
                oka = got_unit == want_unit
            elif isinstance(v, ast.Attribute) and v.attr == "value" and isinstance(v.value, ast.Call) and A.last_attr(v.value) == "to" and canon(v.value.func.value) == canon(parse("self.tbl[%s]" % nm)):
                got_unit = canon(v.value.args[0])
                oka = got_unit == want_unit
            why = "appends `%s`" % A.unparse(v)[:90]
        else:
            why = "%d append sites in the loop" % len(app)
        ctx.check(R, l, "pack: column `name` stripped in units.get(name, own unit)", oka, why, key="pack:strip")
        ou = [s for s in A.walk_local(l) if isinstance(s, ast.Assign) and isinstance(s.targets[0], ast.Subscript) and canon(s.targets[0].slice) == nm and s.targets[0].value is not None
              and not dotted(s.targets[0].value) in ("self.tbl",)]
        oko = len(ou) == 1 and canon(A.inline_temporaries(ou[0].value, ou[0], fn)) == want_unit
        ctx.check(R, l, "pack: the same unit is recorded under the same name", oko, "recorded unit: `%s`" % (A.unparse(A.inline_temporaries(ou[0].value, ou[0], fn))[:70] if ou else None), key="pack:record")
        flow = A.Flow(fn)
        okr = False
        if len(flow.returns) == 1 and isinstance(flow.returns[0][1].value, ast.Tuple) and len(flow.returns[0][1].value.elts) == 2 and app and ou:
            r0, r1 = flow.returns[0][1].value.elts
            r0 = A.inline_temporaries(r0, flow.returns[0][1], fn)
            okr = isinstance(r0, ast.Call) and A.call_name(r0) in ("np.stack", "np.column_stack") and canon(r0.args[0]) == canon(app[0].func.value) \
                and (A.call_name(r0) == "np.column_stack" or A.const_value(A.get_arg(r0, 1, "axis")) == 1) and canon(r1) == canon(ou[0].targets[0].value)
        ctx.check(R, fn, "pack returns (columns stacked along axis 1, recorded units)", okr, "returns `%s`" % (A.unparse(flow.returns[0][1].value)[:80] if flow.returns else None), key="pack:ret")
    else:
        ctx.violate(R, fn, "pack iterates names once", "found %d loops over names" % len(loops), key="pack:loop")
    nd = [s for s in A.walk_local(fn) if isinstance(s, ast.Assign) and canon(s.targets[0]) == "names"]
    vals = sorted(canon(s.value) for s in nd)
    ctx.check(R, fn, "default names: packed nonlinear order, or all columns", vals == sorted(["_nonlinear_packed_order", "self.par_names"]), "default names %s" % vals, key="pack:names", nontrivial=False)
    un = ctx.prog.func(SM, "JokerSamples.unpack", R)
    loops = [l for l in A.walk_local(un) if isinstance(l, ast.For)]
    oku = False
    why = "no loop"
    if len(loops) == 1:
        l = loops[0]
        it = A.inline_temporaries(l.iter, l, un)
        packed_names = {"packed_samples", canon(parse("np.array(packed_samples)"))}
        npars_forms = {canon(parse("packed_samples.shape[1]")), canon(parse("np.array(packed_samples).shape[1]")), "npars", "n_pars"}
        tup = [s for s in A.walk_local(un) if isinstance(s, ast.Assign) and isinstance(s.targets[0], ast.Tuple) and len(s.targets[0].elts) == 2 and canon(A.inline_temporaries(s.value, s, un)) in
               (canon(parse("packed_samples.shape")), canon(parse("np.array(packed_samples).shape")))]
        if tup:
            npars_forms.add(canon(tup[0].targets[0].elts[1]))
        keyforms = {"units", canon(parse("units.keys()")), canon(parse("list(units.keys())")), canon(parse("list(units)"))}
        keyforms |= {canon(parse("list(units.keys())[:%s]" % n_)) for n_ in npars_forms} | {canon(parse("list(units)[:%s]" % n_)) for n_ in npars_forms}
        kvar = ivar = colexpr = None
        if isinstance(it, ast.Call) and A.call_name(it) == "enumerate" and isinstance(l.target, ast.Tuple) and canon(it.args[0]) in keyforms:
            ivar, kvar = l.target.elts[0].id, l.target.elts[1].id
            colexpr = lambda v: isinstance(v, ast.Subscript) and canon(A.strip_casts(v.value)) in packed_names and isinstance(v.slice, ast.Tuple) and len(v.slice.elts) == 2 and isinstance(v.slice.elts[0], ast.Slice) and canon(v.slice.elts[1]) == ivar
        elif isinstance(it, ast.Call) and A.call_name(it) == "zip" and len(it.args) == 2 and isinstance(l.target, ast.Tuple) and canon(it.args[0]) in keyforms \
                and canon(A.strip_casts(it.args[1])) in {p_ + ".T" for p_ in packed_names} | {canon(parse("np.array(packed_samples).T")), canon(parse("packed_samples.T"))}:
            kvar, cvar = l.target.elts[0].id, l.target.elts[1].id
            colexpr = lambda v: canon(v) == cvar
        if kvar is not None:
            st = [s for s in A.walk_local(l) if isinstance(s, ast.Assign) and isinstance(s.targets[0], ast.Subscript) and canon(s.targets[0].slice) == kvar]
            if len(st) == 1:
                v = A.inline_temporaries(st[0].value, st[0], un)
                if isinstance(v, ast.BinOp) and isinstance(v.op, ast.Mult):
                    sides = [v.left, v.right]
                    unit_ok = any(canon(x) == canon(parse("units[%s]" % kvar)) for x in sides)
                    col_ok = any(colexpr(x) for x in sides)
                    oku = unit_ok and col_ok
                why = "samples[%s] = %s" % (A.unparse(st[0].targets[0].slice), A.unparse(v)[:90])
            else:
                why = "%d stores under the key in the loop" % len(st)
        else:
            why = "loop is `for %s in %s`: the i-th key of the unit table is not paired with the i-th column" % (A.unparse(l.target), A.unparse(it)[:70])
    ctx.check(R, un, "unpack: column i carries units[k] for the i-th key k, values unchanged", oku, why, key="unpack:loop")
    cons = [c for c in A.calls_in(un) if canon(c.func) == "cls"]
    okc = len(cons) == 1 and any(k.arg is None and canon(k.value) == "kwargs" for k in cons[0].keywords)
    ctx.check(R, un, "unpack forwards t_ref / poly_trend / n_offsets kwargs to the constructor", okc, "constructor call does not receive **kwargs", key="unpack:kwargs")


def run(ctx):
    check_wrap(ctx)
    check_phase(ctx)
    check_meta(ctx)
    check_median(ctx)
    check_pack(ctx)
    ctx.assume("K cos(omega + f) + K e cos(omega) is invariant under (K, omega) -> (-K, omega + pi); astropy Quantity arithmetic converts units; QTable row/mask selection keeps table metadata")
