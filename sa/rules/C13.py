"""C13 - failures propagate, no leaked cache file, user file untouched."""
import ast

from .. import astutil as A
from ..norm import canon, parse, dotted
from ..resolve import CallGraph

UT = "thejoker.utils"
TJ = "thejoker.thejoker"
MP = "thejoker.multiproc_helpers"
SM = "thejoker.samples"
SH = "thejoker.samples_helpers"

ENTRY = [(TJ, "TheJoker.marginal_ln_likelihood"), (TJ, "TheJoker.rejection_sample"), (TJ, "TheJoker.iterative_rejection_sample")]

# handlers on sampler paths that legitimately do not re-raise: (module, function, caught types) -> reason
ALLOWED_HANDLERS = {
    (SH, "write_table_hdf5", "(KeyError, ValueError)"): "group-creation fall-back: the missing group is created instead (cache writing only)",
    (SH, "write_table_hdf5", "TypeError"): "attribute-skip warning on the serialize_meta=False branch, which JokerSamples.write never takes",
    ("thejoker.prior", "JokerPrior.sample", "Exception"): "best-effort pm.logp: needed for the constant jitter `s`, whose log-density cannot be evaluated",
    ("thejoker.prior", "_validate_model", "TypeError"): "pm.modelcontext(None) probe: a fresh model is created when there is no context",
    ("thejoker.data", "RVData.guess_from_table", "ImportError"): "optional fuzzywuzzy import (not on a sampling path)",
}

OPEN_NAMES = {"tb.open_file", "tables.open_file", "h5py.File", "open", "io.open", "tb.File"}
WRITE_CALLS = {"os.remove", "os.unlink", "os.rename", "os.replace", "os.rmdir", "os.truncate", "shutil.rmtree", "shutil.move", "shutil.copy", "shutil.copyfile"}
WRITE_METHODS = {"create_dataset", "create_group", "resize", "create_table", "create_array", "remove_node", "remove", "truncate", "append", "flush",
                 "write", "require_dataset", "require_group", "move", "copy_node", "modify_column", "modify_rows", "remove_rows"}


def open_mode(call):
    d = A.call_name(call)
    m = A.get_arg(call, 1, "mode")
    if m is None:
        return "r" if d != "h5py.File" else "r"  # both default to read-only in the installed versions
    return A.str_const(m) if A.str_const(m) is not None else "<dynamic:%s>" % A.unparse(m)


def check_tmp(ctx):
    R = "C13-TMP"
    ctx.rule(R, "each NamedTemporaryFile(delete=False) creation is followed only by its close() before a try whose finally unconditionally unlinks "
                "that file's .name; nothing else may run between creation and the try; every handler of that try re-raises on all paths.")
    n = 0
    for mn, q, fn in ctx.prog.all_functions():
        for c in A.calls_in(fn):
            if (A.call_name(c) or "").split(".")[-1] not in ("NamedTemporaryFile", "mkstemp", "mktemp", "TemporaryFile"):
                continue
            n += 1
            st = A.enclosing_stmt(c)
            label = "temp file created by `%s`" % A.unparse(st)[:70]
            if (A.call_name(c) or "").split(".")[-1] == "mkstemp":
                # mkstemp hands back an OPEN descriptor: it has to be closed (os.close / os.fdopen) by the code that asked for it
                fd = st.targets[0].elts[0] if isinstance(st, ast.Assign) and isinstance(st.targets[0], ast.Tuple) and st.targets[0].elts else None
                closed = isinstance(fd, ast.Name) and any((A.call_name(x) or "") in ("os.close", "os.fdopen", "open") and x.args and canon(x.args[0]) == fd.id for x in A.calls_in(fn))
                ctx.check(R, c, label + ": descriptor closed", bool(closed), "mkstemp's open file descriptor is dropped (`%s`): every call leaks one descriptor, until the process runs out of them" % A.unparse(st)[:60], key="mkstemp-fd:" + q)
                continue
            if not (isinstance(st, ast.Assign) and isinstance(st.targets[0], ast.Name) and st.value is c):
                if isinstance(A.parent(c), ast.withitem):
                    ctx.ok(R, c, label, "context-managed temporary file")
                    continue
                ctx.undecided(R, c, label, "creation is not a plain `name = NamedTemporaryFile(...)`")
                continue
            var = st.targets[0].id
            delete = A.get_arg(c, None, "delete")
            if delete is None or A.const_value(delete) is not False:
                ctx.ok(R, c, label + " (delete=True)", "file removes itself on close", nontrivial=False)
            p, f, lst, i = A.block_of(st)
            k = i + 1
            between = []
            while k < len(lst) and not isinstance(lst[k], ast.Try):
                between.append(lst[k])
                k += 1
            if k >= len(lst):
                ctx.violate(R, st, label, "no try/finally follows the creation: the cache file is never removed on a failing path", key="no-try")
                continue
            tr = lst[k]
            def harmless(s):
                if isinstance(s, ast.Expr) and isinstance(s.value, ast.Call) and canon(s.value.func) == var + ".close" and not s.value.args:
                    return True
                # binding a constant / an existing name to a local cannot raise
                return isinstance(s, ast.Assign) and all(isinstance(t, ast.Name) for t in s.targets) and isinstance(s.value, (ast.Constant, ast.Name))
            bad_between = [s for s in between if not harmless(s)]
            ctx.check(R, st, "only close() between creation and try", not bad_between,
                      "statement `%s` runs after the file exists but outside the try/finally: if it raises the file is leaked" % (A.unparse(bad_between[0])[:80] if bad_between else ""), key="between")
            # finally must unlink unconditionally
            unl = None
            for s in tr.finalbody:
                if isinstance(s, ast.Expr) and isinstance(s.value, ast.Call) and A.call_name(s.value) in ("os.unlink", "os.remove") and s.value.args \
                        and canon(s.value.args[0]) == var + ".name":
                    unl = s
            formb = _cleanup_without_finally(tr, lst[k + 1:], var) if unl is None and not tr.finalbody else None
            if unl is None and formb is not None and formb[0]:
                ctx.ok(R, tr, "every exit of the try unlinks the temp file", "catch-all handler unlinks and re-raises; the normal path unlinks right after the try")
            elif unl is None:
                nested = [x for s in tr.finalbody for x in A.calls_in(s) if A.call_name(x) in ("os.unlink", "os.remove")]
                anywhere = [x for x in A.calls_in(fn) if A.call_name(x) in ("os.unlink", "os.remove")]
                why = "the try has no `finally`" if not tr.finalbody else "the finally block does not unconditionally unlink %s.name" % var
                if nested:
                    why = "the unlink in the finally block is conditional"
                elif formb is not None and anywhere:
                    why += " and %s" % formb[1]
                elif anywhere and not tr.finalbody:
                    why += " (unlink only happens on some paths)"
                ctx.violate(R, tr, "finally unlinks the temp file", why + ": a failing wrapped call leaves the cache file behind", key="finally")
            else:
                # nothing in finalbody before the unlink may raise/return
                idx = tr.finalbody.index(unl)
                pre = [s for s in tr.finalbody[:idx] if not isinstance(s, ast.Pass)]
                ctx.check(R, unl, "finally unlinks the temp file", not pre, "statement `%s` precedes the unlink inside finally and can prevent it" % (A.unparse(pre[0])[:60] if pre else ""), key="finally")
            # a return / break / continue inside finally discards the in-flight exception
            jumps = [x for s in tr.finalbody for x in A.walk_local(s) if isinstance(x, (ast.Return, ast.Break, ast.Continue))]
            ctx.check(R, tr, "finally does not swallow the exception", not jumps,
                      "`%s` inside the finally block discards an in-flight exception: a failing wrapped call returns normally" % (A.unparse(jumps[0])[:40] if jumps else ""), key="finally-jump")
            # the name must not be rebound inside the try
            reb = [s for s in A.walk_local(tr) if isinstance(s, ast.Name) and isinstance(s.ctx, ast.Store) and s.id == var]
            ctx.check(R, tr, "temp handle not rebound", not reb, "`%s` is reassigned inside the try: finally unlinks a different file" % var, key="rebound")
            for h in tr.handlers:
                ctx.check(R, h, "handler `except %s` re-raises" % (A.unparse(h.type) if h.type else ""), A.always_raises(h.body),
                          "handler swallows the exception of the wrapped call", key="handler:" + (canon(h.type) if h.type else "bare"))
            # the wrapped call and the cache write are inside the try body
            body_calls = [A.unparse(x.func) for s in tr.body for x in A.calls_in(s)]
            ctx.check(R, tr, "cache write and wrapped call inside the try", any(x.endswith(".write") for x in body_calls) and ("func" in body_calls or fn.name in body_calls),   # (re-entering the wrapper with the file name reaches the same `func` call)
                      "try body calls %s: the cache write or the wrapped call is not protected" % body_calls, key="body")
    ctx.floor(R, n, 1)


def _is_unlink(s, var):
    return isinstance(s, ast.Expr) and isinstance(s.value, ast.Call) and A.call_name(s.value) in ("os.unlink", "os.remove") and s.value.args \
        and canon(s.value.args[0]) == var + ".name"


def _cleanup_without_finally(tr, after, var):
    """try without finally: (ok, why).  Equivalent to try/finally iff (a) a catch-all handler exists (bare / BaseException), (b) every handler starts with the
    unlink and always raises, (c) the try body cannot leave by return/break/continue, there is no else block, and (d) the statement right after the try is the unlink."""
    if tr.orelse:
        return False, "the try has an else block"
    catch_all = [h for h in tr.handlers if h.type is None or (dotted(h.type) or "") == "BaseException"]
    if not catch_all:
        kinds = [A.unparse(h.type) if h.type else "bare" for h in tr.handlers]
        return False, "the handlers (%s) do not cover KeyboardInterrupt / SystemExit: those exits skip the unlink" % ", ".join(kinds)
    for h in tr.handlers:
        if not (h.body and _is_unlink(h.body[0], var) and A.always_raises(h.body)):
            return False, "handler `except %s` does not unlink first and then re-raise" % (A.unparse(h.type) if h.type else "")
    jumps = [x for s_ in tr.body for x in A.walk_local(s_) if isinstance(x, (ast.Return, ast.Break, ast.Continue))]
    if jumps:
        return False, "`%s` inside the try body leaves without the unlink" % A.unparse(jumps[0])[:40]
    if not after or not _is_unlink(after[0], var):
        return False, "the normal path does not unlink right after the try"
    return True, ""


def check_swallow(ctx, cg, reach):
    R = "C13-SWALLOW"
    ctx.rule(R, "in every function reachable from marginal_ln_likelihood / rejection_sample / iterative_rejection_sample (call graph closure) "
                "each except handler re-raises on all its paths, or is one of the allow-listed handlers with a recorded reason; no bare suppress().")
    nfun = 0
    nh = 0
    for key in sorted(reach):
        fn = cg.funcs[key]
        mods = ctx.prog.modules[key[0]].all_functions.get(key[1], [fn])
        for f in mods:
            nfun += 1
            for t in A.walk_local(f):
                if isinstance(t, ast.Try):
                    for h in t.handlers:
                        nh += 1
                        ty = canon(h.type) if h.type is not None else "<bare>"
                        label = "handler `except %s` in %s" % (ty, key[1])
                        if A.always_raises(h.body):
                            ctx.ok(R, h, label, "re-raises on every path")
                        elif (key[0], key[1], ty) in ALLOWED_HANDLERS:
                            ctx.ok(R, h, label, "allow-listed: " + ALLOWED_HANDLERS[(key[0], key[1], ty)], nontrivial=False)
                        else:
                            ctx.violate(R, h, label, "swallows a failure on a sampling path (body: `%s`)" % A.unparse(h.body[0])[:60], key="swallow:%s:%s" % (key[1], ty))
                if isinstance(t, ast.Try) and t.finalbody:
                    jumps = [x for s_ in t.finalbody for x in A.walk_local(s_) if isinstance(x, (ast.Return, ast.Break, ast.Continue))]
                    if jumps:
                        ctx.violate(R, jumps[0], "finally block in %s does not swallow" % key[1], "`%s` inside finally discards any in-flight exception" % A.unparse(jumps[0])[:40], key="finally-jump:" + key[1])
                if isinstance(t, ast.With):
                    for it in t.items:
                        if isinstance(it.context_expr, ast.Call) and (A.call_name(it.context_expr) or "").split(".")[-1] == "suppress":
                            ctx.violate(R, t, "contextlib.suppress in %s" % key[1], "suppresses failures on a sampling path", key="suppress:" + key[1])
    ctx.floor(R, nfun, 25)
    ctx.notes.append({"reachable_functions": ["%s.%s" % k for k in sorted(reach)], "handlers_examined": nh})


def check_ro(ctx, cg, reach):
    R = "C13-RO"
    ctx.rule(R, "every file-open site on sampler paths (outside the cache writer JokerSamples.write -> write_table_hdf5) has the literal mode 'r' "
                "and is the context expression of a `with`.")
    n = 0
    writer = {(SM, "JokerSamples.write"), (SH, "write_table_hdf5")}
    for key in sorted(reach - writer):
        fn = cg.funcs[key]
        for c in A.calls_in(fn):
            d = A.call_name(c)
            if d not in OPEN_NAMES:
                continue
            n += 1
            mode = open_mode(c)
            label = "open site `%s` in %s" % (A.unparse(c)[:60], key[1])
            in_with = isinstance(A.parent(c), ast.withitem)
            if mode != "r":
                ctx.violate(R, c, label, "opened with mode %r: a sampling path could modify the prior-samples file" % mode, key="mode:%s:%s" % (key[1], d))
            elif not in_with:
                ctx.violate(R, c, label, "not context-managed: the handle leaks when a later statement raises", key="with:%s:%s" % (key[1], d))
            else:
                ctx.ok(R, c, label, "mode 'r', context-managed")
    ctx.floor(R, n, 12)


def _write_targets(fn):
    """[(call/stmt node, target expr, description)] write-capable primitives in fn."""
    out = []
    for n in A.walk_local(fn):
        if isinstance(n, ast.Call):
            d = A.call_name(n) or ""
            if d in WRITE_CALLS and n.args:
                out.append((n, n.args[0], d))
            elif d in OPEN_NAMES and open_mode(n) != "r" and n.args:
                out.append((n, n.args[0], "%s(mode=%s)" % (d, open_mode(n))))
            elif isinstance(n.func, ast.Attribute) and n.func.attr in WRITE_METHODS:
                recv = n.func.value
                rd = dotted(recv)
                if rd and rd.split(".")[0] in ("np", "warnings", "logger", "os", "u", "pm", "pt"):
                    continue
                if n.func.attr == "append" or n.func.attr == "copy":
                    continue  # list.append etc.
                if n.func.attr == "write":
                    # x.write(path, ...): the written object is the *argument*
                    if n.args:
                        out.append((n, n.args[0], ".write(path)"))
                    continue
                out.append((n, recv, "." + n.func.attr))
        elif isinstance(n, ast.Delete):
            for t in n.targets:
                if isinstance(t, ast.Subscript):
                    out.append((n, t.value, "del [...]"))
    return out


def check_write(ctx, cg, reach):
    R = "C13-WRITE"
    ctx.rule(R, "every write-capable primitive reachable from the sampling entry points (os.remove/unlink, non-'r' opens, create_dataset, resize, "
                "del group[...], X.write(path)) acts on a path/handle that, traced back through parameters along the call chains, originates from "
                "NamedTemporaryFile(...).name - never from a parameter of a sampling function (the caller's prior-samples file).")
    # (fn key, param) pairs whose value reaches a write primitive
    wp = {}
    n_prim = 0
    flows = {}

    def flow_of(key):
        if key not in flows:
            flows[key] = A.Flow(cg.funcs[key])
        return flows[key]

    def roots(expr, key):
        """parameter names / source descriptions an expression derives from"""
        fn = cg.funcs[key]
        r = flow_of(key).resolve(expr, at=A.enclosing_stmt(expr)) if hasattr(expr, "_parent") else expr
        params = set(A.param_names(fn))
        out = set()

        def base(n):
            # the object that is acted on: strip subscripts / attributes / method receivers
            if isinstance(n, ast.IfExp):
                base(n.body)
                base(n.orelse)
            elif isinstance(n, (ast.Subscript, ast.Attribute, ast.Starred)):
                base(n.value)
            elif isinstance(n, ast.Call):
                if (A.call_name(n) or "").split(".")[-1] in ("NamedTemporaryFile", "mkstemp"):
                    out.add("tempfile")
                elif isinstance(n.func, ast.Attribute) and not (dotted(n.func.value) or "").split(".")[0] in ("os", "np", "str", "h5py", "tb", "tables", "io", "pathlib"):
                    base(n.func.value)
                else:
                    for a in n.args:
                        base(a)
            elif isinstance(n, ast.Name):
                b = n.id.split("@")[0]
                if b in params:
                    out.add("param:" + b)
            elif isinstance(n, (ast.JoinedStr, ast.BinOp, ast.Tuple, ast.List)):
                for x in ast.iter_child_nodes(n):
                    base(x)
            elif isinstance(n, ast.FormattedValue):
                base(n.value)

        base(r)
        return out

    work = []
    for key in sorted(reach):
        fn = cg.funcs[key]
        for node, tgt, desc in _write_targets(fn):
            n_prim += 1
            rs = roots(tgt, key)
            label = "write primitive `%s` in %s" % (desc, key[1])
            if "tempfile" in rs and not any(r.startswith("param:") for r in rs):
                ctx.ok(R, node, label, "target derives from NamedTemporaryFile(...).name")
                continue
            ps = [r[6:] for r in rs if r.startswith("param:")]
            if not ps:
                local = canon(tgt)
                ctx.ok(R, node, label, "target `%s` is a local object, not a path handed in" % local, nontrivial=False)
                continue
            for p in ps:
                if (key, p) not in wp:
                    wp[(key, p)] = (node, desc)
                    work.append((key, p))
    # propagate to callers
    depth = {k: 0 for k in work}
    while work:
        key, p = work.pop()
        fn = cg.funcs[key]
        for caller in cg.callers_of(key):
            if caller not in reach:
                continue
            cf = cg.funcs[caller]
            for c in A.calls_in(cf):
                if A.last_attr(c) != key[1].split(".")[-1]:
                    continue
                skip_self = A.param_names(fn)[:1] in (["self"], ["cls"]) and isinstance(c.func, ast.Attribute)
                b = A.bind_call(c, fn, skip_self=skip_self, partial=True)
                if b is None:
                    continue
                arg = b.get(p)
                if arg is None:
                    if p == "self" and isinstance(c.func, ast.Attribute):
                        arg = c.func.value
                    elif "**" in b or "*" in b:
                        arg = b.get("**", b.get("*"))  # may be supplied through the starred argument
                    else:
                        continue
                rs = roots(arg, caller)
                label = "call `%s` in %s passes `%s` to write-param %s.%s" % (A.last_attr(c), caller[1], A.unparse(arg)[:40] if arg is not None else "**kw", key[1], p)
                if "tempfile" in rs and not any(r.startswith("param:") for r in rs):
                    ctx.ok(R, c, label, "argument is the temporary file's name")
                    continue
                for r in rs:
                    if r.startswith("param:"):
                        k2 = (caller, r[6:])
                        if k2 not in wp and depth.get((key, p), 0) < 6:
                            wp[k2] = wp[(key, p)]
                            depth[k2] = depth.get((key, p), 0) + 1
                            work.append(k2)
    # verdict: a write-param on a sampling function / entry point is a violation
    writer_ok = {(SM, "JokerSamples.write"), (SH, "write_table_hdf5")}
    for (key, p), (node, desc) in sorted(wp.items(), key=lambda kv: (kv[0][0][0], kv[0][0][1], kv[0][1])):
        label = "parameter `%s` of %s reaches write primitive `%s`" % (p, key[1], desc)
        if key in writer_ok:
            ctx.ok(R, cg.funcs[key], label, "cache writer: only ever handed the temporary file (checked at its call sites)")
        elif key[1].startswith("tempfile_decorator"):
            if p in ("args", "kwargs", "func"):
                ctx.violate(R, cg.funcs[key], label, "the decorator forwards a caller-supplied value to a writer", key="wp:%s:%s" % (key[1], p))
        elif p in ("self",):
            ctx.ok(R, cg.funcs[key], label, "the samples *object* is written into the cache; no path involved", nontrivial=False)
        else:
            ctx.violate(R, node, label, "a value supplied by the caller of a sampling function (the user's prior-samples file) can be modified or deleted",
                        key="wp:%s:%s" % (key[1], p))
    ctx.floor(R, n_prim, 8)


def check_state(ctx):
    R = "C13-STATE"
    ctx.rule(R, "no TheJoker method other than __init__ stores to self.* (nothing survives a failed call); each sampling method builds its helper afresh.")
    m = ctx.prog.module(TJ)
    n = 0
    for q, f in sorted(m.functions.items()):
        if not q.startswith("TheJoker.") or q == "TheJoker.__init__":
            continue
        n += 1
        stores = [s for s in A.walk_local(f) if isinstance(s, ast.Attribute) and isinstance(s.ctx, (ast.Store, ast.Del)) and dotted(s.value) == "self"]
        stores += [c for c in A.calls_in(f) if A.call_name(c) in ("setattr", "self.__dict__.update", "self.__setattr__")]
        ctx.check(R, f, "%s writes no sampler state" % q, not stores,
                  "stores to `%s`: state survives (or is corrupted by) a failed call" % (A.unparse(stores[0]) if stores else ""), key="state:" + q)
    ctx.floor(R, n, 6)


def check_pool(ctx, cg, reach):
    R = "C13-POOL"
    ctx.rule(R, "the processing pool belongs to the caller: on sampler paths it is only ever used through .map() (and the .size attribute) - "
                "never closed, terminated, joined or entered as a context manager, so a failed call leaves the same TheJoker usable.")
    n = 0
    for key in sorted(reach):
        fn = cg.funcs[key]
        for node in A.walk_local(fn):
            if isinstance(node, ast.Call) and isinstance(node.func, ast.Attribute) and canon(node.func.value) in ("pool", "self.pool"):
                n += 1
                ctx.check(R, node, "pool use `%s` in %s" % (A.unparse(node.func), key[1]), node.func.attr in ("map",),
                          "calls pool.%s(): shuts down or alters the caller's pool, so later calls on the same TheJoker fail" % node.func.attr,
                          key="pool:%s:%s" % (key[1], node.func.attr))
            if isinstance(node, (ast.With, ast.AsyncWith)):
                for it in node.items:
                    if canon(it.context_expr) in ("pool", "self.pool"):
                        n += 1
                        ctx.violate(R, node, "`with pool` in %s" % key[1], "entering the pool as a context manager closes it on exit", key="pool-with:" + key[1])
    ctx.floor(R, n, 1)


def check_single_file(ctx):
    R = "C13-ONEFILE"
    ctx.rule(R, "JokerSamples.write creates exactly the file it is asked to write: the `output` parameter reaches write_table_hdf5 / Table.write unchanged and the method neither "
                "renames, moves nor copies files (the temp-file wrapper removes only the name it created; a side file such as `<name>.part` left by a failing write would "
                "never be cleaned up).")
    wf = ctx.prog.func("thejoker.samples", "JokerSamples.write", R)
    fl = A.Flow(wf)
    n = 0
    for c in A.calls_in(wf):
        nm = A.call_name(c) or ""
        if nm == "write_table_hdf5":
            tgt = A.get_arg(c, 1, "output")
        elif A.last_attr(c) == "write" and c.args and not nm.startswith(("self.", "logger.")):
            tgt = c.args[0]
        else:
            tgt = None
        if tgt is not None:
            n += 1
            r = fl.resolve(tgt, at=A.enclosing_stmt(c))
            leaves = {canon(x) for x in A.strip_ifexp(r)}
            ctx.check(R, c, "`%s(...)` writes to the file name it was given" % (nm or A.last_attr(c)), leaves == {"output"},
                      "writes to `%s`, not to the `output` argument itself" % sorted(leaves), key="target:" + (nm or A.last_attr(c)))
        if nm in ("os.replace", "os.rename", "shutil.move", "shutil.copy", "shutil.copyfile", "shutil.copy2", "os.link", "os.symlink"):
            ctx.violate(R, c, "no file is renamed / moved / copied", "`%s`: a second file name is involved in writing the samples" % A.unparse(c)[:70], key="move:" + nm)
    ctx.floor(R, n, 2)


PICKLE_FIXTURE = """
class BadErr(RuntimeError):
    def __init__(self, filename, err):
        super().__init__(f"{filename}: {err}")
        self.filename = filename

class GoodErr(RuntimeError):
    def __init__(self, filename, err):
        super().__init__(filename, err)

class PlainErr(ValueError):
    pass

class ReduceErr(RuntimeError):
    def __init__(self, filename, err):
        super().__init__("x")
    def __reduce__(self):
        return (ReduceErr, ("a", "b"))
"""

BUILTIN_EXC = {"BaseException", "Exception", "RuntimeError", "ValueError", "TypeError", "KeyError", "IndexError", "OSError", "IOError", "ArithmeticError", "LookupError",
               "AttributeError", "NotImplementedError", "StopIteration", "AssertionError", "FloatingPointError", "ZeroDivisionError", "OverflowError", "Warning", "UserWarning",
               "DeprecationWarning", "RuntimeWarning", "FileNotFoundError", "PermissionError", "TimeoutError", "MemoryError", "EOFError", "ImportError", "UnicodeError"}


def exception_classes(trees):
    """ClassDefs that derive (by name, transitively inside the given trees) from an exception type"""
    classes = {}
    for t in trees:
        for n in ast.walk(t):
            if isinstance(n, ast.ClassDef):
                classes[n.name] = n
    exc = set()
    changed = True
    while changed:
        changed = False
        for name, c in classes.items():
            if name in exc:
                continue
            for b in c.bases:
                bn = (dotted(b) or "").split(".")[-1]
                if bn in BUILTIN_EXC or bn in exc or bn.endswith(("Error", "Exception", "Warning")):
                    exc.add(name)
                    changed = True
                    break
    return [classes[n] for n in sorted(exc)]


def unpicklable_reason(c):
    """None if instances of exception class c survive pickle.loads(pickle.dumps(e)) (BaseException.__reduce__ = (cls, self.args)), else why not"""
    meths = {m.name: m for m in c.body if isinstance(m, ast.FunctionDef)}
    if "__reduce__" in meths or "__reduce_ex__" in meths or "__getnewargs__" in meths or "__getstate__" in meths and "__setstate__" in meths and "__init__" not in meths:
        return None
    init = meths.get("__init__")
    if init is None:
        return None
    a = init.args
    pos = (a.posonlyargs + a.args)[1:]
    n_req = len(pos) - len(a.defaults) if len(a.defaults) <= len(pos) else 0
    n_max = None if a.vararg else len(pos)
    kwreq = [k.arg for k, d in zip(a.kwonlyargs, a.kw_defaults) if d is None]
    sup = [n for n in ast.walk(init) if isinstance(n, ast.Call) and isinstance(n.func, ast.Attribute) and n.func.attr == "__init__"
           and ((isinstance(n.func.value, ast.Call) and isinstance(n.func.value.func, ast.Name) and n.func.value.func.id == "super") or isinstance(n.func.value, ast.Name))]
    if not sup:
        # BaseException.__new__ keeps the constructor arguments as .args
        return "required keyword-only arguments %s are not part of .args" % kwreq if kwreq else None
    for call in sup:
        if any(isinstance(x, ast.Starred) for x in call.args):
            continue
        n = len(call.args)
        if n < n_req or (n_max is not None and n > n_max) or kwreq:
            return ("__init__ takes %s positional argument(s)%s but passes %d to the base class: .args has %d element(s), so un-pickling calls %s(*args) with the wrong number of "
                    "arguments (TypeError in the parent's result-handler thread: the pool hangs instead of re-raising)") % (
                        ("%d" % n_req) if n_max == n_req else "%d..%s" % (n_req, n_max if n_max is not None else "*"), " and keyword-only %s" % kwreq if kwreq else "", n, n, c.name)
    return None


def check_pickle(ctx):
    R = "C13-PICKLE"
    ctx.rule(R, "every exception class defined in the package survives the pickle round trip a multi-process pool applies to a worker's exception: either it keeps the default "
                "constructor, defines its own __reduce__, or its __init__ hands the base class as many positional arguments as it requires itself (BaseException.__reduce__ "
                "rebuilds the object as cls(*self.args)).")
    ft = ast.parse(PICKLE_FIXTURE)
    fx = {c.name: unpicklable_reason(c) for c in exception_classes([ft])}
    if not (fx.get("BadErr") and fx.get("GoodErr") is None and fx.get("PlainErr") is None and fx.get("ReduceErr") is None and len(fx) == 4):
        ctx.incomplete_(R, "fixture", "the pickle-round-trip scanner no longer separates the positive and negative fixtures: %s" % fx)
    n = 0
    for c in exception_classes([m.tree for m in ctx.prog.modules.values()]):
        n += 1
        why = unpicklable_reason(c)
        ctx.check(R, c, "exception class %s survives pickling" % c.name, why is None, why or "", key="pickle:" + c.name)
    ctx.ok(R, ("thejoker", 1, "thejoker.<package>"), "exception classes defined in the package: %d, all picklable" % n, nontrivial=False)


LOCK_FIXTURE = """
import threading
_g = threading.Lock()
def bad(x):
    if not _g.acquire(blocking=False):
        raise RuntimeError("busy")
    y = work(x)
    _g.release()
    return y
def good(x):
    _g.acquire()
    try:
        return work(x)
    finally:
        _g.release()
"""


def unreleased_acquires(fn):
    """`X.acquire(...)` calls of fn that are not followed (same block or an enclosing one, later in document order) by a try whose `finally` releases X; a `with X:`
    needs no release"""
    out = []
    for c in A.calls_in(fn):
        if not (isinstance(c.func, ast.Attribute) and c.func.attr == "acquire"):
            continue
        recv = canon(c.func.value)
        st = A.enclosing_stmt(c)
        ok = False
        for t in A.walk_local(fn):
            if isinstance(t, ast.Try) and t.finalbody and A.doc_index(t) > A.doc_index(st):
                rel = [x for s_ in t.finalbody for x in A.calls_in(s_) if isinstance(x.func, ast.Attribute) and x.func.attr == "release" and canon(x.func.value) == recv]
                if rel:
                    # nothing that can fail may sit between the acquire and the try
                    blk = A.block_of(t)
                    between = [s_ for s_ in (blk[2][:blk[3]] if blk else []) if A.doc_index(s_) > A.doc_index(st)]
                    if not any(A.calls_in(s_) for s_ in between):
                        ok = True
        if not ok:
            out.append((c, recv))
    return out


def check_locks(ctx):
    R = "C13-LOCK"
    ctx.rule(R, "resource typestate: a lock / semaphore acquired with `.acquire()` anywhere in the package is released in a `finally` that starts right after the acquisition "
                "(or is used as a context manager): a failing read must not leave the guard held, or every later call in this process fails.")
    from ..loader import _link
    ft = ast.parse(LOCK_FIXTURE)
    _link(ft, None)
    fx = {f.name: unreleased_acquires(f) for f in ft.body if isinstance(f, ast.FunctionDef)}
    if not fx.get("bad") or fx.get("good"):
        ctx.incomplete_(R, "fixture", "the acquire/release scanner no longer separates the positive from the negative fixture")
    n = 0
    for mn, q, fn in ctx.prog.all_functions():
        for f in ctx.prog.modules[mn].all_functions.get(q, [fn]):
            n += 1
            for c, recv in unreleased_acquires(f):
                ctx.violate(R, c, "`%s` in %s is released on every exit" % (A.unparse(c)[:50], q),
                            "`%s.acquire()` is not paired with a try/finally release: an exception between acquire and release leaves it held for the life of the process" % recv, key="lock:%s:%s" % (q, recv))
    ctx.ok(R, ("thejoker", 1, "thejoker.<package>"), "no unpaired acquire in %d functions" % n, nontrivial=False)


def run(ctx):
    check_locks(ctx)
    cg = CallGraph(ctx.prog)
    for e in ENTRY:
        ctx.prog.func(e[0], e[1], "C13-ENTRY")
    reach = cg.reachable(ENTRY)
    check_tmp(ctx)
    check_swallow(ctx, cg, reach)
    check_ro(ctx, cg, reach)
    check_write(ctx, cg, reach)
    check_state(ctx)
    check_pool(ctx, cg, reach)
    check_pickle(ctx)
    check_single_file(ctx)
    ctx.notes.append({"call_sites_resolved": cg.resolved, "call_sites_external": cg.external})
    ctx.assume("tables.open_file(mode='r') and h5py.File(mode='r') never modify the file; os.unlink removes it")
    ctx.assume("exceptions raised inside pool workers are re-raised by pool.map in the parent (schwimmbad / multiprocessing contract)")
