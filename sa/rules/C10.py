"""C10 - seeded runs are reproducible; randomness is confined to the given generator."""
import ast

from .. import astutil as A
from ..norm import canon, parse, dotted
from ..loader import AnalysisIncomplete

MP = "thejoker.multiproc_helpers"
LH = "thejoker.likelihood_helpers"
TJ = "thejoker.thejoker"
UT = "thejoker.utils"
PR = "thejoker.prior"
FL = "thejoker.src.fast_likelihood"

NEW_API = {"default_rng", "Generator", "PCG64", "PCG64DXSM", "SeedSequence", "BitGenerator", "MT19937", "Philox", "SFC64", "RandomState"}
DRAW_METHODS = {"uniform", "normal", "choice", "multivariate_normal", "random", "integers", "shuffle", "permutation", "permuted",
                "standard_normal", "beta", "gamma", "exponential", "poisson", "binomial", "lognormal", "standard_t", "rand", "randn",
                "randint", "random_sample", "bytes", "triangular", "dirichlet", "laplace", "logistic", "rayleigh", "vonmises", "weibull"}
TENSOR_PREFIXES = ("pt.", "pm.", "pytensor.", "pymc.", "tt.")

FIXTURE = """
import numpy as np
import random
def f(n):
    np.random.seed(0)
    return np.random.uniform(size=n) + random.random()
"""


def global_uses(tree, allow_in=()):
    """[(node, text)] uses of numpy's legacy global RNG API or stdlib random."""
    out = []
    np_alias, npr_alias, std_random, direct = {"numpy"}, set(), set(), {}
    for n in ast.walk(tree):
        if isinstance(n, ast.Import):
            for a in n.names:
                if a.name == "numpy":
                    np_alias.add(a.asname or "numpy")
                elif a.name == "numpy.random":
                    if a.asname:
                        npr_alias.add(a.asname)
                    else:
                        np_alias.add("numpy")
                elif a.name == "random":
                    std_random.add(a.asname or "random")
        elif isinstance(n, ast.ImportFrom):
            if n.module == "numpy":
                for a in n.names:
                    if a.name == "random":
                        npr_alias.add(a.asname or "random")
            elif n.module == "numpy.random":
                for a in n.names:
                    if a.name not in NEW_API:
                        direct[a.asname or a.name] = "numpy.random." + a.name
                        out.append((n, "from numpy.random import %s" % a.name))
            elif n.module == "random":
                for a in n.names:
                    direct[a.asname or a.name] = "random." + a.name
                    out.append((n, "from random import %s" % a.name))
    for n in ast.walk(tree):
        if isinstance(n, ast.Attribute):
            d = dotted(n)
            if not d:
                continue
            parts = d.split(".")
            hit = None
            if len(parts) >= 3 and parts[0] in np_alias and parts[1] == "random" and parts[2] not in NEW_API:
                hit = d
            elif len(parts) >= 2 and parts[0] in npr_alias and parts[1] not in NEW_API:
                hit = d
            elif len(parts) >= 2 and parts[0] in std_random and not isinstance(A.parent(n), ast.Attribute):
                hit = d
            if hit and not (isinstance(A.parent(n), ast.Attribute)):
                fn = A.enclosing_function(n)
                if fn is not None and A.qualname(fn) in allow_in:
                    continue
                out.append((n, hit))
        elif isinstance(n, ast.Name) and isinstance(n.ctx, ast.Load) and n.id in direct:
            out.append((n, direct[n.id]))
    return out


def check_global(ctx):
    R = "C10-GLOBAL"
    ctx.rule(R, "who-may-call over the whole package: no use of numpy's legacy global RNG API (np.random.<anything but the Generator/BitGenerator constructors>) "
                "or of the stdlib random module outside utils.rng_context, and rng_context itself has zero callers.")
    # positive fixture: the scanner must fire on a known-bad snippet on every run
    ft = ast.parse(FIXTURE)
    from ..loader import _link
    _link(ft, None)
    if len(global_uses(ft)) < 3:
        ctx.incomplete_(R, "fixture", "scanner no longer fires on the positive fixture")
    n = 0
    for mn, m in sorted(ctx.prog.modules.items()):
        uses = global_uses(m.tree, allow_in=("rng_context",) if mn == UT else ())
        n += 1
        if uses:
            for node, text in uses:
                ctx.violate(R, node, "global RNG use `%s`" % text, "reads or changes the process-wide random state instead of the generator that was passed in", key="use:" + text)
        else:
            ctx.ok(R, (m.relpath, 1, mn + ".<module>"), "no global RNG use in %s" % mn, nontrivial=False)
        for c in A.calls_in(m.tree, local=False):
            d = A.call_name(c) or ""
            if d.split(".")[-1] == "rng_context":
                ctx.violate(R, c, "call of rng_context", "rng_context swaps numpy's global bit generator: sampling would read and change global random state", key="rng_context-call")
    ctx.floor(R, n, 15)


# ---------------------------------------------------------------------------
# provenance of generator-valued expressions
# ---------------------------------------------------------------------------

def _is_default_rng(c):
    return isinstance(c, ast.Call) and (A.call_name(c) or "").split(".")[-1] == "default_rng"


def classify(expr, fn, task_rng=None, depth=0):
    """tags describing where a generator-valued (already resolved) expression comes from."""
    tags = set()
    for leaf in A.strip_ifexp(expr):
        tags |= _classify_leaf(leaf, fn, task_rng, depth)
    return tags


def _classify_leaf(e, fn, task_rng, depth):
    params = A.param_names(fn) if fn is not None else []
    if isinstance(e, ast.Name):
        base = e.id.split("@")[0]
        if base in ("rng", "random_state") and base in params:
            return {"param"}
        if task_rng and base == task_rng:
            return {"task"}
        if base in params:
            return {"other-param:" + base}
        return {"other:" + e.id}
    d = dotted(e)
    if d == "self.rng":
        return {"self.rng"}
    if isinstance(e, ast.Constant) and e.value is None:
        return {"none"}
    if isinstance(e, ast.Call):
        name = (A.call_name(e) or "").split(".")[-1]
        if name in ("default_rng", "Generator", "PCG64", "PCG64DXSM", "SeedSequence", "RandomState", "MT19937", "Philox", "SFC64"):
            args = list(e.args) + [k.value for k in e.keywords]
            if not args:
                return {"fresh-unseeded"}
            sub = set()
            for a in args:
                sub |= classify(a, fn, task_rng, depth + 1)
            if sub <= {"param", "self.rng", "task", "derived", "spawned"}:
                return {"derived"}
            if all(isinstance(a, ast.Constant) for a in args):
                return {"fresh-constant-seed"}
            return {"fresh-seeded:" + ",".join(sorted(sub))}
    if isinstance(e, ast.Subscript) and isinstance(e.value, ast.Name) and fn is not None and A.qualname(fn).endswith("_worker") \
            and params[:1] == [e.value.id] and isinstance(e.slice, ast.Constant):
        n_unpacked = None
        for s in fn.body:
            if isinstance(s, ast.Assign) and canon(s.value) == params[0] and isinstance(s.targets[0], (ast.Tuple, ast.List)):
                n_unpacked = len(s.targets[0].elts)
        if n_unpacked is not None and e.slice.value == n_unpacked - 1:
            return {"task"}
        return {"other:task[%s]" % e.slice.value}
    if isinstance(e, ast.Subscript):
        # element of a spawned SeedSequence list: sg[i]
        inner = classify(e.value, fn, task_rng, depth + 1)
        if inner <= {"spawned"}:
            return {"spawned"}
        return {"other:" + A.unparse(e)}
    if isinstance(e, ast.Call) and A.last_attr(e) == "spawn":
        recv = e.func.value if isinstance(e.func, ast.Attribute) else None
        if recv is not None and _root_tags(recv, fn, task_rng) <= {"param", "self.rng", "task"}:
            return {"spawned"}
    if isinstance(e, ast.Attribute):
        # rng.bit_generator... : derived from root
        rt = _root_tags(e, fn, task_rng)
        if rt <= {"param", "self.rng", "task"}:
            return {"derived"}
    return {"other:" + A.unparse(e)[:60]}


def _root_tags(e, fn, task_rng):
    while isinstance(e, (ast.Attribute, ast.Subscript)) and dotted(e) != "self.rng":
        e = e.value
    return _classify_leaf(e, fn, task_rng, 9)


GOOD = {"param", "self.rng", "task", "derived"}


def _fallback_ok(fn, mod):
    return (mod, A.qualname(fn)) in {(TJ, "TheJoker.__init__"), (UT, "read_random_batch")}


def worker_task_rng(fn):
    """name bound to the generator position of a pool worker's task tuple (role based)."""
    ps = A.param_names(fn)
    if len(ps) != 1:
        return None
    for s in fn.body:
        if isinstance(s, ast.Assign) and canon(s.value) == ps[0] and isinstance(s.targets[0], (ast.Tuple, ast.List)):
            names = [canon(e) for e in s.targets[0].elts]
            # producer layout: generator is appended last by run_worker
            return names[-1] if names else None
    return None


def draw_sites(fn):
    out = []
    for c in A.calls_in(fn):
        if isinstance(c.func, ast.Attribute) and c.func.attr in DRAW_METHODS:
            d = dotted(c.func.value)
            if d is not None and (d + ".").startswith(TENSOR_PREFIXES):
                continue
            if d in ("np.random", "numpy.random", "random", "np", "numpy", "math", "u", "warnings"):
                continue
            out.append((c, c.func.value, "method"))
        if (A.call_name(c) or "") in ("pm.draw", "pymc.draw", "pm.sample_prior_predictive"):
            out.append((c, A.get_arg(c, None, "random_seed"), "pm.draw"))
    return out


def check_prov(ctx):
    R = "C10-PROV"
    ctx.rule(R, "every draw site (a Generator method call, or pm.draw(random_seed=...)) takes its generator from the enclosing function's "
                "`rng` parameter, from self.rng, or from the task element filled by run_worker; an unseeded default_rng() is allowed only as "
                "the documented `rng is None` fall-back of TheJoker.__init__ and read_random_batch.")
    n = 0
    flows = {}
    for mn, q, fn in ctx.prog.all_functions():
        if mn == UT and q == "rng_context":
            continue
        mod = ctx.prog.modules[mn]
        fns = mod.all_functions.get(q, [fn])
        for f in fns:
            sites = draw_sites(f)
            if not sites:
                continue
            flow = A.Flow(f)
            trng = worker_task_rng(f) if q.endswith("_worker") else None
            for call, recv, kind in sites:
                n += 1
                label = "draw `%s`" % A.unparse(call)[:70]
                if recv is None:
                    ctx.violate(R, call, label, "pm.draw without random_seed draws from an unseeded generator", key="nodseed:" + q)
                    continue
                r = flow.resolve(recv, at=A.enclosing_stmt(call))
                tags = classify(r, f, trng)
                bad = tags - GOOD
                if bad == {"fresh-unseeded"} and _fallback_ok(f, mn) and _fallback_guarded(r):
                    ctx.ok(R, call, label, "generator = rng parameter, with the documented default_rng() fall-back when rng is None", facts=sorted(tags))
                elif bad == {"none"} and kind == "pm.draw" and "param" in tags:
                    ctx.ok(R, call, label, "random_seed is the rng parameter", facts=sorted(tags))
                elif not bad:
                    ctx.ok(R, call, label, "generator provenance %s" % sorted(tags), facts=sorted(tags))
                else:
                    ctx.violate(R, call, label, "generator `%s` has provenance %s, not the rng handed to the sampler" % (A.unparse(recv), sorted(tags)),
                                key="prov:%s:%s" % (q, call.func.attr if isinstance(call.func, ast.Attribute) else "draw"))
    ctx.floor(R, n, 10)   # (11 on the tree the rule was written for: the duplicated pymc-version branch counts once)
    # fresh generators anywhere else
    R2 = "C10-FRESH"
    ctx.rule(R2, "no generator is constructed from nothing or from a constant seed anywhere in the package except the two documented `rng is None` fall-backs.")
    k = 0
    for mn, q, fn in ctx.prog.all_functions():
        for f in ctx.prog.modules[mn].all_functions.get(q, [fn]):
            for c in A.calls_in(f):
                name = (A.call_name(c) or "").split(".")[-1]
                if name in ("default_rng", "RandomState", "PCG64", "PCG64DXSM", "MT19937", "Philox", "SFC64", "SeedSequence"):
                    if name != "default_rng" and isinstance(A.parent(c), ast.Call) and c in A.parent(c).args and \
                            (A.call_name(A.parent(c)) or "").split(".")[-1] in ("Generator", "default_rng"):
                        pass  # judged at the inner constructor (this one)
                    k += 1
                    flow = flows.setdefault(id(f), A.Flow(f))
                    tags = classify(flow.resolve(A.elementwise(c), at=A.enclosing_stmt(c)), f, None)
                    if tags <= {"derived"}:
                        ctx.ok(R2, c, "`%s`" % A.unparse(c), "seeded from the passed generator")
                    elif tags == {"fresh-unseeded"} and _fallback_ok(f, mn) and _under_none_guard(c):
                        ctx.ok(R2, c, "`%s`" % A.unparse(c), "documented fall-back under `rng is None`")
                    else:
                        ctx.violate(R2, c, "`%s`" % A.unparse(c), "constructs a generator with provenance %s" % sorted(tags), key="fresh:%s:%s" % (q, canon(c)))
    ctx.floor(R2, k, 2)


def _under_none_guard(node):
    for t, pol in A.guards_of(node):
        c = canon(t)
        if pol and c in (canon(parse("rng is None")),):
            return True
    return False


def _fallback_guarded(resolved):
    if isinstance(resolved, ast.IfExp):
        return canon(resolved.test) == canon(parse("rng is None")) and _is_default_rng(resolved.body)
    return False


# ---------------------------------------------------------------------------
# forwarding
# ---------------------------------------------------------------------------

def needs_rng_table(prog):
    """function name -> (module, fn, rng parameter name | 'task') for functions that can reach a draw."""
    table = {}
    changed = True
    funcs = [(mn, q, f) for mn, q, fn in prog.all_functions() for f in prog.modules[mn].all_functions.get(q, [fn])]
    while changed:
        changed = False
        for mn, q, f in funcs:
            short = q.split(".")[-1]
            if short in table or (mn == UT and q == "rng_context"):
                continue
            params = A.param_names(f)
            trng = worker_task_rng(f) if q.endswith("_worker") else None
            reach = bool(draw_sites(f)) or any(A.last_attr(c) == "spawn" for c in A.calls_in(f))
            if not reach:
                for c in A.calls_in(f):
                    nm = A.last_attr(c)
                    if nm in table and nm != short:
                        cmod, cf, how = table[nm]
                        if how == "rng":
                            skip_self = A.param_names(cf)[:1] in (["self"], ["cls"]) and isinstance(c.func, ast.Attribute)
                            b = A.bind_call(c, cf, skip_self=skip_self)
                            if b is not None and b.get("rng") is None:
                                continue  # no generator forwarded here (judged at the call site by C10-FWD)
                        reach = True
                        break
            if reach:
                if "rng" in params:
                    table[short] = (mn, f, "rng")
                    changed = True
                elif trng:
                    table[short] = (mn, f, "task")
                    changed = True
    return table


def check_fwd(ctx):
    R = "C10-FWD"
    ctx.rule(R, "every internal call of a function that can reach a draw site (it draws, or forwards its rng to one that does) binds that "
                "function's rng parameter to a generator derived from the caller's rng parameter / self.rng / task generator; run_worker must be given "
                "rng= exactly when the mapped worker draws; read_batch needs no rng when its row selector is statically not an int.")
    table = needs_rng_table(ctx.prog)
    ctx.notes.append({"functions_that_can_reach_a_draw": sorted(table)})
    n = 0
    for mn, q, fn in ctx.prog.all_functions():
        for f in ctx.prog.modules[mn].all_functions.get(q, [fn]):
            short = q.split(".")[-1]
            calls = [c for c in A.calls_in(f) if A.last_attr(c) in table and A.last_attr(c) != short]
            if not calls:
                continue
            flow = A.Flow(f)
            trng = worker_task_rng(f) if q.endswith("_worker") else None
            for c in calls:
                callee = A.last_attr(c)
                cmod, cf, how = table[callee]
                if callee in ("sample",) and not _is_prior_sample(c):
                    continue
                if callee == "rng_fn":
                    continue
                if how != "rng":
                    continue
                n += 1
                skip_self = A.param_names(cf)[:1] in (["self"], ["cls"]) and isinstance(c.func, ast.Attribute)
                b = A.bind_call(c, cf, skip_self=skip_self)
                label = "call `%s(...)` in %s" % (callee, q)
                if b is None:
                    ctx.undecided(R, c, label, "argument binding hidden behind * / **")
                    continue
                arg = b.get("rng")
                if callee == "read_batch" and arg is None:
                    sel = b.get("slice_or_idx")
                    selr = flow.resolve(sel, at=A.enclosing_stmt(c)) if sel is not None else None
                    if selr is not None and _static_non_int(selr, f):
                        ctx.ok(R, c, label, "row selector `%s` is statically a range / index array: the drawing branch is the int one" % A.unparse(sel))
                        continue
                if callee == "run_worker":
                    w = b.get("worker")
                    wname = canon(w) if w is not None else None
                    wneeds = wname in table and table[wname][2] == "task"
                    if not wneeds:
                        ctx.check(R, c, label, True, "", "mapped worker `%s` does not draw" % wname)
                        continue
                if arg is None:
                    ctx.violate(R, c, label, "`%s` can reach a draw site but is called without rng: it falls back to an unseeded generator" % callee,
                                key="missing:%s:%s" % (q, callee))
                    continue
                tags = classify(flow.resolve(arg, at=A.enclosing_stmt(c)), f, trng)
                bad = tags - GOOD
                if bad == {"fresh-unseeded"} and _fallback_ok(f, mn):
                    bad = set()
                ctx.check(R, c, label, not bad, "rng argument `%s` has provenance %s" % (A.unparse(arg), sorted(tags)),
                          "rng argument provenance %s" % sorted(tags), key="arg:%s:%s" % (q, callee))
    ctx.floor(R, n, 12)
    # self.rng is only ever the constructor's rng
    R3 = "C10-SELFRNG"
    ctx.rule(R3, "TheJoker.rng is assigned only in __init__, from the rng parameter (or its documented fall-back).")
    m = ctx.prog.module(TJ)
    k = 0
    for q, f in sorted(m.functions.items()):
        if not q.startswith("TheJoker."):
            continue
        flow = None
        for s in A.walk_local(f):
            if isinstance(s, (ast.Assign, ast.AugAssign)):
                tgts = s.targets if isinstance(s, ast.Assign) else [s.target]
                for t in tgts:
                    if dotted(t) == "self.rng":
                        k += 1
                        flow = flow or A.Flow(f)
                        tags = classify(flow.resolve(s.value, at=s), f, None)
                        good = q == "TheJoker.__init__" and tags <= {"param", "fresh-unseeded"} and "param" in tags
                        ctx.check(R3, s, "store to self.rng in %s" % q, good, "self.rng assigned from %s" % sorted(tags), key="store:" + q)
    ctx.floor(R3, k, 1)


def _is_prior_sample(c):
    f = c.func
    return isinstance(f, ast.Attribute) and f.attr == "sample" and (dotted(f.value) or "").split(".")[-1] in ("prior",)


def _static_non_int(e, fn):
    trows = None
    if A.qualname(fn).endswith("_worker"):
        for s in fn.body:
            if isinstance(s, ast.Assign) and isinstance(s.targets[0], (ast.Tuple, ast.List)) and canon(s.value) == A.param_names(fn)[0]:
                trows = canon(s.targets[0].elts[0])
    if isinstance(e, ast.Subscript) and isinstance(e.slice, ast.Constant) and e.slice.value == 0 and canon(e.value) == A.param_names(fn)[0]:
        return True  # task[0]: rows element of the producer layout
    if isinstance(e, ast.Name) and trows and e.id == trows:
        return True
    if isinstance(e, ast.Call) and (A.call_name(e) or "") == "slice":
        return True
    if isinstance(e, ast.Tuple):
        return True
    return False


def _attachment(fn):
    """The statement that gives every task its generator.  Returns
    (stmt, task-list name, base-is-the-same-task, generator expr, child_of(inner) -> (source seq, same index?, text), covers-all?, why)
    for the forms
        for i in range(len(T)): T[i] = <T[i]> + (gen(C[i]),)
        for i, c in enumerate(C) / for i, (t, c) in enumerate(zip(T, C)): T[i] = <t | T[i]> + (gen(c),)
        T = [<t> + (gen(c),) for t, c in zip(T, C)]"""
    def split(v, task_exprs):
        # v = base + (gen,)   (tuple(base) / list(base) wrappers allowed)
        if not (isinstance(v, ast.BinOp) and isinstance(v.op, ast.Add) and isinstance(v.right, (ast.Tuple, ast.List)) and len(v.right.elts) == 1):
            return None
        left = v.left
        if isinstance(left, ast.Call) and A.call_name(left) in ("tuple", "list") and len(left.args) == 1:
            left = left.args[0]
        return canon(left) in task_exprs, v.right.elts[0]

    for s in A.walk_local(fn):
        # rebuilt list
        if isinstance(s, ast.Assign) and isinstance(s.targets[0], ast.Name) and isinstance(s.value, ast.ListComp) and len(s.value.generators) == 1 and not s.value.generators[0].ifs:
            g = s.value.generators[0]
            T = s.targets[0].id
            if isinstance(g.iter, ast.Call) and A.call_name(g.iter) == "zip" and len(g.iter.args) == 2 and canon(g.iter.args[0]) == T \
                    and isinstance(g.target, ast.Tuple) and len(g.target.elts) == 2 and all(isinstance(e, ast.Name) for e in g.target.elts):
                tv, cv = g.target.elts[0].id, g.target.elts[1].id
                r = split(s.value.elt, {tv})
                if r is None:
                    continue
                C = g.iter.args[1]

                def child_of(inner, cv=cv, C=C):
                    ok = isinstance(inner, ast.Name) and inner.id == cv
                    return C, ok, "task receives `%s`, not its own element of the zipped child sequence" % A.unparse(inner)
                return s, T, r[0], r[1], child_of, True, ""
        # rebuilt list over positions: T = [<T[i]> + (gen(C[i]),) for i in range(len(T))]
        if isinstance(s, ast.Assign) and isinstance(s.targets[0], ast.Name) and isinstance(s.value, ast.ListComp) and len(s.value.generators) == 1 and not s.value.generators[0].ifs:
            g = s.value.generators[0]
            T = s.targets[0].id
            if isinstance(g.target, ast.Name) and canon(g.iter) == canon(parse("range(len(%s))" % T)):
                idx = g.target.id
                r = split(s.value.elt, {canon(parse("%s[%s]" % (T, idx)))})
                if r is not None:
                    def child_of(inner, idx=idx):
                        if isinstance(inner, ast.Subscript):
                            return inner.value, canon(inner.slice) == idx, "task %s receives child [%s]" % (idx, canon(inner.slice))
                        return None, False, "task %s receives `%s`" % (idx, A.unparse(inner))
                    return s, T, r[0], r[1], child_of, True, ""
        # indexed store in a loop
        if isinstance(s, ast.Assign) and isinstance(s.targets[0], ast.Subscript) and isinstance(s.targets[0].value, ast.Name) and isinstance(s.targets[0].slice, ast.Name):
            T = s.targets[0].value.id
            idx = s.targets[0].slice.id
            loop = A.enclosing(s, (ast.For,))
            if loop is None:
                continue
            it, tg = loop.iter, loop.target
            task_exprs = {canon(parse("%s[%s]" % (T, idx)))}
            child_names = {}
            covers = False
            if isinstance(tg, ast.Name) and tg.id == idx and canon(it) == canon(parse("range(len(%s))" % T)):
                covers = True
            elif isinstance(it, ast.Call) and A.call_name(it) == "enumerate" and len(it.args) == 1 and isinstance(tg, ast.Tuple) and len(tg.elts) == 2 \
                    and isinstance(tg.elts[0], ast.Name) and tg.elts[0].id == idx:
                inner_it, inner_t = it.args[0], tg.elts[1]
                if isinstance(inner_it, ast.Call) and A.call_name(inner_it) == "zip" and isinstance(inner_t, ast.Tuple) and len(inner_t.elts) == len(inner_it.args):
                    for a, t in zip(inner_it.args, inner_t.elts):
                        if isinstance(t, ast.Name):
                            if canon(a) == T:
                                task_exprs.add(t.id)
                                covers = True
                            else:
                                child_names[t.id] = a
                elif isinstance(inner_t, ast.Name):
                    if canon(inner_it) == T:
                        task_exprs.add(inner_t.id)
                        covers = True
                    else:
                        child_names[inner_t.id] = inner_it
                        covers = None   # covers iff the enumerated sequence has one element per task: it is the spawn(len(T)) result (checked by spawn-n / child-src)
            else:
                continue
            r = split(s.value, task_exprs)
            if r is None:
                continue

            def child_of(inner, idx=idx, child_names=child_names):
                if isinstance(inner, ast.Subscript):
                    return inner.value, canon(inner.slice) == idx, "task %s receives child [%s]" % (idx, canon(inner.slice))
                if isinstance(inner, ast.Name) and inner.id in child_names:
                    return child_names[inner.id], True, ""
                return None, False, "task %s receives `%s`" % (idx, A.unparse(inner))
            return s, T, r[0], r[1], child_of, covers is not False, "the loop around `%s` does not visit every task index" % A.unparse(s)[:60]
    return None


ORDER_FIXTURE = """
def f(pars, rng):
    names = set(pars)
    sub = {k: pars[k] for k in names}
    return pm.draw(list(sub.values()), random_seed=rng)
def g(pars, rng):
    sub = {k: pars[k] for k in pars}
    return pm.draw(list(sub.values()), random_seed=rng)
"""


def _unordered_sources(fn):
    """expressions whose iteration order is not determined by the program's inputs (sets of strings iterate in hash order, which changes with PYTHONHASHSEED):
    for / comprehension iterables that are a set()/frozenset() call, a set display / comprehension, a set operation on them, or a local bound to one."""
    flow = A.Flow(fn)
    out = []

    def is_set(e, depth=0):
        if isinstance(e, (ast.Set, ast.SetComp)):
            return True
        if isinstance(e, ast.Call) and isinstance(e.func, ast.Name) and e.func.id in ("set", "frozenset"):
            return True
        if isinstance(e, ast.Call) and isinstance(e.func, ast.Attribute) and e.func.attr in ("union", "intersection", "difference", "symmetric_difference") and is_set(e.func.value, depth + 1):
            return True
        if isinstance(e, ast.BinOp) and isinstance(e.op, (ast.BitOr, ast.BitAnd, ast.Sub, ast.BitXor)) and (is_set(e.left, depth + 1) or is_set(e.right, depth + 1)):
            return True
        if isinstance(e, ast.IfExp):
            return is_set(e.body, depth + 1) or is_set(e.orelse, depth + 1)
        return False
    for n in A.walk_local(fn):
        its = []
        if isinstance(n, ast.For):
            its.append((n.iter, n))
        elif isinstance(n, (ast.ListComp, ast.DictComp, ast.GeneratorExp)):
            for g in n.generators:
                its.append((g.iter, A.enclosing_stmt(n)))
        elif isinstance(n, ast.Call) and isinstance(n.func, ast.Name) and n.func.id in ("list", "tuple", "enumerate", "zip") and n.args:
            for a in n.args:
                its.append((a, A.enclosing_stmt(n)))
        for it, at in its:
            r = it
            if isinstance(it, ast.Name) and at is not None:
                try:
                    r = flow.resolve(it, at=at)
                except Exception:
                    r = it
            if is_set(r):
                # sorted(set) is fine: its parent is then the sorted() call, which is not one of the consumers above
                out.append((it, r))
    return out


def check_order(ctx):
    R = "C10-ORDER"
    ctx.rule(R, "the order in which random variables are handed to pm.draw (pymc assigns its per-variable seeds in that order) and in which draws are consumed is determined by the "
                "inputs alone: no function that can reach a draw site iterates an unordered set (string hashing is salted per process, so the order - and with it every drawn "
                "number - would change with PYTHONHASHSEED although the generator is the same).")
    from ..loader import _link
    ft = ast.parse(ORDER_FIXTURE)
    _link(ft, None)
    fx = [len(_unordered_sources(f)) for f in ft.body]
    if not (fx[0] >= 1 and fx[1] == 0):
        ctx.incomplete_(R, "fixture", "the scanner no longer separates set iteration from dict iteration: %s" % fx)
    table = needs_rng_table(ctx.prog)
    n = 0
    for mn, q, fn in ctx.prog.all_functions():
        short = q.split(".")[-1]
        if short not in table and not draw_sites(fn):
            continue
        n += 1
        hits = _unordered_sources(fn)
        for it, r in hits:
            ctx.violate(R, it, "%s iterates only ordered collections" % q, "iterates `%s` (= `%s`), a set: its order depends on the process's hash salt, not on the seed" % (A.unparse(it)[:40], A.unparse(r)[:60]),
                        key="set-iter:" + q)
        if not hits:
            ctx.ok(R, fn, "%s iterates only ordered collections" % q, "", nontrivial=False)
    ctx.floor(R, n, 8)


def check_spawn(ctx):
    R = "C10-SPAWN"
    ctx.rule(R, "run_worker gives task i the generator Generator(PCG64(children[i])) with children = <parent seed sequence>.spawn(len(tasks)), "
                "children derived from the rng parameter, appended as the last task element; workers hand their task's generator to the kernel.")
    fn = ctx.prog.func(MP, "run_worker", R)
    flow = A.Flow(fn)
    spawns = [c for c in A.calls_in(fn) if A.last_attr(c) == "spawn"]
    if len(spawns) != 1:
        ctx.violate(R, fn, "one spawn per run_worker call", "found %d spawn calls: per-task children are not derived from the parent seed sequence" % len(spawns), key="spawn-count")
        return
    sp = spawns[0]
    recv = flow.resolve(sp.func.value, at=A.enclosing_stmt(sp))
    root = _root_tags(recv, fn, None)
    ctx.check(R, sp, "spawn receiver derives from rng", root <= {"param"}, "spawn is called on `%s` (%s)" % (A.unparse(recv), sorted(root)), key="spawn-recv")
    # two equivalent spellings: <rng>.bit_generator.seed_seq.spawn(n) yields seed sequences (each wrapped as Generator(BitGen(child))),
    # Generator.spawn(n) yields the generators themselves
    gen_spawn = isinstance(recv, ast.Name) and root <= {"param"} and recv.id in A.param_names(fn)
    ctx.check(R, sp, "receiver is the generator or its seed sequence", gen_spawn or "seed_seq" in A.unparse(recv), "spawn receiver `%s` is neither the rng nor its bit generator's seed sequence" % A.unparse(recv), key="spawn-seedseq")
    att = _attachment(fn)
    if att is None:
        arg = sp.args[0] if sp.args else None
        n_ok = arg is not None and isinstance(arg, ast.Call) and A.call_name(arg) == "len"
        ctx.violate(R, sp, "every task gets its own spawned child generator",
                    "spawn(%s) and no statement that attaches child i to task i (neither `T[i] = T[i] + (gen,)` in a loop over the tasks nor a rebuilt task list)%s: "
                    "it cannot be shown that different batches draw from different streams" % (A.unparse(arg) if arg is not None else "", "" if n_ok else " - the number of children is not the number of tasks"),
                    key="attach")
        return
    s, T, base, gen, child_of, covers, why_cov = att
    arg = sp.args[0] if sp.args else None
    ctx.check(R, sp, "spawn(len(tasks))", arg is not None and canon(arg) == canon(parse("len(%s)" % T)),
              "spawns `%s` children, not one per task" % (A.unparse(sp.args[0]) if sp.args else "?"), key="spawn-n")
    ctx.check(R, s, "store loop covers every task", covers, why_cov, key="loop")
    ctx.check(R, s, "appended to the same task", base, "the generator is not appended to the task it is stored for", key="same-task")
    g = flow.resolve(gen, at=s) if not isinstance(s, ast.Assign) or not isinstance(s.value, ast.ListComp) else gen
    inner = g
    chain = []
    while isinstance(inner, ast.Call) and len(inner.args) == 1 and not inner.keywords:
        chain.append((A.call_name(inner) or "").split(".")[-1])
        inner = inner.args[0]
    shape_ok = (chain[:1] in (["Generator"], ["default_rng"]) and len(chain) <= 2) if not gen_spawn else chain == []
    if not shape_ok:
        ctx.violate(R, s, "generator built from a spawned child", "task generator is `%s`, not %s" % (A.unparse(gen), "the spawned generator itself" if gen_spawn else "Generator(BitGen(children[i]))"), key="gen-shape")
        return
    src, same_index, desc = child_of(inner)
    srcr = flow.resolve(src, at=A.enclosing_stmt(s) if not isinstance(s, ast.stmt) else s) if src is not None else None
    is_spawn = isinstance(srcr, ast.Call) and A.last_attr(srcr) == "spawn"
    ctx.check(R, s, "child sequence is the spawn result", is_spawn, "child taken from `%s`, which is not the spawn result" % (A.unparse(src) if src is not None else A.unparse(inner)), key="child-src")
    ctx.check(R, s, "task i gets child i", same_index, "%s: generators are shared between batches" % desc, key="child-idx")
    # guard: done iff rng is not None
    g_ok = any(pol and canon(t) == canon(parse("rng is not None")) for t, pol in A.guards_of(s))
    ctx.check(R, s, "children attached whenever rng is given", g_ok, "the generator attachment is not guarded by `rng is not None`", key="guard")
    # worker side: make_full_samples_worker passes its last task element to the kernel
    wf = ctx.prog.func(MP, "make_full_samples_worker", R)
    trng = worker_task_rng(wf)
    kc = [c for c in A.calls_in(wf) if A.last_attr(c) == "batch_get_posterior_samples"]
    okw = bool(kc) and all(len(c.args) >= 3 and canon(c.args[2]) == trng for c in kc)
    ctx.check(R, wf, "worker draws from its task's generator", okw, "make_full_samples_worker does not pass its task generator `%s` to batch_get_posterior_samples" % trng, key="worker-rng")


def check_library_rng(ctx):
    R = "C10-LIBRNG"
    ctx.rule(R, "no function reachable from TheJoker's public methods or JokerPrior.sample constructs a scikit-learn estimator without random_state=: such an estimator "
                "draws from (and advances) numpy's global RandomState.  (The stand-alone diagnostics is_P_Kmodal / is_P_unimodal are outside this clause as long as the "
                "sampler does not call them with such an estimator.)")
    from ..resolve import CallGraph
    cg = CallGraph(ctx.prog)
    roots = [(mn, q) for mn, q, f in ctx.prog.all_functions() if (mn == TJ and q.startswith("TheJoker.") and not q.split(".")[-1].startswith("__")) or (mn == PR and q == "JokerPrior.sample")]
    reach = set(cg.reachable(roots)) | set(roots)
    n = 0
    for mn, q in sorted(reach):
        if (mn, q) not in cg.funcs:
            continue
        f = cg.funcs[(mn, q)]
        n += 1
        sk = set()
        for x in ast.walk(ctx.prog.modules[mn].tree):
            if isinstance(x, ast.ImportFrom) and (x.module or "").split(".")[0] == "sklearn":
                sk |= {a.asname or a.name for a in x.names}
        for x in ast.walk(f):
            if isinstance(x, ast.ImportFrom) and (x.module or "").split(".")[0] == "sklearn":
                sk |= {a.asname or a.name for a in x.names}
        for c in A.calls_in(f):
            d = A.call_name(c) or ""
            if (d in sk or d.split(".")[0] == "sklearn") and d.split(".")[-1][:1].isupper():
                rs = A.get_arg(c, None, "random_state")
                tags = classify(A.Flow(f).resolve(rs, at=A.enclosing_stmt(c)), f, None) if rs is not None else {"none"}
                ctx.check(R, c, "estimator `%s` in %s is seeded from the sampler's generator" % (d, q), rs is not None and tags <= GOOD,
                          "`%s` is reachable from the sampler and %s: it draws from numpy's global random state" % (A.unparse(c)[:60], "has no random_state" if rs is None else "random_state has provenance %s" % sorted(tags)),
                          key="sk:%s:%s" % (q, d))
    ctx.floor(R, n, 10)


def check_alias(ctx):
    R = "C10-ALIAS"
    ctx.rule(R, "a public entry point that takes `rng` AND swallows unknown keywords (**kwargs) keeps the `random_state` -> `rng` renaming decorator: without it a generator "
                "passed under the former name is silently stored as metadata and the draw falls back to an unseeded generator.")
    n = 0
    for mn, q, fn in ctx.prog.all_functions():
        if "rng" in A.param_names(fn) and fn.args.kwarg is not None and not q.split(".")[-1].startswith("_"):
            n += 1
            decos = [d for d in fn.decorator_list if isinstance(d, ast.Call) and (A.call_name(d) or "").split(".")[-1] == "deprecated_renamed_argument"]
            ok = any(len(d.args) >= 2 and A.str_const(d.args[0]) == "random_state" and A.str_const(d.args[1]) == "rng" for d in decos)
            rejects = any(isinstance(s_, ast.If) and A.always_raises(s_.body) and "random_state" in A.unparse(s_.test) for s_ in A.walk_local(fn))
            ctx.check(R, fn, "%s maps or rejects `random_state`" % q, ok or rejects, "%s accepts **%s and has neither the renaming decorator nor a rejection of `random_state`" % (q, fn.args.kwarg.arg), key="alias:" + q)
    ctx.floor(R, n, 1)


def run(ctx):
    check_alias(ctx)
    check_library_rng(ctx)
    check_global(ctx)
    check_prov(ctx)
    check_fwd(ctx)
    check_spawn(ctx)
    check_order(ctx)
    from .C07 import _Relabel
    from .C02 import check_api
    ctx.rule("C10-BATCH", "which child stream a sample draws from depends on seed, inputs and the requested n_batches only: n_batches reaches run_worker as given "
                          "(no clamp to the pool size on the way) (shared with C02-API).")
    check_api(_Relabel(ctx, {"C02-API": "C10-BATCH"}))
    ctx.assume("SeedSequence.spawn(n) yields n distinct children and differs between successive calls on the same parent (numpy contract)")
    ctx.assume("numpy Generator streams are deterministic functions of their seed sequence")
    ctx.assume("pm.draw(random_seed=g) draws only from g")
