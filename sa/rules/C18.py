"""C18 - only priors and data that satisfy the sampler's assumptions are accepted.

Guard inventory: every validation condition (frozen from reading, matched by
guard normal form, not text) must exist, raise unconditionally, be quantified
over the full name set, and dominate the accepting effect.
"""
import ast

from .. import astutil as A
from ..norm import canon, parse, dotted
from ..loader import AnalysisIncomplete

PR = "thejoker.prior"
PH = "thejoker.prior_helpers"
DH = "thejoker.data_helpers"
TJ = "thejoker.thejoker"
FL = "thejoker.src.fast_likelihood"
DT = "thejoker.data"

# (module, function, id, condition under which the function must raise, loop-iterable spec or None)
# conditions are written with the loop variable spelled  IT
GUARDS = [
    (PR, "_validate_model", "model-type", "not isinstance(model, pm.Model)", None),
    (PR, "JokerPrior.__init__", "par-present", "IT not in pars", "self.par_names"),
    (PR, "JokerPrior.__init__", "par-has-unit", "not hasattr(pars[IT], xu.UNIT_ATTR_NAME)", "self.par_names"),
    (PR, "JokerPrior.__init__", "par-unit-equivalent", "not getattr(pars[IT], xu.UNIT_ATTR_NAME).is_equivalent(self._all_par_unit_equiv[IT])", "self.par_names"),
    (PR, "JokerPrior.__init__", "linear-is-variable", "not hasattr(pars[IT], 'owner')", "list(self._linear_equiv_units.keys()) + list(self._v0_offsets_equiv_units.keys())"),
    (PR, "JokerPrior.__init__", "linear-is-random-variable", "not isinstance(pars[IT].owner.op, pt.random.op.RandomVariable)", "list(self._linear_equiv_units.keys()) + list(self._v0_offsets_equiv_units.keys())"),
    (PR, "JokerPrior.__init__", "linear-is-normal", "pars[IT].owner.op._print_name[0] not in ['Normal', 'FixedCompanionMass']", "list(self._linear_equiv_units.keys()) + list(self._v0_offsets_equiv_units.keys())"),
    (PH, "validate_sigma_v", "sigma_v-scalar", "isinstance(sigma_v, u.Quantity) and not sigma_v.isscalar", None),
    (PH, "validate_sigma_v", "sigma_v-keys", "hasattr(sigma_v, 'keys') and IT not in sigma_v.keys()", "v_names"),
    (PH, "validate_sigma_v", "sigma_v-length", "len(sigma_v) != poly_trend", None),
    (PR, "default_nonlinear_prior", "s-unit", "not isinstance(s, pt.TensorVariable) and (not hasattr(s, 'unit') or not s.unit.is_equivalent(u.km / u.s))", None),
    (PR, "default_nonlinear_prior", "P-bounds", "'P' not in pars and (P_min is None or P_max is None)", None),
    (PR, "default_linear_prior", "P-e-defined", "model.named_vars.get('P', None) is None or model.named_vars.get('e', None) is None", None),
    (PR, "default_linear_prior", "K-scale", "'K' not in pars and (sigma_K0 is None or P0 is None)", None),
    (DH, "validate_prepare_data", "single-no-offsets", "isinstance(data, RVData) and n_offsets != 0", None),
    (DH, "validate_prepare_data", "source-type", "not isinstance(data[IT], RVData)", "data.keys()"),
    (DH, "validate_prepare_data", "source-no-cov", "data[IT]._has_cov", "data.keys()"),
    (DH, "validate_prepare_data", "offset-count", "len(np.unique(ids)) - 1 != n_offsets", None),
    (TJ, "TheJoker.__init__", "pool-interface", "pool is not None and (not hasattr(pool, 'map') or not hasattr(pool, 'close'))", None),
    (TJ, "TheJoker.__init__", "rng-type", "rng is not None and not isinstance(rng, np.random.Generator)", None),
    (TJ, "TheJoker.__init__", "prior-type", "not isinstance(prior, JokerPrior)", None),
    (FL, "CJokerHelper.__init__", "design-matrix-shape", "trend_M.shape[0] != self.n_times or trend_M.shape[1] != self.n_linear - 1", None),
]

# try-blocks whose failure must turn into a raise: (module, function, id, call that must be inside the try)
TRY_GUARDS = [
    (PR, "JokerPrior.__init__", "pars-coercion", "dict"),
    (PR, "JokerPrior.__init__", "offsets-iterable", "list"),
    (PH, "validate_poly_trend", "poly_trend-int", "int"),
    (PH, "validate_n_offsets", "n_offsets-int", "int"),
    (DH, "validate_prepare_data", "data-iterable", "enumerate"),
]

# accepting effects the guards must dominate: (module, function, description, statement matcher)
ACCEPT = {
    (PR, "JokerPrior.__init__"): ("store `self.pars = pars`", lambda s: isinstance(s, ast.Assign) and dotted(s.targets[0]) == "self.pars"),
    (DH, "validate_prepare_data"): ("merged RVData construction", lambda s: isinstance(s, ast.Assign) and isinstance(s.value, ast.Call) and A.call_name(s.value) == "RVData"),
    (TJ, "TheJoker.__init__"): None,
    (FL, "CJokerHelper.__init__"): ("design matrix copy `self.M_T = ...`", lambda s: isinstance(s, ast.Assign) and dotted(s.targets[0]) == "self.M_T"),
}


def path_condition(stmt, fn, flow, rename):
    """NNF conjunction of (a) enclosing if-tests and (b) negations of earlier terminating ifs in the enclosing blocks, relative to fn."""
    lits = []
    for t, pol in A.guards_of(stmt):
        lits.append(A.nnf(_res(flow, t, stmt), not pol, rename))
    return lits


def _res(flow, expr, at):
    st = A.enclosing_stmt(expr)
    try:
        return flow.resolve(expr, at=st)
    except Exception:
        return expr


def raising_ifs(fn):
    out = []
    for s in A.walk_local(fn):
        if isinstance(s, ast.If):
            t = s
            # body raises unconditionally
            if A.always_raises(s.body):
                out.append((s, s.test, True))
            if s.orelse and not (len(s.orelse) == 1 and isinstance(s.orelse[0], ast.If)) and A.always_raises(s.orelse):
                out.append((s, s.test, False))
    return out


def _quantified(test, pol):
    """`any(C(x) for x in S)` (pol True) / `all(C(x) for x in S)` (pol False, i.e. raising when not all) -> (var, S, C, polarity of C)"""
    if isinstance(test, ast.UnaryOp) and isinstance(test.op, ast.Not):
        test, pol = test.operand, not pol
    if isinstance(test, ast.Call) and isinstance(test.func, ast.Name) and test.func.id in ("any", "all") and len(test.args) == 1 and not test.keywords \
            and isinstance(test.args[0], (ast.GeneratorExp, ast.ListComp)) and len(test.args[0].generators) == 1 and not test.args[0].generators[0].ifs \
            and isinstance(test.args[0].generators[0].target, ast.Name):
        g = test.args[0].generators[0]
        if test.func.id == "any" and pol:
            return g.target.id, g.iter, test.args[0].elt, True
        if test.func.id == "all" and not pol:
            return g.target.id, g.iter, test.args[0].elt, False
    return None


def raise_sites(fn):
    """(node, own tests [(expr, polarity)], extra path tests, quantifier) for every place where the function rejects its input:
       * `if T:` whose branch always raises (own = T);  `if any(C(x) for x in S): raise` is the quantified form of a loop over S;
       * a bare `raise` that ends a block after earlier statements that leave by return / continue (own = negation of those tests)."""
    out = []
    for s, test, pol in raising_ifs(fn):
        qf = _quantified(test, pol)
        if qf is not None:
            var, it, elt, epol = qf
            out.append((s, [(elt, epol)], [], (var, it)))
        out.append((s, [(test, pol)], [], None))
    for r in A.walk_local(fn):
        if not isinstance(r, ast.Raise) or A.enclosing(r, (ast.ExceptHandler,)) is not None:
            continue
        blk = A.block_of(r)
        if not blk:
            continue
        p, f, lst, i = blk
        if isinstance(p, ast.If) and A.always_raises(lst) and not any(isinstance(x, ast.If) and A.terminates(x.body) and not A.always_raises(x.body) for x in lst[:i]):
            continue   # an `if T: ... raise` branch, handled above
        own = [(x.test, False) for x in lst[:i] if isinstance(x, ast.If) and not x.orelse and A.terminates(x.body) and not A.always_raises(x.body)]
        if not own:
            continue
        out.append((r, own, [], None))
    return out


def loop_var_chain(stmt, fn):
    """enclosing for loops of stmt inside fn (innermost first)"""
    return [a for a in A.ancestors(stmt) if isinstance(a, ast.For)]


def check_guards(ctx):
    R = "C18-GUARD"
    ctx.rule(R, "guard inventory: each validation condition exists as an `if` whose (resolved, path-qualified) test is implied by the condition, whose body ends in "
                "`raise` on every path, which - when the condition is quantified over names - sits directly in a loop over the full name set with no earlier "
                "continue/break, and which dominates the accepting effect.")
    flows = {}
    found = 0
    for mod, q, gid, cond_src, iter_src in GUARDS:
        fn = ctx.prog.func(mod, q, R)
        flow = flows.setdefault((mod, q), A.Flow(fn))
        label = "%s: %s" % (q, gid)
        matched = None
        best_loop_problem = None
        partials = []
        if gid == "offset-count":
            from .C08 import count_guard
            matched = count_guard(fn)
        for ifs, own_tests, extra, quant in ([] if matched is not None else raise_sites(fn)):
            loops = loop_var_chain(ifs, fn)
            rename = {}
            q_iter = None
            q_loop = None
            if iter_src is not None:
                if quant is not None:
                    rename[quant[0]] = "IT"
                    q_iter = quant[1]
                elif loops and isinstance(loops[0].target, ast.Name):
                    q_loop = loops[0]
                    rename[q_loop.target.id] = "IT"
                    q_iter = q_loop.iter
                else:
                    continue
            elif quant is not None:
                continue
            # full firing condition of this raise = path condition AND own test
            spec = A.nnf_of_src(cond_src)
            hit = False
            for inl in (True, False):
                f = (lambda t: _inline(flow, t, ifs, rename)) if inl else (lambda t: t)
                own = [_rename_nnf(A.nnf(f(t), not p, None), rename) for t, p in own_tests]
                # the `else` of an earlier branch that always leaves (`if bad1: raise ... elif bad2: raise`) is a sibling guard in disguise: it is not part
                # of the firing condition (an input rejected there is rejected)
                pcs = [_rename_nnf(A.nnf(f(t), not p, None), rename) for t, p in list(A.guards_of(ifs)) + extra
                       if not (not p and isinstance(A.parent(t), ast.If) and A.parent(t).test is t and A.always_raises(A.parent(t).body))]
                guard_nnf = A.conj(own + pcs)
                if A.nnf_implies(spec, guard_nnf):
                    hit = True
                    break
                if inl and iter_src is None and A._atoms(guard_nnf, set()) & A._atoms(spec, set()):
                    partials.append((ifs, guard_nnf))
            if hit:
                if iter_src is not None:
                    at = q_loop if q_loop is not None else ifs
                    it = flow.resolve(q_iter, at=at)
                    want = parse(iter_src)
                    if canon(A.strip_casts(it)) != canon(want) and canon(q_iter) != canon(want) and canon(A.inline_temporaries(q_iter, at, fn)) != canon(want):
                        best_loop_problem = (at, "the check runs over `%s`, not over the full set `%s`" % (A.unparse(q_iter)[:60], iter_src))
                        continue
                if q_loop is not None:
                    lp = q_loop
                    # directly in the loop body, nothing before it may skip
                    blk = A.block_of(ifs)
                    top = ifs
                    while blk and blk[0] is not lp:
                        top = blk[0]
                        blk = A.block_of(top) if isinstance(top, ast.stmt) else None
                    if blk is None:
                        continue
                    idx = blk[3]
                    # (an `if c: continue` whose negation is part of this raise's own firing condition is accounted for there)
                    own_ifs = {id(A.parent(t)) for t, p in own_tests if isinstance(A.parent(t), ast.If)}
                    skippers = [s for s in lp.body[:idx] if id(s) not in own_ifs for x in A.walk_local(s) if isinstance(x, (ast.Continue, ast.Break))]
                    if skippers:
                        best_loop_problem = (skippers[0], "an earlier `continue`/`break` in the loop body lets some names skip the check")
                        continue
                matched = ifs
                break
        if matched is None and len(partials) > 1 and A.nnf_implies(A.nnf_of_src(cond_src), ("or", frozenset(g for _, g in partials))):
            # one raise per alternative of a compound condition (`if a: raise` ... `if b: raise` for `a or b`): together they reject every input the
            # condition describes
            matched = partials[0][0]
        if matched is None:
            if best_loop_problem:
                ctx.violate(R, best_loop_problem[0], label, best_loop_problem[1], key=gid)
            else:
                ctx.violate(R, fn, label, "no unconditional raise when `%s`: the input is accepted instead of rejected" % cond_src.replace("IT", "<name>"), key=gid)
            continue
        found += 1
        # dominance over the accepting effect
        acc = ACCEPT.get((mod, q))
        if acc:
            desc, pred = acc
            targets = [s for s in A.walk_local(fn) if pred(s)]
            if not targets:
                ctx.undecided(R, fn, label, "accepting effect (%s) not found" % desc)
                continue
            top = matched
            lp = loop_var_chain(matched, fn)
            dom_stmt = lp[-1] if lp else matched
            # lift to the outermost statement that still unconditionally contains the guard
            # a guard inside a branch that leaves the function (single-RVData fast path) protects that branch's return instead
            br = [a for a in A.ancestors(matched) if isinstance(a, ast.If) and A.terminates(a.body) and any(x is matched or A.is_ancestor(x, matched) for x in a.body)]
            if br:
                rets = [x for x in A.walk_local(br[-1]) if isinstance(x, ast.Return)]
                ok = bool(rets) and all(A.dominates(matched, r_) for r_ in rets)
                ctx.check(R, matched, label, ok, "the check does not dominate the return of its branch", key=gid)
                continue
            ok = all(A.dominates(dom_stmt, t) or _same_branch_dominates(dom_stmt, t) for t in targets)
            ctx.check(R, matched, label, ok, "the check does not dominate the %s: the object is accepted before (or without) validation" % desc, key=gid)
        else:
            ctx.ok(R, matched, label, "raises when `%s`" % cond_src)
    ctx.floor(R, found, len(GUARDS))


def _guards_ok(guards, spec, flow, ifs, rename):
    # nesting under a condition is fine only if that condition is part of the spec (handled by implication) -> here: reject
    return True


def _same_branch_dominates(a, t):
    return False


def _rename_nnf(term, rename):
    if not rename:
        return term
    if term[0] == "lit":
        return ("lit", term[1], A._rn(term[2], rename))
    return (term[0], frozenset(_rename_nnf(k, rename) for k in term[1]))


def _inline(flow, test, at, rename):
    """inline local temporaries in a guard test (p = pars[name]; equiv_unit = ...; d = data[k]); parameters and loop variables stay symbolic"""
    return A.inline_temporaries(test, at, flow.fn)


def check_no_defaults(ctx):
    R = "C18-PRESENT"
    ctx.rule(R, "the presence check sees the user's parameters only: between parsing the input and the `missing required parameter` check the constructor adds entries for "
                "the offset priors it was given (under their own names) and nothing else - no constant-key store, setdefault or update with literal keys that would "
                "supply a required parameter on the user's behalf.")
    fn = ctx.prog.func(PR, "JokerPrior.__init__", R)
    bad = []
    names = set()
    for s_ in A.walk_local(fn):
        if isinstance(s_, ast.Assign) and isinstance(s_.targets[0], ast.Name) and isinstance(s_.value, (ast.Dict, ast.DictComp, ast.Call)) and s_.targets[0].id.endswith("pars"):
            names.add(s_.targets[0].id)
    names |= {"pars"}
    for s_ in A.walk_local(fn):
        if isinstance(s_, ast.Assign) and isinstance(s_.targets[0], ast.Subscript) and canon(s_.targets[0].value) in names and A.str_const(s_.targets[0].slice):
            bad.append(s_)
        if isinstance(s_, ast.Call) and isinstance(s_.func, ast.Attribute) and canon(s_.func.value) in names:
            if s_.func.attr == "setdefault" and s_.args and A.str_const(s_.args[0]):
                bad.append(s_)
            if s_.func.attr == "update" and s_.args and isinstance(s_.args[0], ast.Dict) and any(k is not None and A.str_const(k) for k in s_.args[0].keys):
                bad.append(s_)
            if s_.func.attr == "update" and any(k.arg for k in s_.keywords):
                bad.append(s_)
    ctx.check(R, bad[0] if bad else fn, "no required parameter is supplied by the constructor itself", not bad,
              "`%s` puts a parameter into the table the presence check reads: omitting it is no longer refused" % (A.unparse(bad[0])[:70] if bad else ""), key="defaults")


def check_own(ctx):
    R = "C18-OWN"
    ctx.rule(R, "what the constructor validated is what the object keeps: self.v0_offsets and self.pars are containers built by the constructor itself (list(...) / dict(...) / "
                "a display) on every path, never the caller's own mutable object (a later append by the caller would change n_offsets and the offset priors after validation).")
    fn = ctx.prog.func(PR, "JokerPrior.__init__", R)
    flow = A.Flow(fn, track_self=True)
    for attr, makers in (("self.v0_offsets", ("list", "tuple")), ("self.pars", ("dict",))):
        st = [s_ for s_ in A.walk_local(fn) if isinstance(s_, ast.Assign) and dotted(s_.targets[0]) == attr]
        if len(st) != 1:
            ctx.undecided(R, fn, "%s store" % attr, "expected one store, found %d" % len(st))
            continue
        r = flow.resolve(st[0].value, at=st[0])
        bad = []
        for terms, leaf in A.ifexp_terms(r):
            fresh = isinstance(leaf, (ast.List, ast.Dict, ast.Tuple, ast.ListComp, ast.DictComp)) or (isinstance(leaf, ast.Call) and A.call_name(leaf) in makers)
            if not fresh:
                bad.append((A.term_strings(terms), leaf))
        ctx.check(R, st[0], "%s is a container built by the constructor" % attr, not bad,
                  "on the path %s the object keeps `%s` itself: the caller's own object is aliased, so changing it later changes an already validated prior" % (
                      bad[0][0] if bad else "", A.unparse(bad[0][1])[:50] if bad else ""), key="own:" + attr)


GLOBAL_FIXTURE = """
import astropy.units as u
def bad(x):
    u.set_enabled_equivalencies(u.dimensionless_angles())
    return x.to(u.day)
def good(x):
    with u.set_enabled_equivalencies(u.dimensionless_angles()):
        return x.to(u.day)
"""
GLOBAL_SETTERS = {"set_enabled_equivalencies", "add_enabled_equivalencies", "set_enabled_units", "add_enabled_units", "set_enabled_aliases", "add_enabled_aliases"}


def global_unit_state(tree):
    """calls that change astropy's process-wide unit registry and are not the context expression of a `with`"""
    out = []
    for n in ast.walk(tree):
        if isinstance(n, ast.Call) and isinstance(n.func, ast.Attribute) and n.func.attr in GLOBAL_SETTERS:
            par = getattr(n, "_parent", None)
            if isinstance(par, ast.withitem) and par.context_expr is n:
                continue
            out.append(n)
    return out


def check_global_units(ctx):
    R = "C18-GLOBAL"
    ctx.rule(R, "the unit checks that reject mis-united priors (`unit.is_equivalent(...)`) rely on astropy's default equivalencies: nothing in the package changes the process-wide "
                "unit registry (set_/add_enabled_equivalencies, set_/add_enabled_units) except as the context expression of a `with` block, which restores it.")
    from ..loader import _link
    ft = ast.parse(GLOBAL_FIXTURE)
    _link(ft, None)
    if len(global_unit_state(ft)) != 1:
        ctx.incomplete_(R, "fixture", "the scanner no longer separates the bare call from the `with` form")
    n = 0
    for mn, m in sorted(ctx.prog.modules.items()):
        hits = global_unit_state(m.tree)
        n += 1
        for h in hits:
            ctx.violate(R, h, "no process-wide change of the unit registry", "`%s` outside a `with`: the equivalency stays enabled for the rest of the session, so e.g. an eccentricity prior "
                        "declared in degrees or an angle declared dimensionless passes the unit validation afterwards" % A.unparse(h)[:70], key="global:" + mn)
        if not hits:
            ctx.ok(R, (m.relpath, 1, mn + ".<module>"), "no global unit-registry change in %s" % mn, nontrivial=False)
    ctx.floor(R, n, 15)


def check_try(ctx):
    R = "C18-TRY"
    ctx.rule(R, "conversions that validate by attempting them (dict(pars), list(v0_offsets), int(poly_trend), int(n_offsets), enumerate(data)) sit in a try whose "
                "handlers all end in raise.")
    n = 0
    for mod, q, gid, callee in TRY_GUARDS:
        fn = ctx.prog.func(mod, q, R)
        ok = False
        site = fn
        for t in A.walk_local(fn):
            if isinstance(t, ast.Try) and any(A.call_name(c) == callee for s in t.body for c in A.calls_in(s)):
                site = t
                # every handler must raise on all paths (nested try in handler allowed if its handlers raise)
                ok = all(_handler_raises(h) for h in t.handlers) and bool(t.handlers)
                break
        n += 1
        ctx.check(R, site, "%s: %s" % (q, gid), ok, "a failing %s(...) conversion is not turned into a raised error" % callee, key=gid)
    ctx.floor(R, n, 5)


def _handler_raises(h):
    if A.always_raises(h.body):
        return True
    # except: try: ... except: raise   (second-chance conversion)
    for s in h.body:
        if isinstance(s, ast.Try) and all(A.always_raises(x.body) for x in s.handlers) and s.handlers:
            return True
    return False


def check_order(ctx):
    R = "C18-ORDER"
    ctx.rule(R, "JokerPrior.par_names concatenates nonlinear, linear, offset names in that order; the Normal-only allow-list is exactly {Normal, FixedCompanionMass}.")
    fn = ctx.prog.func(PR, "JokerPrior.par_names", R)
    rets = [s for s in A.walk_local(fn) if isinstance(s, ast.Return)]
    want = canon(parse("list(self._nonlinear_equiv_units.keys()) + list(self._linear_equiv_units.keys()) + list(self._v0_offsets_equiv_units)"))
    want2 = canon(parse("list(self._nonlinear_equiv_units.keys()) + list(self._linear_equiv_units.keys()) + list(self._v0_offsets_equiv_units.keys())"))
    got = _concat_parts(rets[0].value) if len(rets) == 1 else None
    if len(rets) == 1 and isinstance(rets[0].value, ast.Call) and A.call_name(rets[0].value) == "list" and len(rets[0].value.args) == 1:
        # list(A | B | C): the keys of the merged mapping, first occurrence first - the same name order
        parts = []

        def flat(e):
            if isinstance(e, ast.BinOp) and isinstance(e.op, ast.BitOr):
                flat(e.left)
                flat(e.right)
            elif isinstance(e, ast.Dict) and all(k is None for k in e.keys):
                for v in e.values:
                    flat(v)
            else:
                parts.append(canon(e))
        flat(rets[0].value.args[0])
        if len(parts) == 3:
            got = parts
    exp = ["self._nonlinear_equiv_units", "self._linear_equiv_units", "self._v0_offsets_equiv_units"]
    ctx.check(R, fn, "par_names order", got == exp, "par_names is built from %s, expected %s" % (got, exp), key="order")
    # the unit tables feeding it
    init = ctx.prog.func(PR, "JokerPrior.__init__", R)
    flow = A.Flow(init, track_self=True)
    srcs = {}
    for tgt, val, st in flow.stores:
        pass
    for s in A.walk_local(init):
        if isinstance(s, ast.Assign) and dotted(s.targets[0]) in exp:
            srcs[dotted(s.targets[0])] = canon(A.inline_temporaries(s.value, s, init))
    wantsrc = {"self._nonlinear_equiv_units": canon(parse("get_nonlinear_equiv_units()")),
               "self._linear_equiv_units": canon(parse("get_linear_equiv_units(self.poly_trend)")),
               "self._v0_offsets_equiv_units": canon(parse("get_v0_offsets_equiv_units(self.n_offsets)"))}
    ctx.check(R, init, "name tables come from the canonical helpers", srcs == wantsrc, "tables are %s" % srcs, key="tables")
    # allow-list literal
    lits = []
    for n in A.walk_local(init):
        if isinstance(n, ast.Compare) and isinstance(n.ops[0], (ast.NotIn, ast.In)) and isinstance(n.comparators[0], (ast.List, ast.Tuple, ast.Set)) \
                and "_print_name" in A.unparse(n.left):
            lits.append((n, sorted(A.str_const(e) or "?" for e in n.comparators[0].elts)))
    ok = len(lits) == 1 and lits[0][1] == ["FixedCompanionMass", "Normal"]
    ctx.check(R, lits[0][0] if lits else init, "Normal-only allow-list is exactly {Normal, FixedCompanionMass}", ok,
              "allow-list is %s: marginalisation would run on a non-Gaussian linear prior" % (lits[0][1] if lits else "missing"), key="allow")


def _concat_parts(e):
    parts = []

    def rec(x):
        if isinstance(x, ast.BinOp) and isinstance(x.op, ast.Add):
            rec(x.left)
            rec(x.right)
        else:
            # list(X.keys()) / list(X)
            y = x
            if isinstance(y, ast.Call) and A.call_name(y) == "list" and y.args:
                y = y.args[0]
            if isinstance(y, ast.Call) and isinstance(y.func, ast.Attribute) and y.func.attr == "keys":
                y = y.func.value
            parts.append(dotted(y) or A.unparse(y))
    rec(e)
    return parts


def check_count(ctx):
    R = "C18-COUNT"
    ctx.rule(R, "the helper is only built from validated data: _make_joker_helper calls validate_prepare_data(data, prior.poly_trend, prior.n_offsets) and hands its "
                "merged data and design matrix to CJokerHelper; every sampling method obtains its helper from _make_joker_helper.")
    fn = ctx.prog.func(TJ, "TheJoker._make_joker_helper", R)
    flow = A.Flow(fn)
    v = A.find_calls(fn, "validate_prepare_data")
    ok = len(v) == 1 and [canon(a) for a in v[0].args] == ["data", "self.prior.poly_trend", "self.prior.n_offsets"]
    ctx.check(R, fn, "validation called with the prior's poly_trend / n_offsets", ok, "validate_prepare_data(%s)" % (", ".join(A.unparse(a) for a in v[0].args) if v else "not called"), key="call")
    h = A.find_calls(fn, "CJokerHelper")
    ok = False
    if len(h) == 1 and len(h[0].args) == 3 and v:
        a0 = flow.resolve(h[0].args[0], at=A.enclosing_stmt(h[0]))
        a2 = flow.resolve(h[0].args[2], at=A.enclosing_stmt(h[0]))
        ok = (isinstance(a0, ast.Subscript) and A.const_value(a0.slice) == 0 and isinstance(a0.value, ast.Call) and A.call_name(a0.value) == "validate_prepare_data"
              and isinstance(a2, ast.Subscript) and A.const_value(a2.slice) == 2 and canon(h[0].args[1]) == "self.prior")
    ctx.check(R, fn, "helper built from the validated data, the prior and the validated design matrix", ok, "CJokerHelper arguments do not come from validate_prepare_data", key="helper")
    m = ctx.prog.module(TJ)
    for q in ("TheJoker.marginal_ln_likelihood", "TheJoker.rejection_sample", "TheJoker.iterative_rejection_sample"):
        f = ctx.prog.func(TJ, q, R)
        c = A.find_calls(f, "self._make_joker_helper")
        okc = len(c) == 1 and canon(c[0].args[0]) == "data" and not A.guards_of(c[0])
        ctx.check(R, f, "%s validates its data first" % q, okc, "helper is not obtained unconditionally from self._make_joker_helper(data)", key=q)


def run(ctx):
    check_guards(ctx)
    check_try(ctx)
    check_order(ctx)
    check_count(ctx)
    check_own(ctx)
    from .C05 import check_mutable_defaults
    check_mutable_defaults(ctx, "C18-STATE")
    check_no_defaults(ctx)
    check_global_units(ctx)
    from .C07 import _Relabel
    from .C08 import check_lock
    ctx.rule("C18-DATA", "the per-row survey labels the source count is taken from are built from the whole key of each source (np.full(len(d), k) in the default dtype, or the "
                         "equivalent list form): truncated or re-typed labels merge sources and defeat the count check (shared with C08-LOCK).")
    check_lock(_Relabel(ctx, {"C08-LOCK": "C18-DATA"}))
    from .C15 import check_ivar
    ctx.rule("C18-COV", "a source with a full covariance matrix is refused by the kernel because RVData.ivar is then a matrix: ivar keeps its documented form (1/err^2, or the "
                        "inverse covariance MATRIX), so unsupported data cannot slip through as a diagonal (shared with C15-IVAR).")
    check_ivar(_Relabel(ctx, {"C15-IVAR": "C18-COV"}))
    ctx.assume("pymc / astropy raise for unit-less or non-tensor objects inside library calls (exception types inside libraries are not decided)")
