"""Shared analysis of the four rejection-sampling functions (C02, C06, C14, C05).

For one function it recovers, by forward substitution + normal forms:
  * the acceptance site  ``G = np.where(mask)[0]``  with mask split into
    (strictness, exp-side, uniform-side), the likelihood array L it normalises,
    the reducer used for normalisation and the uniform draw U;
  * the truncation slices applied to G on the way to its uses;
  * the row selector R handed to make_full_samples*() and its relation to G
    (identity or a map M[G]);
  * the stored log-prob columns (array, index) and the returned values.
"""
import ast

from .. import astutil as A
from ..norm import canon, parse, rat, cmp_parts, dotted, short_fn, NormError

LH = "thejoker.likelihood_helpers"
MP = "thejoker.multiproc_helpers"

SITES = [(LH, "rejection_sample_inmem"), (MP, "rejection_sample_helper"), (LH, "iterative_rejection_inmem"), (MP, "iterative_rejection_helper")]

MAX_FUNCS = {"max", "amax"}
REDUCERS = {"max", "amax", "min", "amin", "mean", "median", "sum", "nanmax", "nanmin", "nanmean", "nanmedian", "percentile", "quantile", "average", "logsumexp", "ptp", "std"}


class Site:
    pass


def reducer_calls(expr):
    out = []
    for n in ast.walk(expr):
        if isinstance(n, ast.Call):
            nm = A.last_attr(n)
            if nm in REDUCERS:
                d = dotted(n.func)
                if isinstance(n.func, ast.Attribute) and not (d and d.split(".")[0] in ("np", "numpy", "math", "scipy")):
                    operand = n.func.value
                    extra = list(n.args) + n.keywords
                elif n.args:
                    operand = n.args[0]
                    extra = list(n.args[1:]) + n.keywords
                else:
                    continue
                out.append((n, nm, operand, extra))
    return out


def peel_slices(expr):
    """Strip prefix/other slices: returns (core, [slice nodes outermost first])."""
    sl = []
    while isinstance(expr, ast.Subscript) and isinstance(expr.slice, ast.Slice):
        sl.append(expr.slice)
        expr = expr.value
    return expr, sl


def is_where0(e):
    return (isinstance(e, ast.Subscript) and isinstance(e.slice, ast.Constant) and e.slice.value == 0 and isinstance(e.value, ast.Call)
            and (A.call_name(e.value) or "").split(".")[-1] in ("where", "nonzero") and len(e.value.args) == 1)


def is_prefix_slice(s):
    lo_ok = s.lower is None or A.const_value(s.lower) == 0
    st_ok = s.step is None or A.const_value(s.step) == 1
    return lo_ok and st_ok and s.upper is not None


def analyze(prog, mod, name):
    fn = prog.func(mod, name, "REJ")
    flow = A.Flow(fn)
    S = Site()
    S.fn, S.flow, S.mod, S.name = fn, flow, mod, name
    S.iterative = name.startswith("iterative")
    S.problems = []   # (kind, node, text) structural problems found while analysing
    # ---- acceptance site(s)
    # the acceptance site: the (canonically unique) expression np.where(mask)[0], wherever it is written
    sites = {}
    for n in A.walk_local(fn):
        if isinstance(n, ast.Subscript) and is_where0(n):
            st = A.enclosing_stmt(n)
            m = flow.resolve(n.value.args[0], at=st)
            sites.setdefault(canon(m), []).append((n, st, m))
    S.where_stmts = list(sites)          # distinct acceptance masks
    S.acc = None
    S.gname = None
    if len(sites) == 1:
        occ = sorted(list(sites.values())[0], key=lambda x: x[1].lineno)
        n, st, mask = occ[0]
        S.acc_stmt = st
        if isinstance(st, ast.Assign) and isinstance(st.targets[0], ast.Name) and st.value is n:
            S.gname = st.targets[0].id
        S.acc_expr = n
        S.mask = mask
        S.acc = split_mask(mask)
    # ---- make_full_samples* call
    S.mfs = [c for c in A.calls_in(fn) if (A.last_attr(c) or "").startswith("make_full_samples")]
    # ---- column stores
    S.cols = {}
    for st in A.walk_local(fn):
        if isinstance(st, ast.Assign) and isinstance(st.targets[0], ast.Subscript) and A.str_const(st.targets[0].slice) in ("ln_prior", "ln_likelihood"):
            S.cols.setdefault(A.str_const(st.targets[0].slice), []).append(st)
    return S


def split_mask(mask):
    """mask -> dict(op, exp_side, other, form) ; form in {'exp>U','U>exp','log', None}"""
    p = cmp_parts(mask)
    if p is None:
        return {"form": None, "why": "acceptance mask `%s` is not a single comparison" % A.unparse(mask)[:80]}
    op, a, b = p
    out = {"op": op, "a": a, "b": b}

    def is_exp(x):
        return isinstance(x, ast.Call) and short_fn(dotted(x.func)) == "exp" and len(x.args) == 1

    def is_log(x):
        return isinstance(x, ast.Call) and short_fn(dotted(x.func)) == "log" and len(x.args) == 1

    if op in (">", ">="):
        if is_exp(a):
            out.update(form="exp>U", arg=a.args[0], U=b)
        elif is_exp(b):
            out.update(form="U>exp", arg=b.args[0], U=a)
        elif is_log(b):
            out.update(form="exp>U", arg=a, U=b.args[0], logform=True)
        elif is_log(a):
            out.update(form="U>exp", arg=b, U=a.args[0], logform=True)
        else:
            out.update(form=None, why="neither side of `%s` is exp(L - max L) or log(U)" % A.unparse(mask)[:80])
    else:
        out.update(form=None, why="comparison operator %s" % op)
    return out


def normaliser(arg):
    """exp argument -> (kind, L expr, reducer name, detail).
    kind: 'max' (L - max(L) over the same L, no extra args), 'other-reducer', 'none', 'mismatch', 'unknown'"""
    reds = reducer_calls(arg)
    try:
        ar = rat(arg)
    except (NormError, ZeroDivisionError):
        return "unknown", None, None, "non-arithmetic exponent"
    if not reds:
        return "none", arg, None, "exponent `%s` is not normalised by any reduction of the likelihoods" % A.unparse(arg)[:60]
    # outermost reducers only
    tops = [r for r in reds if not any(r[0] is not o[0] and any(x is r[0] for x in ast.walk(o[0])) for o in reds)]
    if len(tops) != 1:
        return "unknown", None, None, "%d reductions in the exponent" % len(tops)
    node, nm, operand, extra = tops[0]
    try:
        ok = ar.equals(rat(operand) - rat(node))
    except (NormError, ZeroDivisionError):
        ok = False
    if not ok:
        return "mismatch", operand, nm, "exponent `%s` is not L - %s(L) over one and the same array" % (A.unparse(arg)[:70], nm)
    if nm not in MAX_FUNCS:
        return "other-reducer", operand, nm, "likelihoods are normalised by %s, not by their maximum" % nm
    if extra:
        return "other-reducer", operand, nm, "max() is taken with extra arguments (%s): not the maximum over all evaluated samples" % ", ".join(A.unparse(getattr(e, "value", e)) for e in extra)
    return "max", operand, nm, ""


def uniform_draw(U):
    """U expr -> (ok shape?, receiver, size expr, detail)"""
    if not (isinstance(U, ast.Call) and isinstance(U.func, ast.Attribute)):
        return None, None, "threshold `%s` is not a generator draw" % A.unparse(U)[:60]
    meth = U.func.attr
    if meth not in ("uniform", "random"):
        return U.func.value, None, "threshold is drawn with .%s(), not uniform(0,1)" % meth
    size = A.get_arg(U, None, "size")
    pos = list(U.args)
    if meth == "random":
        if size is None and pos:
            size = pos[0]
        return U.func.value, size, ""
    low = A.get_arg(U, 0, "low")
    high = A.get_arg(U, 1, "high")
    if size is None and len(pos) >= 3:
        size = pos[2]
    if low is not None and A.const_value(low) not in (0, 0.0):
        return U.func.value, size, "uniform lower bound is %s, not 0" % A.unparse(low)
    if high is not None and A.const_value(high) not in (1, 1.0):
        return U.func.value, size, "uniform upper bound is %s, not 1" % A.unparse(high)
    return U.func.value, size, ""


def size_matches(size, L):
    if size is None:
        return False
    c = canon(L)
    return canon(size) in (canon(parse("len(X)")).replace("X", c), "len(%s)" % c, "%s.shape[0]" % c, "%s.size" % c, "%s.shape" % c, "(%s.shape[0])" % c)


def idx_shape(e):
    """Classify a row-selector expression relative to the acceptance result G = where(mask)[0]:
    returns a list (one per IfExp leaf) of ('G', slices) | ('M[G]', map expr, slices) | ('other', expr)."""
    out = []
    for leaf in A.strip_ifexp(e):
        core, sl = peel_slices(leaf)
        if is_where0(core):
            out.append(("G", sl))
        elif isinstance(core, ast.Subscript) and not isinstance(core.slice, ast.Slice):
            inner, sl2 = peel_slices(core.slice)
            if is_where0(inner):
                out.append(("M[G]", core.value, sl + sl2))
            else:
                out.append(("other", leaf))
        else:
            out.append(("other", leaf))
    return out


def accum_unfiltered(L):
    """iterative sites: L = np.concatenate((<accumulated so far>, X)) - X must be the unmodified result of the likelihood evaluation of this window
    (a filtered / compacted X shifts every later position against the row map).  Returns (ok, why)."""
    if not (isinstance(L, ast.Call) and (A.call_name(L) or "").split(".")[-1] == "concatenate" and L.args and isinstance(L.args[0], (ast.Tuple, ast.List)) and len(L.args[0].elts) == 2):
        return False, "accumulated array `%s` is not np.concatenate((previous, new))" % A.unparse(L)[:70]
    a, b = L.args[0].elts
    prev, new = (a, b) if "@loop" in A.unparse(a) and isinstance(a, ast.Name) else (b, a) if "@loop" in A.unparse(b) and isinstance(b, ast.Name) else (None, None)
    if prev is None:
        return False, "neither part of `%s` is the array accumulated so far" % A.unparse(L)[:70]
    if a is not prev:
        return False, "the new window is put in front of the accumulated array: positions no longer follow the evaluation order"
    core = A.strip_casts(new)
    if isinstance(core, ast.Call) and (A.call_name(core) or "").split(".")[-1].startswith("marginal_ln_likelihood"):
        return True, ""
    return False, "the window appended to the accumulated likelihoods is `%s`, not the unmodified evaluation result: dropping / re-ordering entries shifts every later position against the row map" % A.unparse(new)[:80]
