"""C05 - results do not depend on batching, pool, cache path or call history."""
import ast

from .. import astutil as A
from ..norm import canon, parse, dotted
from ..resolve import CallGraph
from . import _kernel, _rej
from .C10 import draw_sites

TJ = "thejoker.thejoker"
MP = "thejoker.multiproc_helpers"
LH = "thejoker.likelihood_helpers"
UT = "thejoker.utils"
FL = "thejoker.src.fast_likelihood"
ENTRY = [(TJ, "TheJoker.marginal_ln_likelihood"), (TJ, "TheJoker.rejection_sample"), (TJ, "TheJoker.iterative_rejection_sample")]
CACHE_DECOS = {"lru_cache", "cache", "cached_property", "memoize", "memoized", "lazyproperty"}

# attribute / item stores through a *parameter* that are intended, with the reason
ALLOWED_PARAM_MUTATION = {
    ("thejoker.samples", "JokerSamples.pack", "units"): "units.setdefault only adds the four canonical nonlinear units when absent; the helper's table already contains them (no-op on sampler paths)",
    ("thejoker.utils", "tempfile_decorator.wrapper", "kwargs"): "the decorator's own per-call keyword dictionary",
    ("thejoker.samples_helpers", "write_table_hdf5", "output"): "the cache file being written (C13-WRITE restricts it to the temporary file)",
    ("thejoker.samples_helpers", "write_table_hdf5", "table"): "local re-binding of the encoded copy of the table",
}


def check_carry(ctx):
    R = "C05-CARRY"
    ctx.rule(R, "field def-use over the kernel class: in one iteration of each per-sample loop every read of a field that is (re)written outside __init__ is preceded, on every "
                "path compatible with the read, by a covering write of the same iteration (zero-fill loop, same-element store, LAPACK / Kepler out-parameter); so no value "
                "computed for a previous sample can leak into the next one.")
    K = _kernel.Kernel(ctx.prog)
    wo = K.written_outside_init()
    ctx.notes.append({"kernel_fields": len(K.fields), "fields_rewritten_per_sample": sorted(wo)})
    n = 0
    for entry in ("batch_marginal_ln_likelihood", "batch_get_posterior_samples", "test_likelihood_worker"):
        res, evs = _kernel.carry_analysis(K, entry)
        seen = set()
        for ev, ok, why in res:
            k = (ev.field, ev.idx, why if not ok else "")
            if k in seen:
                continue
            seen.add(k)
            n += 1
            inst = "%s: read of %s%s" % (entry, ev.field, "[%s]" % ", ".join(ev.idx) if ev.idx else "")
            if ok:
                ctx.ok(R, ev.node, inst, why)
            else:
                ctx.violate(R, ev.node, inst, why, key="%s:%s%s" % (entry, ev.field, "[%s]" % ",".join(ev.idx) if ev.idx else ""))
    ctx.floor(R, n, 40)
    ctx.floor("C05-FIELDS", len(K.fields), 34)
    return K


PICKLE_HOOKS = ("__reduce__", "__reduce_ex__", "__getstate__", "__setstate__", "__getnewargs__", "__getnewargs_ex__")


def check_pickle(ctx):
    R = "C05-PICKLE"
    ctx.rule(R, "the objects shipped to worker processes inside the helper (RVData, JokerPrior) arrive in the state they had: either they define no pickle hook (default "
                "pickling copies the instance state as is) or a constructor-based __reduce__ hands every stored quantity back - for RVData in particular "
                "t_ref=False if self.t_ref is None else self.t_ref (a stored None means 'no reference epoch', None given to the constructor means 'earliest time').")
    from .C15 import tref_preserved
    for mod, cname in (("thejoker.data", "RVData"), ("thejoker.prior", "JokerPrior")):
        m = ctx.prog.module(mod)
        c = m.classes.get(cname)
        if c is None:
            raise AnalysisIncomplete(R, cname, "class not found")
        hooks = {f.name: f for f in c.body if isinstance(f, ast.FunctionDef) and f.name in PICKLE_HOOKS}
        if not hooks:
            ctx.ok(R, c, "%s uses default pickling" % cname, "no pickle hook defined: the instance state is copied as is")
            continue
        if set(hooks) != {"__reduce__"} or cname != "RVData":
            ctx.undecided(R, c, "%s pickle hooks" % cname, "custom hooks %s: state equivalence after the round trip is not decided" % sorted(hooks))
            continue
        red = hooks["__reduce__"]
        flow = A.Flow(red)
        ok = bool(flow.returns)
        why = ""
        init = ctx.prog.func(mod, cname + ".__init__", R)
        params = A.param_names(init)[1:]
        for v, st in flow.returns:
            if not (isinstance(v, ast.Tuple) and len(v.elts) >= 2 and canon(v.elts[0]) in ("self.__class__", cname, "type(self)") and isinstance(v.elts[1], ast.Tuple)):
                ctx.undecided(R, red, "RVData.__reduce__ shape", "returns `%s`, not (class, (constructor arguments))" % A.unparse(v)[:80])
                ok = None
                break
            if len(v.elts) > 2:
                ctx.undecided(R, red, "RVData.__reduce__ shape", "returns extra state `%s`" % A.unparse(v)[:80])
                ok = None
                break
            bound = dict(zip(params, v.elts[1].elts))
            want = {"t": ("self.t", "self._t_bmjd"), "rv": ("self.rv",), "rv_err": ("self.rv_err",)}
            for k, alts in want.items():
                a = bound.get(k)
                if a is None or dotted(A.strip_casts(a)) not in alts:
                    ok, why = False, "constructor argument %s is `%s`" % (k, A.unparse(a)[:40] if a is not None else "missing")
            has, okf = tref_preserved(bound.get("t_ref"))
            if ok and not (has and okf):
                ok = False
                why = ("t_ref is rebuilt from `%s`: data created with t_ref=False (stored as None) come back in the workers with the earliest time as reference epoch, "
                       "so every phase and ln-likelihood of a multi-process run differs from the serial one") % (A.unparse(bound["t_ref"])[:50] if "t_ref" in bound else "the default")
        if ok is not None:
            ctx.check(R, red, "RVData.__reduce__ rebuilds the same object", ok, why, key="reduce:RVData")


def check_fresh(ctx):
    R = "C05-FRESH"
    ctx.rule(R, "the helper is rebuilt for every API call from (data, prior, trend_M): __reduce__ returns (CJokerHelper, (self.data, self.prior, array(self.trend_M))) in "
                "constructor order and __init__ stores each of its parameters unmodified; no function on a sampler path is memoised, writes module-level state, or "
                "stores attributes/items through one of its parameters (allow-listed exceptions carry a reason).")
    K = _kernel.Kernel(ctx.prog)
    red = K.methods.get("__reduce__")
    init = K.methods.get("__init__")
    if red is None or init is None:
        ctx.undecided(R, K.mod.tree, "__reduce__ / __init__", "method missing")
        return
    rets = [s for s in A.walk_local(red) if isinstance(s, ast.Return)]
    params = A.param_names(init)[1:]
    ok = False
    why = "no return"
    if len(rets) == 1 and isinstance(rets[0].value, ast.Tuple) and len(rets[0].value.elts) == 2:
        cls_, args = rets[0].value.elts
        why = "__reduce__ returns `%s`" % A.unparse(rets[0].value)[:80]
        if canon(cls_) == "CJokerHelper" and isinstance(args, ast.Tuple) and len(args.elts) == len(params):
            got = [canon(A.strip_casts(a)) for a in args.elts]
            ok = got == ["self." + p for p in params]
            why = "__reduce__ passes %s for constructor parameters %s" % (got, params)
    ctx.check(R, red, "__reduce__ rebuilds the helper from (data, prior, trend_M) in constructor order", ok, why, key="reduce")
    for p in params:
        st = [s for s in A.walk_local(init) if isinstance(s, ast.Assign) and dotted(s.targets[0]) == "self." + p]
        okp = len(st) == 1 and canon(st[0].value) == p
        ctx.check(R, init, "__init__ stores `%s` unmodified" % p, okp, "self.%s = %s" % (p, [A.unparse(s.value)[:40] for s in st]), key="init:" + p)
    # hidden state on sampler paths
    cg = CallGraph(ctx.prog)
    reach = cg.reachable(ENTRY)
    extra = [(UT, "_pytensor_get_mean_std"), (UT, "table_header_to_units")] + [(FL, "CJokerHelper." + m) for m in K.methods] + [(FL, "get_ivar")]
    keys = sorted(set(reach) | {k for k in extra if k in cg.funcs})
    n = 0
    module_names = {}
    for mn, m in ctx.prog.modules.items():
        module_names[mn] = {t.id for s in m.tree.body if isinstance(s, ast.Assign) for t in s.targets if isinstance(t, ast.Name)}
    # module-level objects of the package visible in a module under an imported name
    own = {mn: set(v) for mn, v in module_names.items()}
    for mn, m in ctx.prog.modules.items():
        for node in ast.walk(m.tree):
            if isinstance(node, ast.ImportFrom):
                src = [k for k in own if node.module and (k.endswith("." + node.module.lstrip(".")) or k == node.module)]
                for a_ in node.names:
                    if any(a_.name in own[k] for k in src):
                        module_names[mn].add(a_.asname or a_.name)
    MUTATORS = {"update", "append", "extend", "setdefault", "pop", "popitem", "clear", "insert", "remove", "sort", "reverse", "add", "discard", "__setitem__"}
    for key in keys:
        fn = cg.funcs[key]
        mn, q = key
        n += 1
        decs = [(dotted(d) or dotted(getattr(d, "func", None)) or "").split(".")[-1] for d in fn.decorator_list]
        bad = [d for d in decs if d in CACHE_DECOS]
        ctx.check(R, fn, "%s is not memoised" % q, not bad, "decorated with @%s: results depend on what was evaluated before (e.g. a file rewritten under the same name)" % (bad[0] if bad else ""), key="memo:" + q, nontrivial=False)
        params = set(A.param_names(fn)) - {"self", "cls"}
        for node in A.walk_local(fn):
            if isinstance(node, ast.Global):
                ctx.violate(R, node, "%s declares global state" % q, "`global %s`: module-level state survives between calls" % ", ".join(node.names), key="global:" + q)
            tgt = None
            if isinstance(node, (ast.Assign, ast.AugAssign)):
                tgts = node.targets if isinstance(node, ast.Assign) else [node.target]
                for t in tgts:
                    if isinstance(t, (ast.Attribute, ast.Subscript)):
                        root = t
                        while isinstance(root, (ast.Attribute, ast.Subscript)):
                            root = root.value
                        if isinstance(root, ast.Name):
                            if root.id in params and isinstance(t, ast.Attribute):
                                why2 = ALLOWED_PARAM_MUTATION.get((mn, q, root.id))
                                if why2:
                                    ctx.ok(R, node, "%s stores through parameter `%s`" % (q, root.id), "allow-listed: " + why2, nontrivial=False)
                                else:
                                    ctx.violate(R, node, "%s stores an attribute on its parameter `%s`" % (q, root.id),
                                                "`%s` caches state on a caller-owned object: a later call with other inputs sees the stale value" % A.unparse(t)[:50], key="param-attr:%s:%s" % (q, root.id))
                            elif root.id in module_names.get(mn, ()) and root.id not in A.assigned_names(fn) - {root.id} and root.id not in params and _is_module_level(root.id, fn):
                                ctx.violate(R, node, "%s writes module-level state `%s`" % (q, root.id), "`%s` mutates a module-level object: results depend on call history" % A.unparse(t)[:50], key="modstate:%s:%s" % (q, root.id))
            if isinstance(node, ast.Call) and isinstance(node.func, ast.Attribute) and node.func.attr in MUTATORS:
                root = node.func.value
                while isinstance(root, (ast.Attribute, ast.Subscript)):
                    root = root.value
                if isinstance(root, ast.Name) and root.id in module_names.get(mn, ()) and root.id not in params and _is_module_level(root.id, fn):
                    ctx.violate(R, node, "%s changes module-level state `%s`" % (q, root.id),
                                "`%s` mutates a module-level object shared by every later call (and by the helper, which reads it): results depend on call history" % A.unparse(node)[:60],
                                key="modstate:%s:%s" % (q, root.id))
            if isinstance(node, ast.Call) and A.call_name(node) == "setattr" and node.args and isinstance(node.args[0], ast.Name) and node.args[0].id in params:
                ctx.violate(R, node, "%s sets an attribute on its parameter `%s`" % (q, node.args[0].id), "setattr on a caller-owned object caches state across calls", key="param-setattr:%s:%s" % (q, node.args[0].id))
    ctx.floor(R, n, 30)


def _is_module_level(name, fn):
    # the name is not a local of fn (never plainly assigned there)
    for n in A.walk_local(fn):
        if isinstance(n, ast.Name) and n.id == name and isinstance(n.ctx, ast.Store):
            return False
    return True


def check_feed(ctx):
    R = "C05-FEED"
    ctx.rule(R, "every array reaching batch_marginal_ln_likelihood / batch_get_posterior_samples derives (through dtype casts and row indexing only) from "
                "read_batch(file, H.packed_order, rows, units=H.internal_units) or pack(units=H.internal_units, names=H.packed_order) with H the very helper whose kernel "
                "is called, or is the caller's own packed array passed through unchanged (documented in_memory escape hatch).")
    n = 0
    for mod, q in ((MP, "marginal_ln_likelihood_worker"), (MP, "make_full_samples_worker")):
        fn = ctx.prog.func(mod, q, R)
        flow = A.Flow(fn)
        for c in A.calls_in(fn):
            if A.last_attr(c) in ("batch_marginal_ln_likelihood", "batch_get_posterior_samples"):
                n += 1
                H = canon(c.func.value)
                a = A.strip_casts(flow.resolve(c.args[0], at=A.enclosing_stmt(c)))
                ok = False
                why = "kernel input `%s` is not a read_batch(...) result" % A.unparse(a)[:70]
                if isinstance(a, ast.Call) and A.call_name(a) == "read_batch":
                    cols = A.get_arg(a, 1, "columns")
                    un = A.get_arg(a, 3, "units")
                    Hs = flow.resolve(c.func.value, at=A.enclosing_stmt(c))
                    okc = cols is not None and canon(cols) == canon(flow.resolve(ast.Attribute(value=c.func.value, attr="packed_order", ctx=ast.Load()), at=A.enclosing_stmt(c)))
                    oku = un is not None and canon(un) == canon(flow.resolve(ast.Attribute(value=c.func.value, attr="internal_units", ctx=ast.Load()), at=A.enclosing_stmt(c)))
                    ok = okc and oku
                    why = "read_batch(columns=%s, units=%s) does not use the packed order and internal units of the helper `%s` whose kernel is called" % (
                        A.unparse(cols) if cols is not None else None, A.unparse(un) if un is not None else None, H)
                ctx.check(R, c, "%s: kernel input read in the helper's packed order and internal units" % q, ok, why, key=q)
    for mod, q in ((LH, "marginal_ln_likelihood_inmem"), (LH, "make_full_samples_inmem")):
        fn = ctx.prog.func(mod, q, R)
        flow = A.Flow(fn)
        for c in A.calls_in(fn):
            if A.last_attr(c) in ("batch_marginal_ln_likelihood", "batch_get_posterior_samples"):
                n += 1
                a = A.strip_casts(flow.resolve(c.args[0], at=A.enclosing_stmt(c)))
                ok = canon(a) == "prior_samples_batch" and canon(c.func.value) == "joker_helper"
                ctx.check(R, c, "%s: kernel gets the caller's packed batch unchanged, on the caller's helper" % q, ok, "kernel input is `%s` on `%s`" % (A.unparse(a)[:50], A.unparse(c.func.value)), key=q)
    # pack sites in the API
    for meth in ("TheJoker.marginal_ln_likelihood", "TheJoker.rejection_sample", "TheJoker.iterative_rejection_sample"):
        fn = ctx.prog.func(TJ, meth, R)
        packs = [c for c in A.calls_in(fn) if A.last_attr(c) == "pack"]
        # the method's helper: the object built by self._make_joker_helper(data) (whatever the local is called)
        HX = canon(parse("self._make_joker_helper(data)"))

        def is_helper(e, at):
            return canon(A.inline_temporaries(e, at, fn)) == HX
        for c in packs:
            n += 1
            un = A.get_arg(c, 0, "units")
            nm = A.get_arg(c, 1, "names")
            at_ = A.enclosing_stmt(c)
            ok = un is not None and nm is not None and isinstance(un, ast.Attribute) and un.attr == "internal_units" and is_helper(un.value, at_) \
                and isinstance(nm, ast.Attribute) and nm.attr == "packed_order" and is_helper(nm.value, at_)
            ctx.check(R, c, "%s packs in the helper's internal units and packed order" % meth, ok, "pack(units=%s, names=%s)" % (A.unparse(un) if un is not None else None, A.unparse(nm) if nm is not None else None), key=meth + ":pack")
        # the helper handed on is that same helper
        for c in A.calls_in(fn):
            if A.last_attr(c) in ("marginal_ln_likelihood_inmem", "marginal_ln_likelihood_helper", "rejection_sample_inmem", "rejection_sample_helper", "iterative_rejection_inmem", "iterative_rejection_helper"):
                n += 1
                a0 = A.get_arg(c, 0, "joker_helper")
                ctx.check(R, c, "%s hands its own helper to %s" % (meth, A.last_attr(c)), a0 is not None and is_helper(a0, A.enclosing_stmt(c)), "first argument `%s`" % (A.unparse(a0) if a0 is not None else None), key="%s:%s" % (meth, A.last_attr(c)), nontrivial=False)
        ctx.check(R, fn, "%s packs JokerSamples on the in-memory path" % meth, len(packs) == 1, "found %d pack calls" % len(packs), key=meth + ":packs", nontrivial=False)
    # the kernel's own order table
    K = _kernel.Kernel(ctx.prog)
    init = K.methods["__init__"]
    st = [s for s in A.walk_local(init) if isinstance(s, ast.Assign) and dotted(s.targets[0]) == "self.packed_order"]
    ctx.check(R, init, "helper.packed_order is the module's packed order table", len(st) == 1 and canon(st[0].value) == "_nonlinear_packed_order", "packed_order = %s" % [A.unparse(s.value) for s in st], key="packed_order")
    ctx.floor(R, n, 13)


def check_seq(ctx):
    R = "C05-SEQ"
    ctx.rule(R, "on every rejection path no draw from the parent generator precedes the acceptance uniforms except the row-order choice guarded by randomize_prior_order; "
                "inside the iterative loop the uniform draw is the only draw.")
    for mod, name in _rej.SITES:
        S = _rej.analyze(ctx.prog, mod, name)
        if S.acc is None or S.acc.get("form") is None:
            ctx.undecided(R, S.fn, "%s: acceptance site" % name, "not recognised")
            continue
        ds = draw_sites(S.fn)
        # the statement that draws the acceptance uniforms is the reference point of the draw order
        # (document order of the normalised function body: line numbers are meaningless once helpers have been spliced in)
        acc_at = S.acc_stmt
        for call, recv, kind in ds:
            if isinstance(call.func, ast.Attribute) and call.func.attr in ("uniform", "random") and _feeds_mask(S, call):
                acc_at = A.enclosing_stmt(call)
        spawn_calls = [c for c in A.calls_in(S.fn) if (A.last_attr(c) or "").startswith("make_full_samples")]
        before = []
        for call, recv, kind in ds:
            if A.dominates_or_before(A.enclosing_stmt(call), acc_at) and not (isinstance(call.func, ast.Attribute) and call.func.attr in ("uniform", "random") and _feeds_mask(S, call)):
                before.append(call)
        bad = []
        for c in before:
            g = A.term_strings(A.path_condition(A.enclosing_stmt(c), S.fn, inline=False))
            if isinstance(c.func, ast.Attribute) and c.func.attr == "choice" and "+randomize_prior_order" in g:
                continue
            bad.append(c)
        ctx.check(R, S.acc_stmt, "%s: acceptance uniforms are the first draw" % name, not bad,
                  "`%s` draws from the generator before the acceptance uniforms: with equal seeds this path accepts a different set than its siblings" % (A.unparse(bad[0])[:60] if bad else ""), key=name + ":first")
        ctx.check(R, S.acc_stmt, "%s: linear-parameter generators are derived after the acceptance step" % name, all(A.dominates_or_before(acc_at, A.enclosing_stmt(c)) for c in spawn_calls),
                  "make_full_samples runs before the acceptance uniforms are drawn", key=name + ":after", nontrivial=False)
        unis = [c for c, _, _ in ds if isinstance(c.func, ast.Attribute) and c.func.attr in ("uniform", "random")]
        ctx.check(R, S.acc_stmt, "%s: one uniform draw per acceptance test" % name, len(unis) == 1, "%d uniform draws" % len(unis), key=name + ":one")


def _feeds_mask(S, call):
    """is this draw the U of the acceptance mask?"""
    U = S.acc.get("U")
    return U is not None and canon(U) == canon(S.flow.resolve(call, at=A.enclosing_stmt(call)))


def check_order(ctx):
    R = "C05-ORDER"
    ctx.rule(R, "from pool.map to the returned array only order-preserving operations occur (append in iteration order, np.concatenate); no sort/set/shuffle/reverse.")
    from .C16 import check_run_worker
    # run_worker order + concatenation at both consumers
    fn = ctx.prog.func(MP, "run_worker", R)
    bad = [c for c in A.calls_in(fn) if A.last_attr(c) in ("sort", "sorted", "shuffle", "reversed", "set", "unique", "permutation", "argsort")]
    ctx.check(R, fn, "run_worker does not reorder tasks or results", not bad, "`%s` reorders on the task path" % (A.unparse(bad[0])[:50] if bad else ""), key="run_worker")
    for q in ("marginal_ln_likelihood_helper", "make_full_samples"):
        f = ctx.prog.func(MP, q, R)
        flow = A.Flow(f)
        cc = [c for c in A.calls_in(f) if (A.call_name(c) or "").endswith("concatenate")]
        ok = len(cc) == 1
        if ok:
            a = flow.resolve(cc[0].args[0], at=A.enclosing_stmt(cc[0]))
            ok = isinstance(a, ast.Call) and A.last_attr(a) == "run_worker"
        ctx.check(R, f, "%s concatenates the worker results in task order" % q, ok, "results are not np.concatenate(run_worker(...))", key=q)
    maps = [c for c in A.calls_in(fn) if A.last_attr(c) == "map"]
    ctx.check(R, fn, "results are collected by iterating pool.map", len(maps) == 1 and canon(maps[0].func.value) == "pool", "found %d map calls" % len(maps), key="map", nontrivial=False)
    for other in ("imap_unordered", "apply_async", "map_async", "imap"):
        b2 = [c for c in A.calls_in(fn) if A.last_attr(c) == other]
        if b2:
            ctx.violate(R, b2[0], "pool.%s used" % other, "results may arrive out of task order", key="unordered:" + other)


def check_mutable_defaults(ctx, R):
    """who-may-keep-state rule over the whole package: a parameter whose default is a mutable container (`{}`, `[]`, `set()`, `dict()`, `list()`) is created once, at
    definition time - if the function fills it, returns it, stores it or passes it on, what one call put there is seen by every later call"""
    ctx.rule(R, "no function of the package uses a mutable default argument as storage: a default `{}` / `[]` / `set()` that is written to, returned, stored on an object or "
                "handed to another function is shared by all calls in the process (results then depend on what was analysed before).")
    n = 0
    for mn, q, fn in ctx.prog.all_functions():
        for f in ctx.prog.modules[mn].all_functions.get(q, [fn]):
            a = f.args
            pos = a.posonlyargs + a.args
            pairs = list(zip(pos[len(pos) - len(a.defaults):], a.defaults)) + [(x, d) for x, d in zip(a.kwonlyargs, a.kw_defaults) if d is not None]
            for arg, d in pairs:
                mutable = isinstance(d, (ast.Dict, ast.List, ast.Set)) or (isinstance(d, ast.Call) and (A.call_name(d) or "") in ("dict", "list", "set", "OrderedDict", "defaultdict", "collections.OrderedDict"))
                if not mutable:
                    continue
                n += 1
                nm = arg.arg
                rebound = [s_ for s_ in A.walk_local(f) if isinstance(s_, ast.Assign) and any(isinstance(t_, ast.Name) and t_.id == nm for t_ in s_.targets)]
                ws = A.storage_writes(f, lambda e, nm=nm: isinstance(e, ast.Name) and e.id == nm)
                escapes = []
                for x in A.walk_local(f):
                    if isinstance(x, ast.Return) and x.value is not None and any(isinstance(y, ast.Name) and y.id == nm for y in ast.walk(x.value)):
                        escapes.append(x)
                    if isinstance(x, ast.Assign) and any(isinstance(t_, (ast.Attribute, ast.Subscript)) for t_ in x.targets) and isinstance(x.value, ast.Name) and x.value.id == nm:
                        escapes.append(x)
                    if isinstance(x, ast.Call) and (any(isinstance(y, ast.Name) and y.id == nm for y in x.args) or any(isinstance(k.value, ast.Name) and k.value.id == nm for k in x.keywords)) \
                            and (A.call_name(x) or "") not in ("len", "isinstance", "list", "dict", "tuple", "set", "sorted", "enumerate", "zip", "iter", "bool", "str", "repr"):
                        escapes.append(x)
                bad = (ws or escapes) and not (rebound and False)
                site = (ws[0][0] if ws else escapes[0]) if (ws or escapes) else f
                ctx.check(R, site, "default `%s=%s` of %s is never used as storage" % (nm, A.unparse(d), q), not bad,
                          "the one object created for the default `%s=%s` is %s (`%s`): it carries state from call to call" % (
                              nm, A.unparse(d), "written to" if ws else "returned, stored or passed on", A.unparse(site)[:60] if not isinstance(site, ast.FunctionDef) else q), key="mutable-default:%s:%s" % (q, nm))
    ctx.ok(R, ("thejoker", 1, "thejoker.<package>"), "%d mutable defaults inspected" % n, nontrivial=False)


def check_dtype(ctx):
    R = "C05-DTYPE"
    ctx.rule(R, "sibling agreement on precision: the three producers of the packed array - JokerSamples.pack (in memory), read_batch_slice and read_batch_idx (cache) - carry "
                "out the unit conversion in the same precision, that of the stored samples (the array keeps the library's dtype until the conversion is done; the kernel "
                "casts to double afterwards).  A reader that allocates double precision up front converts a single-precision library in double and returns other "
                "numbers for the same prior sample than its siblings.")
    ut = "thejoker.utils"
    pol = {}
    site = {}
    for q in ("read_batch_slice", "read_batch_idx"):
        fn = ctx.prog.func(ut, q, R)
        allocs = [c for c in A.calls_in(fn) if (A.call_name(c) or "") in ("np.zeros", "np.empty", "np.full", "np.zeros_like", "np.empty_like")]
        if len(allocs) != 1:
            pol[q], site[q] = "unknown (%d allocations)" % len(allocs), fn
            continue
        d = A.get_arg(allocs[0], None, "dtype")
        site[q] = allocs[0]
        if d is None:
            pol[q] = "float64"
        elif isinstance(d, ast.Attribute) and d.attr == "dtype":
            src = A.inline_temporaries(d.value, A.enclosing_stmt(allocs[0]), fn)
            pol[q] = "stored" if isinstance(src, ast.Call) and A.last_attr(src) in ("read", "read_coordinates") else "dtype of `%s`" % A.unparse(src)[:40]
        else:
            pol[q] = "float64" if canon(d) in ("np.float64", "float", "np.double") or A.str_const(d) in ("f8", "float64", "d") else "`%s`" % A.unparse(d)[:30]
    pk = ctx.prog.func("thejoker.samples", "JokerSamples.pack", R)
    casts = [c for c in A.calls_in(pk) if A.last_attr(c) == "astype" or ((A.call_name(c) or "") in ("np.zeros", "np.empty", "np.asarray", "np.array") and A.get_arg(c, None, "dtype") is not None)]
    pol["pack"] = "stored" if not casts else "cast (`%s`)" % A.unparse(casts[0])[:40]
    site["pack"] = casts[0] if casts else pk
    ref = pol["pack"]
    for q in ("read_batch_slice", "read_batch_idx"):
        ctx.check(R, site[q], "%s converts in the same precision as the in-memory path" % q, pol[q] == ref,
                  "%s allocates its batch as %s, JokerSamples.pack keeps %s: a single-precision library is converted in another precision on this path "
                  "(ln-likelihoods of the same sample differ between execution paths)" % (q, pol[q], ref), key="dtype")
    ctx.notes.append({"precision_policy": pol})


def run(ctx):
    from .C07 import _Relabel
    check_dtype(ctx)
    check_mutable_defaults(ctx, "C05-DEFAULTS")
    check_pickle(ctx)
    from .C02 import check_cache
    check_cache(ctx, "C05-CACHE")
    check_carry(ctx)
    check_fresh(ctx)
    check_feed(ctx)
    check_seq(ctx)
    check_order(ctx)
    from .C06 import check_site
    from .C02 import check_acc
    ctx.rule("C05-SPACE", "what the sampler reports for a returned row is the likelihood computed for that row: ln_likelihood = L[G] with L the evaluated array and G the accepted "
                          "positions (shared with C06-SPACE), and the acceptance runs over exactly the values evaluated so far (shared with C02-ACC).")
    for mod, name in _rej.SITES:
        S = _rej.analyze(ctx.prog, mod, name)
        check_site(_Relabel(ctx, {"C06-SPACE": "C05-SPACE", "C06-FIELD": "C05-SPACE", "C06-ALL": "C05-SPACE"}), S)
        check_acc(_Relabel(ctx, {"C02-ACC": "C05-SPACE"}), S)
        from .C02 import check_trunc
        check_trunc(_Relabel(ctx, {"C02-TRUNC": "C05-SPACE"}), S)
    from .C12 import check_unit_refusal, check_refuse, check_dispatch
    ctx.rule("C05-APPEND", "a cache built chunk by chunk holds what its header says: appends with other (even convertible) units or conflicting column metadata are refused "
                           "(shared with C12-REFUSE), and every selector kind reads through the same unit conversion (shared with C12-DISPATCH).")
    check_unit_refusal(_Relabel(ctx, {"C12-REFUSE": "C05-APPEND"}))
    check_refuse(_Relabel(ctx, {"C12-REFUSE": "C05-APPEND"}))
    check_dispatch(_Relabel(ctx, {"C12-DISPATCH": "C05-APPEND"}))
    ctx.rule("C05-PART", "batches partition the rows exactly once and in order for every n_batches (shared implementation with C16-P / C16-RUN).")
    from .C16 import check_batch_tasks, check_run_worker
    check_batch_tasks(_Relabel(ctx, {"C16-P": "C05-PART"}))
    check_run_worker(_Relabel(ctx, {"C16-RUN": "C05-PART"}))
    ctx.rule("C05-ROWS", "the batch readers return the requested rows in the requested order with the requested columns and units (shared with C12-COL): "
                         "a likelihood value is then attributed to the sample it was computed for, whatever the batch layout.")
    from .C12 import _reader_checks
    _reader_checks(ctx, "C05-ROWS", "read_batch_slice", "slice")
    _reader_checks(ctx, "C05-ROWS", "read_batch_idx", "idx")
    ctx.assume("LAPACK dgetrf/dgetri/dsysv read and write exactly the documented in/out arguments; c_rv_from_elements writes rv[0:N_t] and reads t[0:N_t]")
    ctx.assume("floating-point results of the same operation sequence are equal across processes (bitwise equality is not decided)")
