"""C04 - a sample row denotes one RV curve everywhere (Bayes identity holds)."""
import ast

from .. import astutil as A
from ..norm import canon, parse, dotted, equal
from . import _kernel

SM = "thejoker.samples"
LH = "thejoker.likelihood_helpers"
MP = "thejoker.multiproc_helpers"


def check_tref(ctx, K):
    R = "C04-TREF"
    ctx.rule(R, "one reference epoch: the kernel's Kepler t0 and the trend matrix's dt both derive from data._t_ref_bmjd of the data object the helper stores; every "
                "JokerSamples.unpack on a sampler path passes t_ref=<helper>.data.t_ref, poly_trend and n_offsets from <helper>.prior; get_orbit gives self.t_ref to both the "
                "orbital elements and the polynomial trend.")
    init = K.methods["__init__"]
    t0 = [s for s in A.walk_local(init) if isinstance(s, ast.Assign) and dotted(s.targets[0]) == "self.t0"]
    ctx.check(R, t0[0] if t0 else init, "kernel Kepler epoch = data._t_ref_bmjd", len(t0) == 1 and canon(t0[0].value) == canon(parse("data._t_ref_bmjd")), "self.t0 = %s" % (A.unparse(t0[0].value) if t0 else None), key="kernel-t0")
    dd = [s for s in A.walk_local(init) if isinstance(s, ast.Assign) and dotted(s.targets[0]) == "self.data"]
    ctx.check(R, dd[0] if dd else init, "helper stores that same data object", len(dd) == 1 and canon(dd[0].value) == "data", "self.data = %s" % (A.unparse(dd[0].value) if dd else None), key="helper-data")
    tf = ctx.prog.func(LH, "get_trend_design_matrix", R)
    vd = [c for c in A.calls_in(tf) if A.call_name(c) == "np.vander"]
    dtv = A.inline_temporaries(vd[0].args[0], A.enclosing_stmt(vd[0]), tf) if len(vd) == 1 and vd[0].args else None
    okd = dtv is not None and canon(dtv) == canon(parse("data._t_bmjd - data._t_ref_bmjd"))
    ctx.check(R, vd[0] if vd else tf, "trend polynomial is in (t - t_ref)", okd,
              "the trend powers are taken of `%s`: the sampled v_i are coefficients about another epoch than the t_ref the samples carry and get_orbit uses" % (A.unparse(dtv) if dtv is not None else None), key="trend-dt")
    n = 0
    for mod, q in ((LH, "make_full_samples_inmem"), (MP, "make_full_samples")):
        f = ctx.prog.func(mod, q, R)
        un = [c for c in A.calls_in(f) if A.last_attr(c) == "unpack"]
        if len(un) != 1:
            ctx.violate(R, f, "%s unpacks once" % q, "found %d unpack calls" % len(un), key=q + ":unpack")
            continue
        n += 1
        c = un[0]
        want = {"t_ref": "joker_helper.data.t_ref", "poly_trend": "joker_helper.prior.poly_trend", "n_offsets": "joker_helper.prior.n_offsets"}
        for kw, src in want.items():
            v = A.get_arg(c, None, kw)
            ctx.check(R, c, "%s: posterior samples inherit %s" % (q, src), v is not None and canon(v) == canon(parse(src)),
                      "%s=%s" % (kw, A.unparse(v) if v is not None else "not passed (samples.t_ref would be None / defaults)"), key="%s:%s" % (q, kw))
    ctx.floor(R, n, 2)
    go = ctx.prog.func(SM, "JokerSamples.get_orbit", R)
    ORB = _orb(go)
    el = [s for s in A.walk_local(go) if isinstance(s, ast.Assign) and dotted(s.targets[0]) == ORB + ".elements.t0"]
    ctx.check(R, el[0] if el else go, "get_orbit: elements.t0 = self.t_ref", len(el) == 1 and canon(el[0].value) == "self.t_ref", "elements.t0 = %s" % (A.unparse(el[0].value) if el else "not set"), key="orbit-t0")
    vt = [c for c in A.calls_in(go) if A.call_name(c) == "PolynomialRVTrend"]
    okv = len(vt) == 1 and canon(A.get_arg(vt[0], None, "t0") or ast.Constant(value=None)) == "self.t_ref"
    ctx.check(R, vt[0] if vt else go, "get_orbit: trend epoch = self.t_ref", okv, "PolynomialRVTrend(t0=%s)" % (A.unparse(A.get_arg(vt[0], None, "t0")) if vt and A.get_arg(vt[0], None, "t0") is not None else None), key="trend-t0")
    tr = ctx.prog.func(SM, "JokerSamples.t_ref", R)
    rr = [s for s in A.walk_local(tr) if isinstance(s, ast.Return)]
    ctx.check(R, tr, "samples.t_ref is the stored metadata", len(rr) == 1 and canon(rr[0].value) == canon(parse("self.tbl.meta['t_ref']")), "t_ref = %s" % (A.unparse(rr[0].value) if rr else None), key="t_ref-prop", nontrivial=False)


def _orb(go):
    """name of the orbit object get_orbit builds and returns"""
    rets = [s for s in A.walk_local(go) if isinstance(s, ast.Return) and isinstance(s.value, ast.Name)]
    names = {s.value.id for s in rets}
    return names.pop() if len(names) == 1 else "orbit"


def check_map(ctx):
    R = "C04-MAP"
    ctx.rule(R, "get_orbit: element _X is column X (P, e, omega, M0) at the requested index; a = P K / (2 pi) sqrt(1 - e^2); trend coefficients are the columns named by "
                "get_linear_equiv_units(poly_trend) minus K, in order, at the same index; every linear column of the table (K, v_i, dv0_k) enters the reconstructed model.")
    go = ctx.prog.func(SM, "JokerSamples.get_orbit", R)
    flow = A.Flow(go)
    ORB = _orb(go)
    want = {"orbit.elements._P": "self['P'][INDEX]", "orbit.elements._e": "self['e'][INDEX] * u.dimensionless_unscaled", "orbit.elements._omega": "self['omega'][INDEX]", "orbit.elements._M0": "self['M0'][INDEX]"}
    for tgt, src in want.items():
        st = [s for s in A.walk_local(go) if isinstance(s, ast.Assign) and dotted(s.targets[0]) == ORB + tgt[len("orbit"):]]
        ok = False
        why = "%s not assigned" % tgt
        if len(st) == 1:
            v = flow.resolve(st[0].value, at=st[0])
            v = _index_symbol(v)
            ok = canon(v) == canon(parse(src))
            why = "%s = %s" % (tgt, A.unparse(v)[:70])
        ctx.check(R, st[0] if st else go, "%s <- column %s" % (tgt.split(".")[-1], src.split("'")[1]), ok, why, key=tgt)
    sa = [s for s in A.walk_local(go) if isinstance(s, ast.Assign) and dotted(s.targets[0]) == ORB + ".elements._a"]
    ok = False
    why = "_a not assigned"
    if len(sa) == 1:
        v = _index_symbol(flow.resolve(sa[0].value, at=sa[0]))
        # kwargs.pop('a', default)[index]
        if isinstance(v, ast.Subscript) and isinstance(v.value, ast.Call) and A.last_attr(v.value) == "pop" and len(v.value.args) == 2:
            dflt = v.value.args[1]
            ok = equal(dflt, parse("self['P'] * self['K'] / (2 * np.pi) * np.sqrt(1 - self['e']**2)")) and canon(v.slice) == "INDEX"
            why = "a = %s" % A.unparse(dflt)[:80]
        else:
            why = "a = %s" % A.unparse(v)[:80]
    ctx.check(R, sa[0] if sa else go, "a = P K / (2 pi) sqrt(1 - e^2) (so that the orbit's K equals the sampled K)", ok, why, key="a")
    vt = [c for c in A.calls_in(go) if A.call_name(c) == "PolynomialRVTrend"]
    okt = False
    why = "no PolynomialRVTrend"
    if len(vt) == 1 and vt[0].args:
        co = _index_symbol(flow.resolve(vt[0].args[0], at=A.enclosing_stmt(vt[0])))
        forms = ["[x[INDEX] for x in [self[x] for x in list(get_linear_equiv_units(self.poly_trend).keys())[1:]]]",
                 "[self[x][INDEX] for x in list(get_linear_equiv_units(self.poly_trend).keys())[1:]]",
                 "[self[x][INDEX] for x in list(get_linear_equiv_units(self.poly_trend))[1:]]"]
        okt = any(_comp_equal(co, parse(f)) for f in forms)
        why = "trend coefficients = %s" % A.unparse(co)[:110]
    ctx.check(R, vt[0] if vt else go, "trend coefficients = linear columns after K, in order, at the index", okt, why, key="trend")
    ix = [s for s in A.walk_local(go) if isinstance(s, ast.If) and A.always_raises(s.body) and "len(self) > 1" in A.unparse(s.test)]
    ctx.check(R, go, "an index is required for multi-row tables", bool(ix), "missing guard", key="index-guard", nontrivial=False)
    # offsets: every linear column must enter the model
    uses_offsets = any("dv0" in A.unparse(n) or "n_offsets" in A.unparse(n) or "get_v0_offsets_equiv_units" in A.unparse(n) for n in A.walk_local(go) if isinstance(n, (ast.Name, ast.Attribute, ast.Constant)))
    ll = ctx.prog.func(SM, "JokerSamples.ln_unmarginalized_likelihood", R)
    ll_offsets = any("dv0" in A.unparse(n) or "n_offsets" in A.unparse(n) or "ids" == getattr(n, "id", None) for n in A.walk_local(ll))
    ctx.check(R, go, "survey offsets dv0_k enter the reconstructed model", uses_offsets or ll_offsets,
              "get_orbit / ln_unmarginalized_likelihood never read the dv0_k columns (nor survey ids): for multi-survey data the reconstructed curve lacks the per-survey offsets the sampler's model contains",
              key="offset-columns-not-in-model")
    orb = ctx.prog.func(SM, "JokerSamples.orbits", R)
    ys = [n for n in A.walk_local(orb) if isinstance(n, ast.Yield)]
    lp = [l for l in A.walk_local(orb) if isinstance(l, ast.For)]
    oko = len(ys) == 1 and len(lp) == 1 and canon(lp[0].iter) == canon(parse("range(len(self))")) and canon(ys[0].value) == canon(parse("self.get_orbit(%s)" % lp[0].target.id))
    ctx.check(R, orb, "orbits yields get_orbit(i) for every row in order", oko, "orbits generator changed", key="orbits")


def _comp_equal(a, b):
    """list comprehensions equal modulo the name of their bound variable (one generator, possibly nested)"""
    def norm(e, k=[0]):
        e = A.clone(e)
        for c in [n for n in ast.walk(e) if isinstance(n, ast.ListComp) and len(n.generators) == 1 and isinstance(n.generators[0].target, ast.Name)]:
            old = c.generators[0].target.id
            new = "$v%d" % len([1 for _ in ast.walk(c)])
            for n in ast.walk(c.elt):
                if isinstance(n, ast.Name) and n.id == old:
                    n.id = new
            c.generators[0].target.id = new
        return canon(e)
    return norm(a) == norm(b)


def _index_symbol(v):
    """replace the merged index expression (0 if index is None else index) by the symbol INDEX"""
    class T(ast.NodeTransformer):
        def visit_Subscript(self, n):
            self.generic_visit(n)
            sl = n.slice
            if isinstance(sl, ast.IfExp) or (isinstance(sl, ast.Name) and sl.id == "index"):
                leaves = {canon(x) for x in A.strip_ifexp(sl)}
                if leaves <= {"index", "0"}:
                    n.slice = ast.Name(id="INDEX", ctx=ast.Load())
            return n
    return T().visit(A.clone(v))


def check_var(ctx):
    R = "C04-VAR"
    ctx.rule(R, "ln_unmarginalized_likelihood evaluates, per row i, sum ln N(model_rv_i(t) | y, err^2 + s_i^2) with model_rv_i the orbit of row i at the data times and s_i "
                "that row's jitter; ln_normal = -1/2 (log(2 pi var) + (x - mu)^2 / var).")
    ll = ctx.prog.func(SM, "JokerSamples.ln_unmarginalized_likelihood", R)
    lp = [l for l in A.walk_local(ll) if isinstance(l, ast.For)]
    ok = False
    why = "no loop over the rows"
    svar_src = None
    if len(lp) == 1:
        l = lp[0]
        roles = A.loop_roles(l.target, l.iter)
        idx = [k for k, (kind, _) in roles.items() if kind == "index"]
        orbs = [k for k, (kind, src) in roles.items() if kind == "elem" and canon(A.inline_temporaries(src, l, ll)) == "self.orbits"]
        others = [k for k, (kind, src) in roles.items() if kind == "elem" and k not in orbs]
        if len(idx) == 1 and len(orbs) == 1 and len(others) == 1 and len(roles) == 3:
            i, orb, s = idx[0], orbs[0], others[0]
            svar_src = roles[s][1]
            st = [x for x in l.body if isinstance(x, ast.Assign) and isinstance(x.targets[0], ast.Subscript) and isinstance(x.targets[0].value, ast.Name)]
            rets0 = [canon(r.value) for r in A.walk_local(ll) if isinstance(r, ast.Return)]
            st = [x for x in st if x.targets[0].value.id in rets0]
            if len(st) == 1:
                v = A.inline_temporaries(st[0].value, st[0], ll)
                want = "ln_normal(%s.radial_velocity(data.t).to_value(data.rv.unit), data.rv.value, data.rv_err.to_value(data.rv.unit) ** 2 + %s).sum()" % (orb, s)
                ok = canon(st[0].targets[0].slice) == i and canon(v) == canon(parse(want))
                why = "row store [%s] = %s" % (A.unparse(st[0].targets[0].slice), A.unparse(v)[:110])
            else:
                why = "no single store of the row's value into the returned array"
        else:
            why = "loop `for %s in %s` does not pair the row position with self.orbits and the per-row jitter variances" % (A.unparse(l.target), A.unparse(l.iter)[:60])
    ctx.check(R, lp[0] if lp else ll, "row i: sum ln N(model_i(t) | y, err^2 + s_i^2)", ok, why, key="row")
    # the per-row jitter variances, resolved through their (conditional) definitions
    fl = A.Flow(ll)
    vals = []
    if svar_src is not None:
        r = fl.resolve(svar_src, at=lp[0])
        vals = sorted(canon(A.inline_temporaries(x, lp[0], ll)) for x in A.strip_ifexp(r))
    oks = vals == sorted([canon(parse("self['s'].to_value(data.rv.unit) ** 2")), canon(parse("np.zeros(len(self))"))])
    ctx.check(R, lp[0] if lp else ll, "per-row jitter variance = s^2 in the data unit (0 without a jitter column)", oks, "jitter variances take %s" % vals, key="s_vars")
    rets = [s for s in A.walk_local(ll) if isinstance(s, ast.Return)]
    ctx.check(R, ll, "returns the per-row values", len(rets) == 1 and isinstance(rets[0].value, ast.Name), "returns %s" % [A.unparse(s.value) for s in rets], key="ret", nontrivial=False)
    ln = ctx.prog.func(LH, "ln_normal", R)
    rr = [s for s in A.walk_local(ln) if isinstance(s, ast.Return)]
    okn = len(rr) == 1 and equal(rr[0].value, parse("-0.5 * (np.log(2 * np.pi * var) + (x - mu) ** 2 / var)"))
    ctx.check(R, ln, "ln_normal = -1/2 (log(2 pi var) + (x - mu)^2 / var)", okn, "ln_normal returns `%s`" % (A.unparse(rr[0].value) if rr else None), key="ln_normal")


def check_infer(ctx):
    R = "C04-INFER"
    ctx.rule(R, "JokerSamples.from_inference_data flattens every quantity it takes from the MCMC result - parameter columns, log-probability columns and the divergence "
                "mask - with ONE operation (same method chain, same arguments): otherwise, with several chains, row i pairs the parameters of one draw with the "
                "log-probabilities / divergence flag of another.")
    fn = ctx.prog.func(SM, "JokerSamples.from_inference_data", R)
    forms = {}
    n = 0

    params = A.param_names(fn)
    root = params[2] if len(params) > 2 else "idata"          # (cls, prior, idata, data, ...): the MCMC result, whatever it is called
    roots = {root}
    grew = True
    while grew:
        grew = False
        for st in A.walk_local(fn):
            if isinstance(st, ast.Assign) and len(st.targets) == 1 and isinstance(st.targets[0], ast.Name) and st.targets[0].id not in roots:
                v = st.value
                base = v
                while isinstance(base, ast.Attribute):
                    base = base.value
                if isinstance(base, ast.Name) and base.id in roots and isinstance(v, (ast.Name, ast.Attribute)):
                    roots.add(st.targets[0].id)
                    grew = True

    def rooted(e):
        while isinstance(e, ast.Attribute):
            e = e.value
        return isinstance(e, ast.Name) and e.id in roots

    def source(e):
        """<result>[name] / <result>.x / getattr(<result>, x) / <result>.sample_stats.diverging, <result> being the MCMC result or a local view of it"""
        if isinstance(e, ast.Subscript) and rooted(e.value):
            return True
        if isinstance(e, ast.Attribute) and rooted(e.value) and not (isinstance(e.value, ast.Name) and e.attr in ("posterior", "sample_stats")) and e.attr not in ("to_numpy", "values", "stack", "ravel"):
            return True
        if isinstance(e, ast.Call) and A.call_name(e) == "getattr" and e.args and rooted(e.args[0]):
            return True
        return False

    class Abs(ast.NodeTransformer):
        def __init__(self):
            self.hits = 0

        def visit(self, node):
            if source(node):
                self.hits += 1
                return ast.Name(id="SRC", ctx=ast.Load())
            return super().visit(node)
    for st in A.walk_local(fn):
        if not isinstance(st, ast.Assign):
            continue
        v = A.inline_temporaries(st.value, st, fn)
        for sub in ast.walk(v):
            # the maximal method chain applied to a source: strip unit products around it
            pass
        a = Abs()
        v2 = a.visit(A.clone(v))
        if not a.hits:
            continue
        # the flattening is the method chain applied to SRC: climb from SRC while it is the receiver of an attribute access / the callee of a call
        par = {}
        for x in ast.walk(v2):
            for ch in ast.iter_child_nodes(x):
                par[id(ch)] = x
        for x in ast.walk(v2):
            if isinstance(x, ast.Name) and x.id == "SRC":
                cur = x
                while True:
                    p_ = par.get(id(cur))
                    if isinstance(p_, ast.Attribute) and p_.value is cur:
                        cur = p_
                    elif isinstance(p_, ast.Call) and p_.func is cur:
                        cur = p_
                    else:
                        break
                n += 1
                forms.setdefault(canon(cur), []).append(st)
    ctx.check(R, fn, "one flattening for parameters, log-probabilities and divergences", len(forms) == 1 and n >= 3,
              "different flattenings are applied: %s" % sorted(forms) if len(forms) != 1 else "only %d flattened quantities found" % n, key="flatten")


def run(ctx):
    check_infer(ctx)
    K = _kernel.Kernel(ctx.prog)
    check_tref(ctx, K)
    check_map(ctx)
    check_var(ctx)
    from .C07 import _Relabel
    from .C01 import check_jit, check_args
    ctx.rule("C04-JIT", "the marginal likelihood and conditional posterior contain the jitter the unmarginalised likelihood adds (shared implementation with C01-JIT).")
    check_jit(_Relabel(ctx, {"C01-JIT": "C04-JIT"}), K)
    ctx.rule("C04-KEPLER", "the design-matrix K column is c_rv_from_elements(t, P, 1, e, omega, M0, t_ref) of the packed row (shared implementation with C01-ARGS).")
    check_args(_Relabel(ctx, {"C01-ARGS": "C04-KEPLER"}), K)
    ctx.rule("C04-IO", "samples read back from a file carry the same reference epoch (FITS epoch written as TCB MJD and read back as such; metadata restored) - shared with C12-PATHS.")
    from .C12 import check_paths
    check_paths(_Relabel(ctx, {"C12-PATHS": "C04-IO"}))
    from .C07 import check_units_module
    ctx.rule("C04-UNIT", "the MCMC model is built from the prior variables through units.to_unit: obj * unit(obj).to(target), not the inverse factor (shared with C07-TOUNIT).")
    check_units_module(_Relabel(ctx, {"C07-TOUNIT": "C04-UNIT"}))
    from . import _rej
    from .C06 import check_site
    ctx.rule("C04-LL", "the marginal ln-likelihood a returned row reports is the one computed for that row: ln_likelihood = L[G] at the accepted positions (shared with C06-SPACE).")
    for mod_, name_ in _rej.SITES:
        check_site(_Relabel(ctx, {"C06-SPACE": "C04-LL", "C06-FIELD": "C04-LL", "C06-ALL": "C04-LL"}), _rej.analyze(ctx.prog, mod_, name_))
    from .C18 import check_guards
    ctx.rule("C04-NORMAL", "the identity ln p(y|theta) = ln p(y|theta,x) + ln p(x|theta) - ln N(x|a,A) needs Gaussian linear priors: every validation guard of the prior "
                           "constructors (Normal-only linear parameters, required names, units) is in place (shared with C18-GUARD).")
    check_guards(_Relabel(ctx, {"C18-GUARD": "C04-NORMAL"}))
    from .C12 import check_refuse
    ctx.rule("C04-META", "an append that would pair rows with another file's reference epoch / model metadata is refused: metadata_conflicts stays 'error' on every path into the "
                         "writer (shared with C12-REFUSE).")
    check_refuse(_Relabel(ctx, {"C12-REFUSE": "C04-META"}))
    from .C15 import check_tref as c15_tref
    ctx.rule("C04-EPOCH", "the epoch the kernel uses (data._t_ref_bmjd) is the TCB MJD of the t_ref the samples carry; the data object arrives unchanged in worker processes "
                          "(shared with C15-TREF and C05-PICKLE).")
    c15_tref(_Relabel(ctx, {"C15-TREF": "C04-EPOCH"}))
    from .C05 import check_pickle
    check_pickle(_Relabel(ctx, {"C05-PICKLE": "C04-EPOCH"}))
    from .C17 import check_wrap
    ctx.rule("C04-WRAP", "wrap_K keeps the curve of every row: K -> |K| together with omega -> (omega + pi) mod 2 pi on exactly the rows with K < 0 (shared with C17-WRAP).")
    check_wrap(_Relabel(ctx, {"C17-WRAP": "C04-WRAP"}))
    from .C17 import check_pack
    ctx.rule("C04-UNPACK", "unpack labels column i of the kernel's output with the i-th key of the units mapping the kernel's layout was built from (shared with C17-PACK).")
    check_pack(_Relabel(ctx, {"C17-PACK": "C04-UNPACK"}))
    ctx.assume("twobody's KeplerOrbit(P, e, omega, M0, a, t0) + PolynomialRVTrend(coeffs, t0) evaluates K (cos(omega + f) + e cos omega) + sum v_i (t - t0)^i, the kernel's model (library summary)")
