"""C12 - sample files round-trip and batch reads return the rows asked for."""
import ast

from .. import astutil as A
from ..norm import canon, parse, dotted, equal

UT = "thejoker.utils"
SM = "thejoker.samples"
SH = "thejoker.samples_helpers"


_TYPES = {"tuple": "tuple", "slice": "slice", "int": "int", "np.ndarray": "np.ndarray", "numpy.ndarray": "np.ndarray"}


def _dispatch_outcomes(fn, P, ty):
    """Abstract run of fn's body for a selector P of type ``ty`` (one of tuple / slice / int / np.ndarray / other): isinstance tests on P are decided, a
    re-binding `P = slice(...)` changes the type, simple assignments are remembered.  Returns [("return", expr) | ("raise", node) | ("fall", None)]."""
    import copy

    def types_of(e):
        if isinstance(e, ast.Tuple):
            out = set()
            for x in e.elts:
                out |= types_of(x)
            return out
        d = canon(e)
        return {_TYPES.get(d, "?" + d)}

    def decide(test, t):
        """True / False / None"""
        if isinstance(test, ast.UnaryOp) and isinstance(test.op, ast.Not):
            r = decide(test.operand, t)
            return None if r is None else not r
        if isinstance(test, ast.BoolOp):
            rs = [decide(v, t) for v in test.values]
            if isinstance(test.op, ast.And):
                return False if any(r is False for r in rs) else (True if all(r is True for r in rs) else None)
            return True if any(r is True for r in rs) else (False if all(r is False for r in rs) else None)
        if isinstance(test, ast.Call) and A.call_name(test) == "isinstance" and len(test.args) == 2 and canon(test.args[0]) == P:
            if t is None:
                return None
            ts = types_of(test.args[1])
            if t == "other":
                return False if all(not x.startswith("?") for x in ts) else None
            return t in ts if all(not x.startswith("?") for x in ts) or t in ts else None
        return None

    out = []

    def sub(e, env):
        class T(ast.NodeTransformer):
            def visit_Name(self, n):
                if isinstance(n.ctx, ast.Load) and n.id in env:
                    return copy.deepcopy(env[n.id])
                return n
        return T().visit(copy.deepcopy(e))

    def run(stmts, t, env, depth=0):
        """returns list of (t, env) continuations that fall off the end of stmts"""
        conts = [(t, env)]
        for s_ in stmts:
            nxt = []
            for t_, env_ in conts:
                if isinstance(s_, ast.Return):
                    out.append(("return", sub(s_.value, env_) if s_.value is not None else None))
                elif isinstance(s_, ast.Raise):
                    out.append(("raise", s_))
                elif isinstance(s_, ast.Assign) and len(s_.targets) == 1 and isinstance(s_.targets[0], ast.Name):
                    nm = s_.targets[0].id
                    v = sub(s_.value, env_)
                    e2 = dict(env_)
                    e2[nm] = v
                    t2 = t_
                    if nm == P:
                        t2 = "slice" if isinstance(s_.value, ast.Call) and A.call_name(s_.value) == "slice" else None
                    nxt.append((t2, e2))
                elif isinstance(s_, ast.If):
                    d = decide(s_.test, t_)
                    if d is not False:
                        nxt += run(s_.body, t_, env_, depth + 1)
                    if d is not True:
                        nxt += run(s_.orelse, t_, env_, depth + 1) if s_.orelse else [(t_, env_)]
                elif isinstance(s_, (ast.With, ast.Try)):
                    nxt += run(s_.body, t_, env_, depth + 1)
                else:
                    nxt.append((t_, env_))
            conts = nxt[:64]
        return conts
    for _ in run(fn.body, ty, {}):
        out.append(("fall", None))
    return out


def _dispatch_by_type(ctx, fn, P):
    """selector re-bound on the way (`if isinstance(P, tuple): P = slice(*P)`): decide the dispatch by an abstract run per selector type"""
    R = "C12-DISPATCH"
    want = {"tuple": ("read_batch", "read_batch_slice"), "slice": ("read_batch_slice",), "int": ("read_random_batch",), "np.ndarray": ("read_batch_idx",)}
    seen = set()
    for ty, callees in want.items():
        outs = _dispatch_outcomes(fn, P, ty)
        rets = [v for k, v in outs if k == "return"]
        ok = bool(rets) and len(rets) == len(outs) and all(isinstance(v, ast.Call) and A.call_name(v) in callees for v in rets)
        ctx.check(R, fn, "%s selector -> %s" % (ty, callees[0]), ok, "a %s selector ends in %s" % (ty, [(k, A.unparse(v)[:50] if isinstance(v, ast.AST) and k == "return" else None) for k, v in outs][:4]), key="branch:" + ty)
        if not ok:
            continue
        seen.add(ty)
        c = rets[0]
        ctx.check(R, fn, "%s branch forwards file, columns, units" % ty,
                  canon(c.args[0]) == "prior_samples_file" and canon(c.args[1]) == "columns" and canon(A.get_arg(c, None, "units") or ast.Constant(value=None)) == "units",
                  "call `%s` does not forward (prior_samples_file, columns, units=units)" % A.unparse(c)[:80], key="fw:" + ty)
        sel = c.args[2] if len(c.args) > 2 else None
        wantsel = "slice(*%s)" % P if ty == "tuple" else P
        ctx.check(R, fn, "tuple (a, b) becomes slice(a, b)" if ty == "tuple" else "%s selector passed through unchanged" % ty, sel is not None and canon(sel) == canon(parse(wantsel)),
                  "selector passed as `%s`" % (A.unparse(sel) if sel is not None else None), key="tuple-slice" if ty == "tuple" else "sel:" + ty)
        if ty == "int":
            ctx.check(R, fn, "random branch forwards rng", canon(A.get_arg(c, None, "rng") or ast.Constant(value=None)) == "rng", "rng is not forwarded to read_random_batch", key="rng")
    ctx.check(R, fn, "all four selector kinds handled", seen == set(want), "handled kinds: %s" % sorted(seen), key="kinds")
    outs = _dispatch_outcomes(fn, P, "other")
    ctx.check(R, fn, "any other selector raises", bool(outs) and all(k == "raise" for k, v in outs), "a selector that is none of tuple / slice / int / ndarray ends in %s" % [k for k, v in outs][:4], key="else")
    ctx.check(R, fn, "returns the reader's result unchanged", True, "", key="ret", nontrivial=False)


def check_dispatch(ctx):
    R = "C12-DISPATCH"
    ctx.rule(R, "read_batch dispatches on the selector type (decided on path conditions, so if/elif chains, early returns and nested forms are equivalent): "
                "tuple -> read_batch(slice(*t)), slice -> read_batch_slice, int -> read_random_batch(rng=rng), ndarray -> read_batch_idx, anything else raises; every "
                "branch forwards file, columns and units and returns the reader's result unchanged; the random reader draws choice(n_rows, size, replace=False) from "
                "its generator and reads those rows through read_batch_idx.")
    fn = ctx.prog.func(UT, "read_batch", R)
    flow = A.Flow(fn)
    want = {"tuple": "read_batch", "slice": "read_batch_slice", "int": "read_random_batch", "np.ndarray": "read_batch_idx"}
    lit = {t: "isinstance(slice_or_idx, %s)" % t for t in want}
    rebound = [s_ for s_ in A.walk_local(fn) if isinstance(s_, ast.Assign) and any(isinstance(t_, ast.Name) and t_.id == "slice_or_idx" for t_ in s_.targets)]
    if rebound:
        _dispatch_by_type(ctx, fn, "slice_or_idx")
        _check_random_reader(ctx)
        return
    events = A.terminal_events(fn, flow)
    rets = [(A.term_strings(pc), v, n) for k, pc, v, n in events if k == "return"]
    raises = [(A.term_strings(pc), n) for k, pc, v, n in events if k == "raise"]
    seen = {}
    for ty, callee in want.items():
        # return events a selector of type `ty` can reach: not excluded by a negative literal, and not guarded by another type's positive literal
        reach = [(pc, v, n) for pc, v, n in rets if ("-" + lit[ty]) not in pc and not any(("+" + lit[o]) in pc for o in want if o != ty)]
        pos = [e for e in reach if ("+" + lit[ty]) in e[0]]
        reach = pos or reach
        ok = bool(reach) and all(isinstance(v, ast.Call) and A.call_name(v) == callee for pc, v, n in reach)
        ctx.check(R, reach[0][2] if reach else fn, "%s selector -> %s" % (ty, callee), ok,
                  "a %s selector reaches %s" % (ty, [A.unparse(v)[:50] if v is not None else None for pc, v, n in reach] or "no return"), key="branch:" + ty)
        if not ok:
            continue
        c = reach[0][1]
        seen[ty] = c
        ctx.check(R, reach[0][2], "%s branch forwards file, columns, units" % ty,
                  canon(c.args[0]) == "prior_samples_file" and canon(c.args[1]) == "columns" and canon(A.get_arg(c, None, "units") or ast.Constant(value=None)) == "units",
                  "call `%s` does not forward (prior_samples_file, columns, units=units)" % A.unparse(c)[:80], key="fw:" + ty)
        sel = c.args[2] if len(c.args) > 2 else A.get_arg(c, None, "slice_or_idx") or A.get_arg(c, None, "idx") or A.get_arg(c, None, "size")
        if ty == "tuple":
            ctx.check(R, reach[0][2], "tuple (a, b) becomes slice(a, b)", sel is not None and canon(sel) == canon(parse("slice(*slice_or_idx)")),
                      "tuple selector is turned into `%s`" % (A.unparse(sel) if sel is not None else None), key="tuple-slice")
        else:
            ctx.check(R, reach[0][2], "%s selector passed through unchanged" % ty, sel is not None and canon(sel) == "slice_or_idx", "selector passed as `%s`" % (A.unparse(sel) if sel is not None else None), key="sel:" + ty)
        if ty == "int":
            ctx.check(R, reach[0][2], "random branch forwards rng", canon(A.get_arg(c, None, "rng") or ast.Constant(value=None)) == "rng", "rng is not forwarded to read_random_batch", key="rng")
    ctx.check(R, fn, "all four selector kinds handled", set(seen) == set(want), "handled kinds: %s" % sorted(seen), key="kinds")
    other = [pc for pc, n in raises if all(("-" + lit[t]) in pc for t in want)]
    ctx.check(R, fn, "any other selector raises", bool(other), "no raise on the path where the selector is none of tuple / slice / int / ndarray", key="else")
    okret = bool(rets) and all(isinstance(v, ast.Call) and (A.call_name(v) or "").startswith("read_") for pc, v, n in rets)
    ctx.check(R, fn, "returns the reader's result unchanged", okret, "a return value is not a reader result: %s" % [A.unparse(v)[:40] for pc, v, n in rets if not (isinstance(v, ast.Call) and (A.call_name(v) or "").startswith("read_"))][:2], key="ret")
    _check_random_reader(ctx)


def _check_random_reader(ctx):
    R = "C12-DISPATCH"
    # random reader
    rf = ctx.prog.func(UT, "read_random_batch", R)
    fl = A.Flow(rf)
    ch = [c for c in A.calls_in(rf) if A.last_attr(c) == "choice"]
    ok = len(ch) == 1
    if ok:
        c = ch[0]
        rep = A.get_arg(c, None, "replace")
        n = fl.resolve(c.args[0], at=A.enclosing_stmt(c)) if c.args else None
        ctx.check(R, c, "random rows drawn without repeats", rep is not None and A.const_value(rep) is False, "choice(replace=%s) can return a row twice" % (A.unparse(rep) if rep is not None else "default True"), key="replace")
        ctx.check(R, c, "random rows drawn from the table length", n is not None and canon(n).endswith(".shape[0]") and "_hdf5_path" in canon(n), "population is `%s`" % (A.unparse(n)[:60] if n is not None else None), key="population")
        ctx.check(R, c, "random subset has the requested size", canon(A.get_arg(c, 1, "size") or ast.Constant(value=None)) == "size", "size=%s" % A.unparse(A.get_arg(c, 1, "size") or ast.Constant(value=None)), key="size")
        rb = A.find_calls(rf, "read_batch_idx")
        okr = len(rb) == 1 and canon(fl.resolve(A.get_arg(rb[0], 2, "idx"), at=A.enclosing_stmt(rb[0]))) == canon(fl.resolve(c, at=A.enclosing_stmt(c)))
        ctx.check(R, rf, "the drawn rows are the rows read", okr, "read_batch_idx is not given the drawn index array", key="random-read")
    else:
        ctx.violate(R, rf, "random reader draws with Generator.choice", "found %d choice() calls" % len(ch), key="choice")


def _columnise(fn):
    """`for col, name in zip(B.T, columns): col[:] = X / col op= X`  ->  `for __i, name in enumerate(columns): B[:, __i] = X / B[:, __i] op= X`
    (B is a 2-D array allocated in the function: iterating B.T yields views of its columns).  Works on a clone; returns the function to analyse."""
    two_d = set()
    for s_ in A.walk_local(fn):
        if isinstance(s_, ast.Assign) and isinstance(s_.targets[0], ast.Name) and isinstance(s_.value, ast.Call) and A.call_name(s_.value) in ("np.zeros", "np.empty", "np.full", "np.ones") \
                and s_.value.args and isinstance(s_.value.args[0], ast.Tuple) and len(s_.value.args[0].elts) == 2:
            two_d.add(s_.targets[0].id)
    hits = [l for l in A.walk_local(fn) if isinstance(l, ast.For) and isinstance(l.iter, ast.Call) and A.call_name(l.iter) == "zip" and len(l.iter.args) == 2
            and isinstance(l.iter.args[0], ast.Attribute) and l.iter.args[0].attr == "T" and isinstance(l.iter.args[0].value, ast.Name) and l.iter.args[0].value.id in two_d
            and isinstance(l.target, ast.Tuple) and len(l.target.elts) == 2 and all(isinstance(e, ast.Name) for e in l.target.elts)]
    if not hits:
        return fn
    new = A.clone(fn)
    from ..inline import _relink
    _relink(new, getattr(fn, "_parent", None), getattr(fn, "_module", None))
    new._qualname = A.qualname(fn)
    k = 0
    for l in [x for x in A.walk_local(new) if isinstance(x, ast.For)]:
        if not (isinstance(l.iter, ast.Call) and A.call_name(l.iter) == "zip" and len(l.iter.args) == 2 and isinstance(l.iter.args[0], ast.Attribute) and l.iter.args[0].attr == "T"
                and isinstance(l.iter.args[0].value, ast.Name) and l.iter.args[0].value.id in two_d and isinstance(l.target, ast.Tuple) and len(l.target.elts) == 2):
            continue
        B = l.iter.args[0].value.id
        v, n = l.target.elts[0].id, l.target.elts[1].id
        k += 1
        iv = "__i%d" % k

        def col(ctx_):
            return ast.Subscript(value=ast.Name(id=B, ctx=ast.Load()), slice=ast.Tuple(elts=[ast.Slice(), ast.Name(id=iv, ctx=ast.Load())], ctx=ast.Load()), ctx=ctx_)

        class T(ast.NodeTransformer):
            def visit_Subscript(self, x):
                self.generic_visit(x)
                # col[:] -> B[:, i]
                if isinstance(x.value, ast.Subscript) and getattr(x.value, "_was_col", False) and isinstance(x.slice, ast.Slice) and x.slice.lower is None and x.slice.upper is None and x.slice.step is None:
                    y = col(x.ctx)
                    return ast.copy_location(y, x)
                return x

            def visit_Name(self, x):
                if x.id == v:
                    y = col(x.ctx if isinstance(x.ctx, ast.Store) else ast.Load())
                    y._was_col = True
                    return ast.copy_location(y, x)
                return x
        l.body = [T().visit(b) for b in l.body]
        l.target = ast.Tuple(elts=[ast.Name(id=iv, ctx=ast.Store()), ast.Name(id=n, ctx=ast.Store())], ctx=ast.Store())
        l.iter = ast.Call(func=ast.Name(id="enumerate", ctx=ast.Load()), args=[l.iter.args[1]], keywords=[])
    ast.fix_missing_locations(new)
    _relink(new, getattr(fn, "_parent", None), getattr(fn, "_module", None))
    return new


def _reader_checks(ctx, R, q, kind):
    fn = _columnise(ctx.prog.func(UT, q, R))
    flow = A.Flow(fn)
    loops = [l for l in A.walk_local(fn) if isinstance(l, ast.For)]
    read_loop = conv_loop = None
    for l in loops:
        it = l.iter
        enum_ok = isinstance(it, ast.Call) and A.call_name(it) == "enumerate" and canon(it.args[0]) == "columns" and isinstance(l.target, ast.Tuple) and len(l.target.elts) == 2
        has_read = any(A.last_attr(c) in ("read", "read_coordinates", "read_where") for c in A.calls_in(l))
        has_conv = any(isinstance(s, ast.AugAssign) for s in A.walk_local(l))
        if has_read:
            read_loop = (l, enum_ok)
        elif has_conv:
            conv_loop = (l, enum_ok)
    if read_loop is None:
        ctx.violate(R, fn, "%s reads every requested column" % q, "no loop over the requested columns reading from the table", key=q + ":loop")
        return
    l, enum_ok = read_loop
    ctx.check(R, l, "%s: column loop is `for i, name in enumerate(columns)`" % q, enum_ok, "loop header `for %s in %s`" % (A.unparse(l.target), A.unparse(l.iter)), key=q + ":enum")
    if not enum_ok:
        return
    iv, nv = l.target.elts[0].id, l.target.elts[1].id
    reads = [c for c in A.calls_in(l) if A.last_attr(c) in ("read", "read_coordinates")]
    for c in reads:
        fld = A.get_arg(c, None, "field")
        ctx.check(R, c, "%s: column read selects field=<that column's name>" % q, fld is not None and canon(fld) == nv, "field=%s" % (A.unparse(fld) if fld is not None else "missing"), key=q + ":field")
        if kind == "slice":
            args = [canon(a) for a in c.args[:3]]
            ctx.check(R, c, "%s: reads [start:stop:step] of the requested slice" % q, args == ["slice.start", "slice.stop", "slice.step"], "row range arguments are %s" % args, key=q + ":range")
        else:
            a0 = flow.resolve(c.args[0], at=A.enclosing_stmt(c)) if c.args else None
            ok = a0 is not None and canon(a0) == "idx"
            if ok:
                ctx.ok(R, c, "%s: reads exactly the requested index array, in the given order" % q, "")
            else:
                # a sorted read is fine only with the inverse permutation applied (scatter form)
                ctx.violate(R, c, "%s: reads exactly the requested index array, in the given order" % q,
                            "rows are read at `%s`, not at the index array that was requested: the caller's order is not provably restored" % (A.unparse(a0)[:60] if a0 is not None else None), key=q + ":idx")
    # the array that is filled and returned
    rets = [s for s in A.walk_local(fn) if isinstance(s, ast.Return)]
    B = canon(rets[0].value) if len(rets) == 1 and isinstance(rets[0].value, ast.Name) else "batch"
    # the store batch[:, i] = <read result>
    stores = [s for s in A.walk_local(l) if isinstance(s, ast.Assign) and isinstance(s.targets[0], ast.Subscript) and canon(s.targets[0].value) == B]
    okst = False
    why = "no `batch[:, i] = <column>` store in the loop"
    for s in stores:
        sl = s.targets[0].slice
        if isinstance(sl, ast.Tuple) and len(sl.elts) == 2 and isinstance(sl.elts[0], ast.Slice) and sl.elts[0].lower is None and sl.elts[0].upper is None and canon(sl.elts[1]) == iv:
            v = A.inline_temporaries(s.value, s, fn)
            if isinstance(v, ast.Call) and A.last_attr(v) in ("read", "read_coordinates"):
                okst = True
            else:
                why = "column %s receives `%s`, not the rows read from the table" % (iv, A.unparse(v)[:60])
        else:
            why = "store target `%s` is not column i of the batch" % A.unparse(s.targets[0])
    ctx.check(R, l, "%s: column i of the batch = the i-th requested column, all rows in read order" % q, okst, why, key=q + ":store")
    # unit conversion
    convs = [s for s in A.walk_local(fn) if isinstance(s, ast.AugAssign) and isinstance(s.target, ast.Subscript) and canon(s.target.value) == B]
    tables = []
    ctx.check(R, fn, "%s converts units" % q, len(convs) == 1, "found %d conversion statements" % len(convs), key=q + ":conv-count")
    for s in convs:
        cl = A.enclosing(s, (ast.For,))
        ok_loop = cl is not None and isinstance(cl.iter, ast.Call) and A.call_name(cl.iter) == "enumerate" and canon(cl.iter.args[0]) == "columns" and isinstance(cl.target, ast.Tuple)
        if not ok_loop:
            ctx.violate(R, s, "%s: conversion inside `for i, name in enumerate(columns)`" % q, "conversion is not in a loop pairing column index and name", key=q + ":conv-loop")
            continue
        ci, cn = cl.target.elts[0].id, cl.target.elts[1].id
        sl = s.target.slice
        tgt_ok = isinstance(sl, ast.Tuple) and len(sl.elts) == 2 and isinstance(sl.elts[0], ast.Slice) and canon(sl.elts[1]) == ci and isinstance(s.op, ast.Mult)
        ctx.check(R, s, "%s: conversion scales column i" % q, tgt_ok, "target `%s` op %s" % (A.unparse(s.target), type(s.op).__name__), key=q + ":conv-target")
        f = s.value
        # T[name].to(units[name]) with T the parsed file header (whatever it is called)
        T = None
        if isinstance(f, ast.Call) and A.last_attr(f) == "to" and len(f.args) == 1 and isinstance(f.func.value, ast.Subscript) and canon(f.func.value.slice) == cn:
            T = f.func.value.value
        ok_dir = T is not None and canon(f.args[0]) == canon(parse("units[%s]" % cn)) and canon(T) != "units"
        if ok_dir:
            tables.append((T, s))
        inv = isinstance(f, ast.Call) and A.last_attr(f) == "to" and canon(f.func.value) == canon(parse("units[%s]" % cn))
        ctx.check(R, s, "%s: factor = table_units[name].to(units[name]) (file -> requested)" % q, ok_dir,
                  "conversion factor is `%s`%s" % (A.unparse(f), " (inverted direction)" if inv else ""), key=q + ":conv-dir")
        g = [(canon(t), pol) for t, pol in A.guards_of(s)]
        ok_g = (canon(parse("%s in units" % cn)), True) in g and (canon(parse("units is not None")), True) in g and len(g) == 2
        ctx.check(R, s, "%s: every requested column with a requested unit is converted" % q, ok_g, "conversion guarded by %s" % g, key=q + ":conv-guard")
    # table_units come from this file's header
    ok_tu = bool(tables)
    seen = None
    for T, st in tables:
        v = flow.resolve(T, at=st)
        seen = v
        ok_tu = ok_tu and isinstance(v, ast.Call) and A.call_name(v) == "table_header_to_units" and "prior_samples_file" in A.unparse(v) and "meta_path" in A.unparse(v)
    ctx.check(R, fn, "%s: file units are parsed from this file's header on this call" % q, ok_tu,
              "the file-unit table is `%s`, not table_header_to_units(<this file>[meta_path(path)])" % (A.unparse(seen)[:80] if seen is not None else None), key=q + ":table-units")
    # returns the batch
    ctx.check(R, fn, "%s returns the filled batch" % q, len(rets) == 1 and isinstance(rets[0].value, ast.Name) and bool(stores), "returns `%s`" % (A.unparse(rets[0].value) if rets else None), key=q + ":ret", nontrivial=False)


def check_col(ctx):
    R = "C12-COL"
    ctx.rule(R, "both readers fill column i from field=columns[i] of the same enumerate pair; the slice reader passes start/stop/step of the given slice, the index "
                "reader passes the requested index array unmodified (order preserved); unit conversion scales column i by table_units[name].to(units[name]) "
                "(file -> requested) for every requested column with a requested unit; file units are parsed from this file's header on every call.")
    _reader_checks(ctx, R, "read_batch_slice", "slice")
    _reader_checks(ctx, R, "read_batch_idx", "idx")
    # header parser
    fn = ctx.prog.func(UT, "table_header_to_units", R)
    st = [s for s in A.walk_local(fn) if isinstance(s, ast.Assign) and isinstance(s.targets[0], ast.Subscript) and isinstance(s.targets[0].value, ast.Name)]
    comps = [n for n in A.walk_local(fn) if isinstance(n, ast.DictComp) and len(n.generators) == 1 and not n.generators[0].ifs and isinstance(n.generators[0].target, ast.Name)]
    ok = False
    if len(st) == 1 and not comps:
        lp = A.enclosing(st[0], (ast.For,))
        rv = lp.target.id if lp is not None and isinstance(lp.target, ast.Name) else "row"
        ok = canon(st[0].targets[0].slice) == canon(parse("%s['name']" % rv)) and canon(st[0].value) == canon(parse("u.Unit(%s.get('unit', u.one))" % rv)) \
            and lp is not None and canon(A.inline_temporaries(lp.iter, lp, fn)).endswith("['datatype']")
    elif len(comps) == 1 and not st:
        rv = comps[0].generators[0].target.id
        ok = canon(comps[0].key) == canon(parse("%s['name']" % rv)) and canon(comps[0].value) == canon(parse("u.Unit(%s.get('unit', u.one))" % rv)) \
            and canon(A.inline_temporaries(comps[0].generators[0].iter, A.enclosing_stmt(comps[0]), fn)).endswith("['datatype']")
        st = [A.enclosing_stmt(comps[0])]
    ctx.check(R, fn, "header parser maps column name -> its own unit (default dimensionless)", ok, "units[...] store is `%s`" % (A.unparse(st[0]) if st else None), key="header")
    # no memoisation on the read path
    for q in ("read_batch", "read_batch_slice", "read_batch_idx", "read_random_batch", "table_header_to_units"):
        f = ctx.prog.func(UT, q, R)
        decs = [(dotted(d) or dotted(getattr(d, "func", None)) or "") for d in f.decorator_list]
        bad = [d for d in decs if d.split(".")[-1] in ("lru_cache", "cache", "cached_property", "memoize")]
        ctx.check(R, f, "%s is not memoised" % q, not bad, "decorated with %s: a rewritten file under the same name would be read with stale data" % bad, key=q + ":cache", nontrivial=False)
    m = ctx.prog.module(UT)
    for q, f in m.functions.items():
        decs = [(dotted(d) or dotted(getattr(d, "func", None)) or "") for d in f.decorator_list]
        bad = [d for d in decs if d.split(".")[-1] in ("lru_cache", "cache", "cached_property", "memoize")]
        called = any(A.last_attr(c) == q.split(".")[-1] for r in ("read_batch_slice", "read_batch_idx", "read_random_batch") for c in A.calls_in(m.functions[r])) if all(r in m.functions for r in ("read_batch_slice", "read_batch_idx", "read_random_batch")) else False
        if bad and called:
            ctx.violate(R, f, "helper %s used by the readers is memoised" % q, "decorated with %s: file contents (units, rows) are cached across calls by name" % bad, key=q + ":cache")


def check_refuse(ctx):
    R = "C12-REFUSE"
    ctx.rule(R, "append path of write_table_hdf5: the missing-metadata raise, the metadata-conflict raise (policy 'error' on every path from JokerSamples.write, "
                "including the recursive string-filename call) and the dtype-mismatch raise (comparison result tested; column counts compared) all dominate "
                "the first mutation of the existing dataset (resize / slice assignment).")
    fn = ctx.prog.func(SH, "write_table_hdf5", R)
    flow = A.Flow(fn)
    muts = []
    OG, NM = "output_group", "name"
    for n in A.walk_local(fn):
        if isinstance(n, ast.Call) and A.last_attr(n) == "resize":
            muts.append(A.enclosing_stmt(n))
            recv = A.inline_temporaries(n.func.value, A.enclosing_stmt(n), fn)
            if isinstance(recv, ast.Subscript) and isinstance(recv.value, ast.Name) and isinstance(recv.slice, ast.Name):
                OG, NM = recv.value.id, recv.slice.id   # the group / dataset-name locals, whatever they are called
    for n in A.walk_local(fn):
        if isinstance(n, ast.Assign) and isinstance(n.targets[0], ast.Subscript) and isinstance(n.targets[0].slice, ast.Slice) and OG in A.unparse(A.inline_temporaries(n.targets[0].value, n, fn)):
            muts.append(n)
    if len(muts) < 2:
        ctx.violate(R, fn, "append = resize to old+new, write the new rows after the old ones",
                    "the append branch does not both resize the dataset and assign the new rows (found %d of the two steps): appended rows are lost or overwrite old ones" % len(muts), key="concat")
        return
    # every write to the target group that can happen on the append-to-existing path counts as "touching the file": the path is the one on which the existing
    # header was read (its path condition) and is set (not None)
    ehs = [s for s in A.walk_local(fn) if isinstance(s, ast.Assign) and isinstance(s.targets[0], ast.Name) and not (isinstance(s.value, ast.Constant))
           and "%s[meta_path(%s)]" % (OG, NM) in A.unparse(A.inline_temporaries(s.value, s, fn)) and "get_header_from_yaml" in A.unparse(s.value)]
    touched = list(muts)
    if len(ehs) == 1:
        on_path = A.path_condition(ehs[0], fn) + [A.nnf_of_src("%s is not None" % ehs[0].targets[0].id)]
        for n in A.walk_local(fn):
            cand = None
            if isinstance(n, (ast.Assign, ast.AugAssign)):
                tg = n.targets[0] if isinstance(n, ast.Assign) else n.target
                if isinstance(tg, ast.Subscript) and OG in A.unparse(A.inline_temporaries(tg.value, n, fn)):
                    cand = n
            elif isinstance(n, ast.Delete):
                if any(isinstance(t, ast.Subscript) and OG in A.unparse(A.inline_temporaries(t.value, n, fn)) for t in n.targets):
                    cand = n
            elif isinstance(n, ast.Call) and A.last_attr(n) in ("create_dataset", "create_group", "require_dataset", "require_group", "resize", "move", "clear", "pop", "update", "modify"):
                st_ = A.enclosing_stmt(n)
                if isinstance(n.func, ast.Attribute) and OG in A.unparse(A.inline_temporaries(n.func.value, st_, fn)):
                    cand = st_
            if cand is None or cand in touched or A.doc_index(cand) < A.doc_index(ehs[0]):
                continue
            if A.nnf_sat(A.conj(on_path + A.path_condition(cand, fn))):
                touched.append(cand)
    first = min(touched, key=lambda s: A.doc_index(s))
    # (a) metadata merge in a try whose handler re-raises, dominating
    merges = [c for c in A.calls_in(fn) if A.call_name(c) == "metadata.merge"]
    ok = False
    why = "metadata.merge is not called"
    for c in merges:
        tr = A.enclosing(c, (ast.Try,))
        if tr is None:
            ok = A.dominates(A.enclosing_stmt(c), first)
            why = "merge does not dominate the mutation"
        else:
            ok = all(A.always_raises(h.body) for h in tr.handlers) and A.dominates(tr, first)
            why = "the metadata-conflict handler does not re-raise or does not precede the mutation"
        pol = A.get_arg(c, None, "metadata_conflicts")
        ctx.check(R, c, "merge uses the caller's conflict policy", pol is not None and canon(pol) == "metadata_conflicts", "metadata_conflicts=%s" % (A.unparse(pol) if pol is not None else "library default ('warn')"), key="merge-policy")
    ctx.check(R, first, "metadata conflict is refused before the dataset is touched", ok, why, key="merge-dom")
    # policy reaching the merge: JokerSamples.write passes "error"; the recursive call must forward it or the default must be "error"
    default = A.param_default(fn, "metadata_conflicts")
    rec = [c for c in A.calls_in(fn) if A.call_name(c) == "write_table_hdf5"]
    for c in rec:
        fw = A.get_arg(c, None, "metadata_conflicts")
        eff_ok = (fw is not None and canon(fw) == "metadata_conflicts") or (fw is None and default is not None and A.str_const(default) == "error")
        ctx.check(R, c, "string-filename recursion keeps the 'error' conflict policy", eff_ok,
                  "the recursive call does not forward metadata_conflicts and the default is %s: appends by file name silently accept conflicting metadata" % (A.unparse(default) if default is not None else None), key="policy-recursion")
    wf = ctx.prog.func(SM, "JokerSamples.write", R)
    wc = A.find_calls(wf, "write_table_hdf5")
    okp = len(wc) == 1 and A.str_const(A.get_arg(wc[0], None, "metadata_conflicts", with_default=True) or ast.Constant(value=None)) == "error"
    ctx.check(R, wf, "JokerSamples.write requests metadata_conflicts='error'", okp, "write_table_hdf5 is called without metadata_conflicts='error'", key="policy-write")
    # a refused append leaves the file as it was: the only deletion of the output file is the documented `overwrite and not append` replacement, decided before the file is opened
    for c in A.calls_in(fn):
        d_ = A.call_name(c) or ""
        if d_.split(".")[-1] in ("remove", "unlink", "rmtree", "truncate", "rename", "replace") and d_.split(".")[0] in ("os", "shutil", "pathlib", "Path"):
            st_ = A.enclosing_stmt(c)
            pc = A.conj(A.path_condition(st_, fn))
            in_handler = A.enclosing(c, (ast.ExceptHandler,)) is not None or any(isinstance(a_, ast.Try) and any(st_ is x or A.is_ancestor(x, st_) for x in a_.finalbody) for a_ in A.ancestors(c))
            ok_rm = A.nnf_implies(pc, A.nnf_of_src("not append")) and not in_handler
            ctx.check(R, c, "the output file is deleted only to be replaced (overwrite, not append)", ok_rm,
                      "`%s` can run on an append (%s): a refused append destroys the rows already in the file" % (A.unparse(c)[:40], "in an exception / cleanup handler" if in_handler else sorted(A.term_strings([pc]))), key="remove")
    # (b) dtype comparison tested and raising, dominating
    cmp_ifs = [s for s in A.walk_local(fn) if isinstance(s, ast.If) and any(A.call_name(c) == "_custom_tbl_dtype_compare" for c in A.calls_in(s.test))]
    okd = False
    why = "the dtype comparison result is not tested"
    for s in cmp_ifs:
        neg = isinstance(s.test, ast.UnaryOp) and isinstance(s.test.op, ast.Not)
        okd = neg and A.always_raises(s.body) and A.dominates(s, first)
        why = "the dtype-mismatch branch does not raise before the mutation"
        c = [c for c in A.calls_in(s.test) if A.call_name(c) == "_custom_tbl_dtype_compare"][0]
        args = [canon(A.inline_temporaries(a, s, fn)) for a in c.args]
        mine = canon(parse("get_header_from_yaml(get_yaml_from_table(table))['datatype']"))
        theirs = [a for a in args if a != mine]
        # the other side is the 'datatype' entry of the header read from the existing file (a local set on the existing-table path)
        oka = len(args) == 2 and mine in args and len(theirs) == 1 and theirs[0].endswith("['datatype']") and "get_yaml_from_table" not in theirs[0]
        ctx.check(R, s, "comparison is existing header vs this table", oka, "compares %s" % [a[:50] for a in args], key="dtype-args")
    ctx.check(R, first, "dtype mismatch is refused before the dataset is touched", okd, why, key="dtype-dom")
    # (c) missing metadata
    mm = [s for s in A.walk_local(fn) if isinstance(s, ast.If) and "meta_path(%s) not in %s" % (NM, OG) in A.unparse(A.inline_temporaries(s.test, s, fn))]
    okm = bool(mm) and A.always_raises(mm[0].body)
    ctx.check(R, fn, "appending to a table without stored metadata raises", okm, "no raise when the existing table has no metadata header", key="nometa")
    # existing header read from the file being appended to
    # the header compared against (first argument role of the dtype comparison / metadata merge) is read from the target dataset's own metadata
    eh = [s for s in A.walk_local(fn) if isinstance(s, ast.Assign) and isinstance(s.targets[0], ast.Name) and not (isinstance(s.value, ast.Constant))
          and "%s[meta_path(%s)]" % (OG, NM) in A.unparse(A.inline_temporaries(s.value, s, fn)) and "get_header_from_yaml" in A.unparse(s.value)]
    ehn = eh[0].targets[0].id if len(eh) == 1 else None
    ok_eh = ehn is not None and any(A.call_name(c_) == "_custom_tbl_dtype_compare" and any(ehn + "['datatype']" == A.unparse(a_) or ehn + '["datatype"]' == A.unparse(a_) for a_ in c_.args) for c_ in A.calls_in(fn))
    ctx.check(R, fn, "existing header is read from the target dataset's metadata", ok_eh, "existing_header = %s" % (A.unparse(eh[0].value)[:60] if eh else None), key="existing")
    # append writes after the old rows
    sa = [s for s in muts if isinstance(s, ast.Assign)]
    rs = [s for s in muts if not isinstance(s, ast.Assign)]
    ok_app = False
    if sa and rs:
        lo = A.inline_temporaries(sa[0].targets[0].slice.lower, sa[0], fn) if sa[0].targets[0].slice.lower is not None else None
        rz = [c for c in A.calls_in(rs[0]) if A.last_attr(c) == "resize"][0]
        newsize = A.inline_temporaries(rz.args[0], rs[0], fn) if rz.args else None
        ok_app = lo is not None and canon(lo) == canon(parse("len(%s[%s])" % (OG, NM))) and newsize is not None and \
            canon(newsize) in (canon(parse("(len(%s[%s]) + len(table),)" % (OG, NM))), canon(parse("len(%s[%s]) + len(table)" % (OG, NM))))
        ok_app = ok_app and A.doc_index(rs[0]) < A.doc_index(sa[0]) and canon(sa[0].value) == canon(parse("table.as_array()")) and sa[0].targets[0].slice.upper is None
    ctx.check(R, first, "append = resize to old+new, write the new rows after the old ones", ok_app, "resize/assignment do not implement concatenation", key="concat")
    # the comparison helper itself
    cf = ctx.prog.func(SH, "_custom_tbl_dtype_compare", R)
    params = A.param_names(cf)
    zips = [c for c in ast.walk(cf) if isinstance(c, ast.Call) and A.call_name(c) == "zip" and sorted(canon(a) for a in c.args) == sorted(params[:2])]
    lens = [s for s in A.walk_local(cf) if isinstance(s, ast.If) and A.nnf(s.test) in (A.nnf_of_src("len(%s) != len(%s)" % (params[0], params[1])), A.nnf_of_src("len(%s) != len(%s)" % (params[1], params[0])))]
    okl = bool(lens) and isinstance(lens[0].body[0], ast.Return) and A.const_value(lens[0].body[0].value) is False and all(A.doc_index(lens[0]) < A.doc_index(z) for z in zips)
    if not okl:
        # `return len(a) == len(b) and all(... zip ...)` is the other accepted idiom
        for r_ in [s for s in A.walk_local(cf) if isinstance(s, ast.Return) and isinstance(s.value, ast.BoolOp) and isinstance(s.value.op, ast.And)]:
            okl = okl or any(A.nnf(v) in (A.nnf_of_src("len(%s) == len(%s)" % (params[0], params[1])), A.nnf_of_src("len(%s) == len(%s)" % (params[1], params[0]))) for v in r_.value.values)
    ctx.check(R, cf, "dtype comparison rejects a different number of columns", okl or not zips,
              "the column descriptions are compared pairwise with zip() without comparing their count: a table with extra or missing columns compares equal and is appended", key="colcount")
    # the per-column comparison looks at every key of both descriptions
    keys_ok = any(isinstance(n, ast.Call) and A.call_name(n) == "set" for n in ast.walk(cf)) or any(isinstance(n, ast.BinOp) and isinstance(n.op, ast.BitOr) for n in ast.walk(cf))
    ctx.check(R, cf, "every key of both column descriptions is compared", keys_ok, "the union of the two key sets is no longer iterated", key="keys", nontrivial=False)


def check_unit_refusal(ctx):
    R = "C12-REFUSE"
    cf = ctx.prog.func(SH, "_custom_tbl_dtype_compare", R)
    # (1) units: compared as stored strings, under the `unit` key
    cmps = []
    for n in A.walk_local(cf):
        if isinstance(n, ast.Compare) and len(n.ops) == 1 and isinstance(n.ops[0], (ast.NotEq, ast.Eq)):
            l, r = n.left, n.comparators[0]
            if all(isinstance(x, ast.Call) and A.last_attr(x) == "get" for x in (l, r)) and canon(l.func.value) != canon(r.func.value) and canon(l.args[0]) == canon(r.args[0]):
                cmps.append(n)
    unit_cmp = [n for n in cmps if any(pol and "'unit'" in A.unparse(t) for t, pol in A.guards_of(A.enclosing_stmt(n))) or A.str_const(n.left.args[0]) == "unit"]
    loose = [c for c in A.calls_in(cf) if A.last_attr(c) in ("is_equivalent", "to", "physical_type") or (A.call_name(c) or "").endswith("Unit")]
    ctx.check(R, cf, "column units are compared exactly (as stored), not up to convertibility", bool(unit_cmp) and not loose,
              ("units are compared with `%s`: a chunk in another (convertible) unit is accepted and its bare numbers are stored under the first chunk's unit" % A.unparse(loose[0])[:60]) if loose
              else "no equality comparison of the two `unit` entries", key="unit-exact")
    # (2) the metadata merge sees both metadata dictionaries unfiltered
    fn = ctx.prog.func(SH, "write_table_hdf5", R)
    merges = [c for c in A.calls_in(fn) if A.call_name(c) == "metadata.merge"]
    okm = bool(merges)
    whym = "metadata.merge is not called"
    for c in merges:
        r0, r1 = A.get_arg(c, 0, "left"), A.get_arg(c, 1, "right")
        a0 = A.inline_temporaries(r0, A.enclosing_stmt(c), fn) if r0 is not None else None
        a1 = A.inline_temporaries(r1, A.enclosing_stmt(c), fn) if r1 is not None else None
        ok0 = a0 is not None and isinstance(a0, ast.Subscript) and A.str_const(a0.slice) == "meta"
        ok1 = a1 is not None and canon(a1) == "table.meta"
        if not (ok0 and ok1):
            okm = False
            whym = "metadata.merge(%s, %s): part of the metadata (the record of the column units lives there) is kept out of the conflict check" % (
                A.unparse(a0)[:40] if a0 is not None else None, A.unparse(a1)[:40] if a1 is not None else None)
    ctx.check(R, fn, "the whole metadata of both tables takes part in the conflict check", okm, whym, key="merge-whole")


def check_paths(ctx):
    R = "C12-PATHS"
    ctx.rule(R, "writer and readers agree on the dataset path (JokerSamples._hdf5_path) and its metadata path meta_path(path); write() passes the table, the path, "
                "append/overwrite and serialize_meta=True; read() rebuilds the object from the table and its metadata; the FITS reference epoch is written as "
                ".tcb.mjd and read back with format='mjd', scale='tcb'.")
    from .C17 import check_ingest, check_meta_branch
    check_ingest(ctx, R)
    check_meta_branch(ctx, R)
    wf = ctx.prog.func(SM, "JokerSamples.write", R)
    wc = A.find_calls(wf, "write_table_hdf5")
    if len(wc) != 1:
        ctx.undecided(R, wf, "write_table_hdf5 call", "expected one call")
    else:
        c = wc[0]
        checks = [("table", 0, "self.tbl"), ("output", 1, "output"), ("path", None, "self._hdf5_path"), ("append", None, "append"), ("overwrite", None, "overwrite"), ("serialize_meta", None, "True")]
        for nm, pos, want in checks:
            v = A.get_arg(c, pos, nm)
            ctx.check(R, c, "write passes %s=%s" % (nm, want), v is not None and canon(v) == canon(parse(want)), "%s=%s" % (nm, A.unparse(v) if v is not None else "missing"), key="write:" + nm)
    # readers use the same path
    for q in ("read_batch_slice", "read_batch_idx", "read_random_batch"):
        f = ctx.prog.func(UT, q, R)
        # every dataset opened on the file (X.root[key] or meta_path(key)) is keyed by the class constant
        keys = []
        for n in A.walk_local(f):
            if isinstance(n, ast.Subscript) and isinstance(n.value, ast.Attribute) and n.value.attr == "root":
                keys.append((n, n.slice))
            elif isinstance(n, ast.Call) and A.call_name(n) == "meta_path" and n.args:
                keys.append((n, n.args[0]))
        vals = sorted({canon(A.inline_temporaries(k, A.enclosing_stmt(n), f)) for n, k in keys})
        ctx.check(R, f, "%s reads dataset JokerSamples._hdf5_path" % q, vals == ["JokerSamples._hdf5_path"] or (not keys and q == "read_random_batch" and False), "datasets opened: %s" % vals, key=q + ":path")
    m = ctx.prog.module(SM)
    cls = m.classes.get("JokerSamples")
    hp = [s for s in cls.body if isinstance(s, ast.Assign) and canon(s.targets[0]) == "_hdf5_path"] if cls else []
    ctx.check(R, cls or wf, "_hdf5_path is a constant dataset name", len(hp) == 1 and isinstance(hp[0].value, ast.Constant) and isinstance(hp[0].value.value, str) and "/" not in hp[0].value.value, "class attribute missing or not a plain name", key="hdf5_path", nontrivial=False)
    # read
    rf = ctx.prog.func(SM, "JokerSamples.read", R)
    fl = A.Flow(rf)
    okr = False
    why = "no return"
    for v, s in fl.returns:
        if isinstance(s.value, ast.Call) and canon(s.value.func) == "cls" and A.get_arg(s.value, 0, "samples") is not None:
            a = s.value
            kw = [k for k in a.keywords if k.arg is None]
            # the object is rebuilt from the table that was read and from that same table's metadata
            smp = A.get_arg(a, 0, "samples")
            okr = isinstance(smp, ast.Name) and len(kw) == 1 and canon(kw[0].value) == smp.id + ".meta"
            if okr:
                srcs = {A.call_name(x) for x in A.strip_ifexp(fl.resolve(smp, at=s)) if isinstance(x, ast.Call)}
                okr = srcs == {"QTable.read"}
            why = "read() returns `%s`" % A.unparse(s.value)
    ctx.check(R, rf, "read() returns cls(samples=tbl, **tbl.meta)", okr, why, key="read-ret")
    qr = [c for c in A.calls_in(rf) if A.call_name(c) == "QTable.read"]
    pv = [(c, A.get_arg(c, None, "path")) for c in qr]
    want = canon(parse("cls._hdf5_path if path is None else path"))
    okq = bool(qr) and any(v is not None for _, v in pv) and all(v is None or canon(fl.resolve(v, at=A.enclosing_stmt(c))) == want for c, v in pv)
    ctx.check(R, rf, "read() reads the dataset at path (default cls._hdf5_path)", okq, "QTable.read is not given path=cls._hdf5_path by default", key="read-path")
    # FITS epoch
    w_ep = [s for s in A.walk_local(wf) if isinstance(s, ast.Assign) and "__t_ref_bmjd" in A.unparse(s.targets[0])]
    okw = False
    if len(w_ep) == 1:
        tg = w_ep[0].targets[0]
        tname = dotted(tg.value.value) if isinstance(tg, ast.Subscript) and isinstance(tg.value, ast.Attribute) else None
        okw = tname is not None and canon(w_ep[0].value) == canon(parse("%s.meta.pop('t_ref').tcb.mjd" % tname))
    ctx.check(R, wf, "FITS: reference epoch written as TCB MJD", okw, "writes `%s`" % (A.unparse(w_ep[0].value) if w_ep else None), key="fits-write")
    r_ep = [c for c in A.calls_in(rf) if A.call_name(c) == "Time" and "__t_ref_bmjd" in A.unparse(c)]
    okf = len(r_ep) == 1 and A.str_const(A.get_arg(r_ep[0], None, "format") or ast.Constant(value=None)) == "mjd" and A.str_const(A.get_arg(r_ep[0], None, "scale") or ast.Constant(value=None)) == "tcb"
    ctx.check(R, rf, "FITS: reference epoch read back as format='mjd', scale='tcb'", okf, "reads it back as `%s`: writer and reader disagree on the time scale" % (A.unparse(r_ep[0]) if r_ep else None), key="fits-read")
    st = [s for s in A.walk_local(rf) if isinstance(s, ast.Assign) and "tbl.meta['t_ref']" in A.unparse(s.targets[0])]
    ctx.check(R, rf, "FITS: restored epoch stored as t_ref metadata", len(st) == 1, "t_ref metadata is not restored", key="fits-store", nontrivial=False)
    # __init__ takes meta from the table
    init = ctx.prog.func(SM, "JokerSamples.__init__", R)
    pops = {A.str_const(c.args[0]) for c in A.calls_in(init) if A.last_attr(c) == "pop" and c.args}
    ctx.check(R, init, "constructor restores t_ref / poly_trend / n_offsets from table metadata", {"t_ref", "poly_trend", "n_offsets"} <= pops, "metadata keys popped: %s" % sorted(x for x in pops if x), key="init-meta")


def run(ctx):
    check_dispatch(ctx)
    check_col(ctx)
    check_refuse(ctx)
    check_unit_refusal(ctx)
    check_paths(ctx)
    ctx.floor("C12-COL", ctx.count("C12-COL"), 20)
    ctx.assume("astropy Table/QTable HDF5+YAML serialisation, h5py and pytables preserve values, units and metadata (exact round-trip through the libraries is not decided)")
    ctx.assume("tables.Table.read(start, stop, step, field) and read_coordinates(idx, field) return the addressed rows in order")
