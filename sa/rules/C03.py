"""C03 - linear parameters are drawn from the exact conditional posterior."""
import ast

from .. import astutil as A
from ..norm import canon, parse, dotted, equal
from . import _kernel
from .C01 import check_jit, check_tensor, PROLOGUES, NL, NT
from .C10 import classify

FL = "thejoker.src.fast_likelihood"

DRAW_SPEC = [
    ("a-zero", "likelihood_worker", "a", ("i",), "=", "0.", {"i": NL}),
    ("a-data", "likelihood_worker", "a", ("i",), "+=", "self.M_T[i, n] * self.W[n] * self.rv[n]", {"i": NL, "n": NT}),
    ("a-prior", "likelihood_worker", "a", ("i",), "+=", "self.mu[i] / self.Lambda[i]", {"i": NL}),
    ("Atmp-copy", "likelihood_worker", "Atmp", ("i", "j"), "=", "self.Ainv[i, j]", {"i": NL, "j": NL}),
    ("Ainv-diag", "make_AAinv", "Ainv", ("i", "i"), "=", "1 / self.Lambda[i]", {"i": NL}),
    ("Ainv-acc", "make_AAinv", "Ainv", ("i", "j"), "+=", "self.M_T[j, n] * self.W[n] * self.M_T[i, n]", {"i": NL, "j": NL, "n": NT}),
]


def prologue_effects(K, entry):
    """guarded per-sample effects before the likelihood_worker call, with chunk[n,k] / chunk_row[k] abstracted to ROW[k]"""
    fn = K.methods[entry]
    flow = A.Flow(fn)
    loops = [s for s in fn.body if isinstance(s, ast.For)]
    body = loops[0].body if loops else fn.body
    eff = []

    def absrow(e):
        class T(ast.NodeTransformer):
            def visit_Subscript(self, n):
                if canon(n.value) in ("chunk", "chunk_row"):
                    k = n.slice.elts[-1] if isinstance(n.slice, ast.Tuple) else n.slice
                    return ast.Name(id="ROW%s" % canon(k), ctx=ast.Load())
                return self.generic_visit(n)
        return T().visit(A.clone(e))

    def walk(stmts, guards):
        for s in stmts:
            if isinstance(s, ast.If):
                g = canon(s.test)
                walk(s.body, guards + ((g, True),))
                walk(s.orelse, guards + ((g, False),))
                continue
            calls = [c for c in A.calls_in(s)]
            if any(A.call_name(c) == "self.likelihood_worker" for c in calls):
                return True
            for c in calls:
                nm = A.call_name(c)
                if nm in ("c_rv_from_elements", "get_ivar"):
                    args = tuple(canon(absrow(flow.resolve(a, at=s))) for a in c.args)
                    eff.append((nm, args, guards, s))
            if isinstance(s, ast.Assign) and isinstance(s.targets[0], ast.Subscript) and dotted(s.targets[0].value) and dotted(s.targets[0].value).startswith("self."):
                eff.append(("store:" + canon(s.targets[0]), (canon(absrow(flow.resolve(s.value, at=s))),), guards, s))
        return False

    walk(body, ())
    return eff


def check_pro(ctx, K):
    R = "C03-PRO"
    ctx.rule(R, "sibling prologues: batch_marginal_ln_likelihood, batch_get_posterior_samples and test_likelihood_worker perform, per sample and before likelihood_worker, the same "
                "set of guarded effects - Kepler column from the packed row, jitter fold from the packed row, Lambda[0] <- K-variance rule and Lambda[0] <- min(max_K^2, Lambda[0]) "
                "under fixed_K_prior == 0 - so the posterior draw uses the same prior (including the cap) and weights the sample was accepted with.")
    effs = {e: prologue_effects(K, e) for e in PROLOGUES}
    ref = effs["batch_marginal_ln_likelihood"]
    ref_set = {(n, a, g) for n, a, g, _ in ref}
    ctx.floor(R, len(ref_set), 4)
    for entry in PROLOGUES[1:]:
        got = {(n, a, g): s for n, a, g, s in effs[entry]}
        missing = ref_set - set(got)
        extra = set(got) - ref_set
        for n, a, g in sorted(missing, key=str):
            what = {"c_rv_from_elements": "the Kepler column", "get_ivar": "the jitter fold"}.get(n, n.replace("store:", "") + " <- " + a[0][:50])
            ctx.violate(R, K.methods[entry], "%s performs `%s`%s like the marginal path" % (entry, what, " under %s" % (g,) if g else ""),
                        "effect missing (or different) in %s: the linear parameters are drawn under a different prior / model than the one the sample was accepted with" % entry,
                        key="%s:missing:%s:%s" % (entry, n, a[0][:40] if a else ""))
        for k in sorted(extra, key=str):
            ctx.violate(R, got[k], "%s has no per-sample effect the marginal path lacks" % entry, "extra effect `%s(%s)` under %s" % (k[0], ", ".join(x[:30] for x in k[1]), k[2]), key="%s:extra:%s" % (entry, k[0]))
        if not missing and not extra:
            ctx.ok(R, K.methods[entry], "%s prologue = marginal-path prologue (%d guarded effects)" % (entry, len(ref_set)), "")
    for n, a, g, s in ref:
        ctx.ok(R, s, "marginal prologue effect %s" % n, "args %s guards %s" % ([x[:30] for x in a], g), nontrivial=False)


def check_draw(ctx, K, W):
    R = "C03-DRAW"
    ctx.rule(R, "the draw is rng.multivariate_normal(self.a, inv(self.Ainv) [or self.A], size=n_linear_samples_per) from the method's generator parameter; it is dominated, within "
                "the iteration, by likelihood_worker(c) with c truthy (which fills a and Ainv for THIS sample) and nothing rewrites a / Ainv / A in between; the tensor forms "
                "of a (rhs = M^T W y + mu/Lambda solved against Ainv with dsysv) and Ainv are those of the conditional posterior.")
    fn = K.methods["batch_get_posterior_samples"]
    draws = [c for c in A.calls_in(fn) if A.last_attr(c) == "multivariate_normal"]
    if len(draws) != 1:
        ctx.violate(R, fn, "one multivariate normal draw per accepted sample", "found %d multivariate_normal calls" % len(draws), key="draw-count")
        return
    d = draws[0]
    tags = classify(d.func.value, fn)
    ctx.check(R, d, "draw uses the generator passed to the kernel", tags <= {"param"}, "generator `%s` (%s)" % (A.unparse(d.func.value), sorted(tags)), key="rng")
    mean = d.args[0] if d.args else A.get_arg(d, None, "mean")
    cov = d.args[1] if len(d.args) > 1 else A.get_arg(d, None, "cov")
    size = A.get_arg(d, 2, "size")
    ctx.check(R, d, "mean = a", mean is not None and canon(A.strip_casts(mean)) == "self.a", "mean argument `%s`" % (A.unparse(mean) if mean is not None else None), key="mean")
    cv = A.strip_casts(cov) if cov is not None else None
    okc = cv is not None and (canon(cv) == canon(parse("np.linalg.inv(self.Ainv)")) or canon(cv) == "self.A")
    why = "covariance argument `%s`" % (A.unparse(cov) if cov is not None else None)
    if cv is not None and canon(cv) == "self.Ainv":
        why += ": the precision matrix is used as the covariance"
    ctx.check(R, d, "covariance = inv(Ainv) = A", okc, why, key="cov")
    ctx.check(R, d, "n_linear_samples_per draws per sample", size is not None and canon(size) == "n_linear_samples_per", "size=%s" % (A.unparse(size) if size is not None else None), key="size")
    # dominated by likelihood_worker(truthy) in the same iteration
    lw = [c for c in A.calls_in(fn) if A.call_name(c) == "self.likelihood_worker"]
    ok = False
    why = "likelihood_worker is not called before the draw"
    if len(lw) == 1:
        c = lw[0]
        v = A.const_value(c.args[0]) if c.args else None
        dom = A.dominates(A.enclosing_stmt(c), d) and A.enclosing(c, (ast.For,)) is A.enclosing(d, (ast.For,))
        ok = dom and v == 1
        why = "likelihood_worker(%s) %s" % (A.unparse(c.args[0]) if c.args else "", "does not compute a / Ainv for this sample (a stale posterior mean from an earlier call is used)" if v != 1 else "does not dominate the draw within the iteration")
    ctx.check(R, d, "a and Ainv of THIS sample are computed before the draw", ok, why, key="worker")
    if lw:
        between = [s for s in A.walk_local(fn) if isinstance(s, ast.stmt) and A.doc_index(lw[0]) < A.doc_index(s) < A.doc_index(d)]
        bad = []
        for s in between:
            for n in A.walk_local(s):
                if isinstance(n, (ast.Subscript, ast.Attribute)) and isinstance(getattr(n, "ctx", None), ast.Store) and (dotted(n if isinstance(n, ast.Attribute) else n.value) or "") in ("self.a", "self.Ainv", "self.A", "self.Lambda", "self.M_T"):
                    bad.append(s)
        ctx.check(R, d, "nothing rewrites a / Ainv between the solve and the draw", not bad, "`%s` modifies kernel state between likelihood_worker and the draw" % (A.unparse(bad[0])[:50] if bad else ""), key="between", nontrivial=False)
    # result variable feeds the output
    st = A.enclosing_stmt(d)
    ctx.check(R, st, "draws are stored for the output loop", isinstance(st, ast.Assign) and canon(st.targets[0]) == "linear_pars" and st.value is d, "draw statement `%s`" % A.unparse(st)[:60], key="store", nontrivial=False)
    # tensor forms for a / Ainv, and the solve
    check_tensor(ctx, K, W, R="C03-TENSOR", spec=DRAW_SPEC, method_root="likelihood_worker")
    ups = _kernel.updates(K, "likelihood_worker")
    sv = [u for u in ups if u.op == "call" and u.field == "$call:lapack.dsysv"]
    oks = False
    if len(sv) == 1:
        a = sv[0].rhs.args
        oks = len(a) >= 11 and canon(a[3]) == canon(parse("~self.Atmp[0, 0]")) and canon(a[6]) == canon(parse("~self.a[0]")) and canon(a[1]) == canon(parse("~self.n_linear")) and canon(a[2]) == canon(parse("~nrhs"))
        g = [x for x in sv[0].guards]
        oks = oks and g == [(canon(parse("make_aAinv == 1")), True)]
    ctx.check("C03-TENSOR", sv[0].node if sv else K.methods["likelihood_worker"], "a = SOLVE_SYM(copy of Ainv, rhs) under make_aAinv == 1", oks, "dsysv call: %s" % (A.unparse(sv[0].rhs)[:100] if sv else "missing"), key="dsysv")
    # order inside the guarded block: rhs complete -> copy -> solve
    seq = [u for u in ups if u.method == "likelihood_worker" and u.guards and (u.field in ("a", "Atmp") or u.field == "$call:lapack.dsysv")]
    names = [u.field for u in seq]
    ok_order = names == ["a", "a", "a", "Atmp", "$call:lapack.dsysv"]
    ctx.check("C03-TENSOR", K.methods["likelihood_worker"], "rhs built, Ainv copied, then solved - in that order", ok_order, "update order under make_aAinv: %s" % names, key="solve-order")
    fl = [s for s in A.walk_local(K.methods["likelihood_worker"]) if isinstance(s, ast.If) and canon(s.test) == canon(parse("info != 0")) and A.guards_of(s)]
    ctx.check("C03-TENSOR", K.methods["likelihood_worker"], "a failed solve returns the sentinel", len(fl) == 1 and canon(fl[0].body[0].value) == "INF", "no failure check after dsysv", key="solve-fail", nontrivial=False)


def check_layout(ctx, K):
    R = "C03-LAYOUT"
    ctx.rule(R, "output layout: samples[n, j, 5 + k] = linear_pars[j, k] for every k < n_linear and every draw j of sample n (columns 0-4 are the unchanged nonlinear values, "
                "C02-COPY); rows are emitted sample-major; the Python side unpacks with the helper's unit table whose key order (P, e, omega, M0, s, K, v0, offsets, v1...) is "
                "the design-matrix order; unpack names column i after the i-th key of that table.")
    fn = K.methods["batch_get_posterior_samples"]
    st = [s for s in A.walk_local(fn) if isinstance(s, ast.Assign) and isinstance(s.targets[0], ast.Subscript) and canon(s.targets[0].value) == "samples"
          and isinstance(s.targets[0].slice, ast.Tuple) and len(s.targets[0].slice.elts) == 3 and A.const_value(s.targets[0].slice.elts[2]) is None]
    ok = False
    why = "no store of the linear block"
    if len(st) == 1:
        s = st[0]
        n_, j_, col = s.targets[0].slice.elts
        loops = {a.target.id: canon(a.iter) for a in A.ancestors(s) if isinstance(a, ast.For) and isinstance(a.target, ast.Name)}
        kvars = [v for v, r in loops.items() if r == canon(parse("range(self.n_linear)"))]
        jvars = [v for v, r in loops.items() if r == canon(parse("range(n_linear_samples_per)"))]
        if len(kvars) == 1 and len(jvars) == 1:
            k, j = kvars[0], jvars[0]
            ok = canon(n_) == "n" and canon(j_) == j and equal(col, parse("5 + %s" % k)) and canon(s.value) == canon(parse("linear_pars[%s, %s]" % (j, k)))
            why = "samples[%s, %s, %s] = %s" % (A.unparse(n_), A.unparse(j_), A.unparse(col), A.unparse(s.value))
        else:
            why = "the store is not inside loops over the draws and over range(self.n_linear)"
    ctx.check(R, st[0] if st else fn, "samples[n, j, 5 + k] = linear_pars[j, k]", ok, why, key="block")
    al = [s for s in A.walk_local(fn) if isinstance(s, ast.Assign) and canon(s.targets[0]) == "samples"]
    oka = len(al) == 1 and canon(al[0].value) == canon(parse("np.zeros((n_samples, n_linear_samples_per, self.n_pars))"))
    ctx.check(R, al[0] if al else fn, "output array has n_pars columns per draw", oka, "samples = %s" % (A.unparse(al[0].value) if al else None), key="alloc", nontrivial=False)
    init = K.methods["__init__"]
    npd = [s for s in A.walk_local(init) if isinstance(s, ast.Assign) and dotted(s.targets[0]) == "self.n_pars"]
    ctx.check(R, npd[0] if npd else init, "n_pars = number of prior parameters = 5 + n_linear", len(npd) == 1 and canon(npd[0].value) == canon(parse("len(prior.par_names)")), "n_pars = %s" % (A.unparse(npd[0].value) if npd else None), key="n_pars", nontrivial=False)
    rets = [s for s in A.walk_local(fn) if isinstance(s, ast.Return)]
    okr = len(rets) == 1 and isinstance(rets[0].value, ast.Tuple) and canon(rets[0].value.elts[0]) == canon(parse("np.array(samples).reshape(n_samples * n_linear_samples_per, -1)"))
    ctx.check(R, rets[0] if rets else fn, "rows emitted sample-major (reshape of [n, j, :])", okr, "returns %s" % (A.unparse(rets[0].value)[:90] if rets else None), key="reshape")
    # key order of the unit table: insertion order in __init__
    order = []
    for s in init.body:
        if isinstance(s, ast.Assign) and isinstance(s.targets[0], ast.Subscript) and dotted(s.targets[0].value) == "self.internal_units":
            order.append(canon(s.targets[0].slice))
        elif isinstance(s, ast.For):
            for x in s.body:
                if isinstance(x, ast.Assign) and isinstance(x.targets[0], ast.Subscript) and dotted(x.targets[0].value) == "self.internal_units":
                    order.append("loop:" + canon(s.iter))
    want = [canon(parse(x)) for x in ("'P'", "'e'", "'omega'", "'M0'", "'s'", "'K'", "'v0'")] + ["loop:" + canon(parse("prior.v0_offsets")), "loop:" + canon(parse("enumerate(prior._v_trend_names)"))]
    ctx.check(R, init, "unit-table key order = P, e, omega, M0, s, K, v0, offsets..., v1...", order == want, "insertion order: %s" % order, key="key-order")
    # unpack sites use the helper's table and metadata
    from .C17 import check_pack
    from .C07 import _Relabel
    check_pack(_Relabel(ctx, {"C17-PACK": R}))
    for mod, q in (("thejoker.likelihood_helpers", "make_full_samples_inmem"), ("thejoker.multiproc_helpers", "make_full_samples")):
        f = ctx.prog.func(mod, q, R)
        un = [c for c in A.calls_in(f) if A.last_attr(c) == "unpack"]
        oku = len(un) == 1 and canon(un[0].args[1]) == "joker_helper.internal_units" and canon(un[0].func.value) == "JokerSamples"
        ctx.check(R, un[0] if un else f, "%s unpacks with the helper's unit table" % q, oku, "unpack call: %s" % (A.unparse(un[0])[:80] if un else None), key=q + ":unpack")


def run(ctx):
    K = _kernel.Kernel(ctx.prog)
    ctx.rule("C03-JIT", "the conditional posterior uses the jitter-inflated covariance: shared implementation with C01-JIT.")
    from .C07 import _Relabel
    W = check_jit(_Relabel(ctx, {"C01-JIT": "C03-JIT"}), K) or "s_ivar"
    check_pro(ctx, K)
    check_draw(ctx, K, W)
    check_layout(ctx, K)
    ctx.rule("C03-INDEP", "draws of different batches are independent: run_worker gives task i its own spawned child generator (shared implementation with C10-SPAWN).")
    from .C10 import check_spawn, check_fwd, check_prov
    check_spawn(_Relabel(ctx, {"C10-SPAWN": "C03-INDEP"}))
    ctx.rule("C03-STREAM", "the linear draws come from the generator handed to the sampler, advanced by whatever was drawn before: every draw site and every forwarded rng derives "
                           "from the rng parameter / self.rng / the task's spawned child, never from a generator re-built from the same seed (a re-seeded copy replays the same "
                           "stream on every call and overlaps the stream the acceptance uniforms were taken from) (shared with C10-PROV / C10-FRESH / C10-FWD).")
    check_prov(_Relabel(ctx, {"C10-PROV": "C03-STREAM", "C10-FRESH": "C03-STREAM"}))
    check_fwd(_Relabel(ctx, {"C10-FWD": "C03-STREAM", "C10-SELFRNG": "C03-STREAM"}))
    ctx.rule("C03-API", "n_linear_samples reaches the kernel from every public entry point (shared implementation with C02-API and C14-BUDGET): API -> helper -> make_full_samples* -> worker -> kernel.")
    from .C02 import check_api
    check_api(_Relabel(ctx, {"C02-API": "C03-API"}))
    for mod, q in (("thejoker.likelihood_helpers", "make_full_samples_inmem"),):
        f = ctx.prog.func(mod, q, "C03-API")
        kc = [c for c in A.calls_in(f) if A.last_attr(c) == "batch_get_posterior_samples"]
        ctx.check("C03-API", f, "%s hands n_linear_samples and rng to the kernel" % q, len(kc) == 1 and [canon(a) for a in kc[0].args[1:3]] == ["n_linear_samples", "rng"], "kernel call: %s" % (A.unparse(kc[0])[:80] if kc else None), key=q + ":kernel")
    from .C07 import check_meanstd
    ctx.rule("C03-PRIORS", "prior means / standard deviations reach the kernel converted to the table unit of their parameter, as floats of the declared value (shared with C07-MEANSTD); "
                           "the data inverse variances are those of the stored errors (shared with C15-IVAR).")
    check_meanstd(_Relabel(ctx, {"C07-MEANSTD": "C03-PRIORS"}))
    from .C15 import check_ivar
    check_ivar(_Relabel(ctx, {"C15-IVAR": "C03-PRIORS"}))
    from .C08 import check_lock as c08_lock
    ctx.rule("C03-DATA", "the covariance the draws use is that of the merged data: every source's velocities AND errors are stripped in the ONE common unit (shared with C08-LOCK).")
    c08_lock(_Relabel(ctx, {"C08-LOCK": "C03-DATA"}))
    from .C05 import check_fresh
    ctx.rule("C03-STATE", "nothing on the sampler path keeps or changes state between calls (no memoisation, no module-level mutation, no caching on caller-owned objects) "
                          "(shared with C05-FRESH).")
    check_fresh(_Relabel(ctx, {"C05-FRESH": "C03-STATE"}))
    # the conditional posterior is the posterior of THE design matrix: columns and reference epoch (shared clauses)
    from .C08 import check_col
    ctx.rule("C03-DESIGN", "the linear block is [Kepler | 1, offset indicators | (t - t_ref)^1, ..] in the order the kernel attaches the priors of (K, v0, offsets, v1, ..) to "
                           "(shared implementation with C08-COL / C01-DESIGN).")
    check_col(_Relabel(ctx, {"C08-COL": "C03-DESIGN"}))
    from .C04 import check_tref as c04_tref
    from .C15 import check_tref as c15_tref
    ctx.rule("C03-EPOCH", "one reference epoch for the Kepler column, the trend powers and the returned samples: data._t_ref_bmjd is the TCB MJD of the stored t_ref "
                          "(shared implementation with C04-TREF and C15-TREF).")
    c04_tref(_Relabel(ctx, {"C04-TREF": "C03-EPOCH"}), K)
    c15_tref(_Relabel(ctx, {"C15-TREF": "C03-EPOCH"}))
    ctx.assume("numpy's Generator.multivariate_normal(mean, cov, size) returns iid N(mean, cov) draws; dsysv solves the symmetric system")
