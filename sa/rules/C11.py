"""C11 - MCMC continuation targets the same model and posterior as the sampler.

The rule is written over *sinks* (the arguments of to_unit, KeplerianOrbit, get_radial_velocity, pm.Normal('obs'), pm.Normal.dist,
pm.Deterministic) with every local temporary substituted, so the names of intermediate variables play no role."""
import ast

from .. import astutil as A
from ..norm import canon, parse, dotted, equal, rat, NormError

TJ = "thejoker.thejoker"
KO = "thejoker._keplerian_orbit"
Q = "TheJoker.setup_mcmc"
CORE = {"P", "e", "omega", "M0", "K", "s"}


class Ctxt:
    """the roles of setup_mcmc: D = merged data object, I = ids, pn = name of the converted-parameter table"""

    def __init__(self, fn):
        self.fn = fn
        self.D = self.I = self.pn = None
        self.prep = None
        self.entries, self.loops = {}, []
        for s in fn.body:
            if isinstance(s, ast.Assign) and isinstance(s.value, ast.Call) and A.call_name(s.value) == "validate_prepare_data" and isinstance(s.targets[0], ast.Tuple) \
                    and len(s.targets[0].elts) == 3 and all(isinstance(e, ast.Name) for e in s.targets[0].elts[:2]):
                self.prep = s
                self.D, self.I = s.targets[0].elts[0].id, s.targets[0].elts[1].id
        for s in A.walk_local(fn):
            if isinstance(s, ast.Assign) and isinstance(s.targets[0], ast.Name) and isinstance(s.value, ast.Dict) and {A.str_const(k) for k in s.value.keys if k is not None} & CORE:
                self.pn = s.targets[0].id
        if self.pn is None:
            # p = {} filled by constant-key stores
            for s in A.walk_local(fn):
                if isinstance(s, ast.Assign) and isinstance(s.targets[0], ast.Subscript) and isinstance(s.targets[0].value, ast.Name) and A.str_const(s.targets[0].slice) in CORE \
                        and "to_unit" in A.unparse(s.value):
                    self.pn = s.targets[0].value.id
        if self.pn:
            for s in A.walk_local(fn):
                if isinstance(s, ast.Assign) and isinstance(s.targets[0], ast.Name) and s.targets[0].id == self.pn and isinstance(s.value, ast.Dict):
                    for k, v in zip(s.value.keys, s.value.values):
                        if k is not None and A.str_const(k):
                            self.entries[A.str_const(k)] = (v, s)
                if isinstance(s, ast.Assign) and isinstance(s.targets[0], ast.Subscript) and canon(s.targets[0].value) == self.pn:
                    k = A.str_const(s.targets[0].slice)
                    if k:
                        self.entries[k] = (s.value, s)
                    else:
                        lp = A.enclosing(s, (ast.For,))
                        if lp is not None:
                            self.loops.append((s, lp))

    def inl(self, e, st):
        return A.inline_temporaries(e, st, self.fn, depth=6, exclude={self.pn} if self.pn else ())

    def spec(self, src):
        """specification text with the role names filled in"""
        return parse(src.replace("$D", self.D or "data").replace("$I", self.I or "ids").replace("$p", self.pn or "p"))

    def names_source(self, e, st):
        """which name table an expression iterates: ('offsets' | 'trend', slice-from) through validate_n_offsets / validate_poly_trend (..)[1]"""
        lo = 0
        if isinstance(e, ast.Subscript) and isinstance(e.slice, ast.Slice) and e.slice.upper is None and e.slice.step is None:
            lo = A.const_value(e.slice.lower) if e.slice.lower is not None else 0
            e = e.value
        call = pos = None
        if isinstance(e, ast.Name):
            r = A.unpack_source(e.id, st)
            if r:
                call, pos = r
            else:
                e2 = A.inline_temporaries(e, st, self.fn, exclude={self.pn} if self.pn else ())
                if isinstance(e2, ast.Subscript) and isinstance(e2.slice, ast.Slice) and e2.slice.upper is None and e2.slice.step is None:
                    lo = A.const_value(e2.slice.lower) if e2.slice.lower is not None else 0
                    e2 = e2.value
                if isinstance(e2, ast.Subscript) and isinstance(e2.value, ast.Call):
                    call, pos = e2.value, A.const_value(e2.slice)
        elif isinstance(e, ast.Subscript) and isinstance(e.value, ast.Call):
            call, pos = e.value, A.const_value(e.slice)
        if call is None or pos != 1 or len(call.args) != 1:
            return None
        cn = A.call_name(call)
        if cn == "validate_n_offsets" and canon(call.args[0]) == canon(parse("self.prior.n_offsets")):
            return ("offsets", lo)
        if cn == "validate_poly_trend" and canon(call.args[0]) == canon(parse("self.prior.poly_trend")):
            return ("trend", lo)
        return None


def check_unit(ctx, fn, X):
    R = "C11-UNIT"
    ctx.rule(R, "every prior tensor that is combined with the unit-stripped data (times in days relative to t_ref, velocities and errors in the data unit, trend matrix in "
                "day powers) first passes through units.to_unit to the matching unit: P -> day, omega / M0 -> rad, s / K / offsets -> data unit, v_i -> data unit / day**i; "
                "the data arrays are stripped in those same units.")
    s = X.prep
    okv = s is not None and [canon(a) for a in s.value.args] == ["data", canon(parse("self.prior.poly_trend")), canon(parse("self.prior.n_offsets"))] and not s.value.keywords
    ctx.check(R, s or fn, "data merged exactly as for the sampler", okv, "validate_prepare_data call changed or its result is not unpacked as (data, ids, _)", key="prepare")
    if X.pn is None:
        ctx.violate(R, fn, "prior tensors converted before use", "no table of converted prior variables: prior variables are used in their declared units together with days / data-unit arrays", key="p-raw")
        return False
    want = {"P": "u.day", "omega": "u.rad", "M0": "u.rad", "s": "$D.rv.unit", "K": "$D.rv.unit"}
    for name, un in want.items():
        e = X.entries.get(name)
        v = X.inl(e[0], e[1]) if e else None
        ok = v is not None and canon(v) in (canon(X.spec("xu.to_unit(self.prior.pars['%s'], %s)" % (name, un))), canon(X.spec("xu.to_unit(self.prior.pars['%s'], %s)" % (name, un.replace("u.rad", "u.radian")))))
        ctx.check(R, e[1] if e else fn, "p[%s] converted to %s" % (name, un.replace("$D", "data")), ok,
                  "p['%s'] = %s: combined with %s without conversion" % (name, A.unparse(v)[:60] if v is not None else "missing", "times in days" if name == "P" else "radian trigonometry" if name in ("omega", "M0") else "data-unit velocities"), key="p:" + name)
    e = X.entries.get("e")
    ctx.check(R, e[1] if e else fn, "p[e] is the eccentricity variable", e is not None and canon(X.inl(e[0], e[1])) == canon(parse("self.prior.pars['e']")), "p['e'] = %s" % (A.unparse(e[0]) if e else "missing"), key="p:e", nontrivial=False)
    got = {}
    for st, lp in X.loops:
        it = lp.iter
        idx = None
        tgt = lp.target
        if isinstance(it, ast.Call) and A.call_name(it) == "enumerate" and len(it.args) == 1 and isinstance(tgt, ast.Tuple) and len(tgt.elts) == 2:
            idx, tgt, it = tgt.elts[0], tgt.elts[1], it.args[0]
        src = X.names_source(it, lp)
        if src is None or not isinstance(tgt, ast.Name):
            continue
        got[src[0]] = (st, lp, tgt.id, idx.id if isinstance(idx, ast.Name) else None, src[1])
    off = got.get("offsets")
    ok = off is not None and off[4] == 0 and canon(X.inl(off[0].value, off[0])) == canon(X.spec("xu.to_unit(self.prior.pars[%s], $D.rv.unit)" % off[2])) and canon(off[0].targets[0].slice) == off[2]
    ctx.check(R, off[0] if off else fn, "offset variables converted to the data unit", ok, "offset entries: %s" % (A.unparse(off[0]) if off else "missing (no loop over validate_n_offsets(self.prior.n_offsets)[1])"), key="p:offsets")
    tr = got.get("trend")
    ok = tr is not None and tr[3] is not None and tr[4] == 0 and canon(X.inl(tr[0].value, tr[0])) == canon(X.spec("xu.to_unit(self.prior.pars[%s], $D.rv.unit / u.day ** %s)" % (tr[2], tr[3]))) \
        and canon(tr[0].targets[0].slice) == tr[2]
    ctx.check(R, tr[0] if tr else fn, "trend variable v_i converted to data unit / day**i", ok, "trend entries: %s" % (A.unparse(tr[0]) if tr else "missing (no enumerate loop over validate_poly_trend(self.prior.poly_trend)[1])"), key="p:trend")
    return True


def check_phase(ctx, fn, X):
    R = "C11-PHASE"
    ctx.rule(R, "t_peri = P*M0/(2 pi) (the sampler's phase convention, same expression as get_time_with_phase); KeplerianOrbit receives it as t_periastron (not t0) together with "
                "period, ecc, omega; times are BMJD - t_ref; in _keplerian_orbit M = (t - t_periastron) * n and the K-branch of get_radial_velocity is "
                "K (cos(omega) cos f - sin(omega) sin f + e cos(omega)) = K (cos(omega + f) + e cos omega), the kernel's formula.")
    det = [c for c in A.calls_in(fn) if A.call_name(c) == "pm.Deterministic" and A.str_const(c.args[0]) == "t_peri"]
    tv = X.inl(det[0].args[1], A.enclosing_stmt(det[0])) if len(det) == 1 and len(det[0].args) > 1 else None
    ok = tv is not None and equal(tv, X.spec("$p['P'] * $p['M0'] / (2 * np.pi)"))
    ctx.check(R, det[0] if det else fn, "t_peri = P M0 / (2 pi)", ok, "t_peri = %s" % (A.unparse(tv) if tv is not None else "missing"), key="t_peri")
    ko = [c for c in A.calls_in(fn) if A.call_name(c) == "KeplerianOrbit"]
    if len(ko) != 1:
        ctx.violate(R, fn, "one KeplerianOrbit", "found %d" % len(ko), key="orbit")
        return
    c = ko[0]
    st = A.enclosing_stmt(c)
    want = {"period": "$p['P']", "ecc": "$p['e']", "omega": "$p['omega']"}
    got = {k.arg: canon(X.inl(k.value, st)) for k in c.keywords}
    tp_ok = got.get("t_periastron") in (canon(parse("model.named_vars['t_peri']")), canon(parse("model['t_peri']")), canon(parse("model.t_peri")))
    if not tp_ok and "t_periastron" in got:
        # the Deterministic itself (bound to a name)
        kv = [k.value for k in c.keywords if k.arg == "t_periastron"][0]
        r = X.inl(kv, st)
        tp_ok = isinstance(r, ast.Call) and A.call_name(r) == "pm.Deterministic" and A.str_const(r.args[0]) == "t_peri"
    ok = {k: got.get(k) for k in want} == {k: canon(X.spec(v)) for k, v in want.items()} and tp_ok and set(got) == set(want) | {"t_periastron"} and not c.args
    why = "KeplerianOrbit(%s)" % ", ".join("%s=%s" % (k.arg, A.unparse(k.value)) for k in c.keywords)
    if "t0" in got:
        why += ": t_peri passed as the reference *transit* time t0"
    ctx.check(R, c, "orbit(period=P, ecc=e, omega=omega, t_periastron=t_peri)", ok, why, key="orbit-args")
    rv = [c2 for c2 in A.calls_in(fn) if A.last_attr(c2) == "get_radial_velocity"]
    okr = False
    okx = False
    xv = None
    if len(rv) == 1 and rv[0].args:
        st = A.enclosing_stmt(rv[0])
        recv = X.inl(rv[0].func.value, st)
        xv = X.inl(rv[0].args[0], st)
        kk = A.get_arg(rv[0], None, "K")
        okr = isinstance(recv, ast.Call) and A.call_name(recv) == "KeplerianOrbit" and kk is not None and canon(X.inl(kk, st)) == canon(X.spec("$p['K']"))
        okx = canon(xv) == canon(X.spec("$D._t_bmjd - $D._t_ref_bmjd"))
    ctx.check(R, rv[0] if rv else fn, "model times = BMJD - reference epoch of the (merged) data", okx,
              "model evaluated at `%s`: the Keplerian phase is no longer measured from the data's reference epoch, while t_peri = P*M0/2pi and the trend matrix are" % (A.unparse(xv) if xv is not None else None), key="x")
    ctx.check(R, rv[0] if rv else fn, "radial velocity of that orbit with K = p[K]", okr, "call: %s" % (A.unparse(rv[0])[:100] if rv else None), key="rv-call")


def check_lib(ctx):
    R = "C11-PHASE"
    ki = ctx.prog.func(KO, "KeplerianOrbit.__init__", R)
    stores = {dotted(s.targets[0]): (s, canon(s.value)) for s in A.walk_local(ki) if isinstance(s, ast.Assign) and (dotted(s.targets[0]) or "") in ("self.tref", "self.n")}
    okn = "self.n" in stores and stores["self.n"][1] == canon(parse("2 * np.pi / self.period"))
    okt = "self.tref" in stores and stores["self.tref"][1] == canon(parse("self.t_periastron - self.t0"))
    ctx.check(R, ki, "orbit: n = 2 pi / period, tref = t_periastron - t0", okn and okt, "n = %s, tref = %s" % (stores.get("self.n", (0, None))[1], stores.get("self.tref", (0, None))[1]), key="lib:n-tref")
    tp = [s for s in A.walk_local(ki) if isinstance(s, ast.Assign) and dotted(s.targets[0]) == "self.t_periastron"]
    okp = any(canon(s.value) == canon(parse("as_tensor_variable(t_periastron)")) and "+t0 is None" in A.term_strings(A.path_condition(s, ki, inline=False)) for s in tp)
    ctx.check(R, ki, "orbit: a given t_periastron is used as such", okp, "t_periastron handling changed", key="lib:tperi")
    wt = ctx.prog.func(KO, "KeplerianOrbit._warp_times", R)
    rr = [canon(s.value) for s in A.walk_local(wt) if isinstance(s, ast.Return)]
    okw = sorted(rr) == sorted([canon(parse("tt.shape_padright(t) - self.t0")), canon(parse("t - self.t0"))])
    ta = ctx.prog.func(KO, "KeplerianOrbit._get_true_anomaly", R)
    # the mean anomaly is the first argument of the Kepler solver (ops.kepler), whatever the local is called
    kc = [c for c in A.calls_in(ta) if (A.call_name(c) or "").endswith("kepler") and c.args]
    mexpr = A.inline_temporaries(kc[0].args[0], A.enclosing_stmt(kc[0]), ta) if len(kc) == 1 else None
    md = [ast.Assign(targets=[ast.Name(id="M", ctx=ast.Store())], value=mexpr)] if mexpr is not None else []
    okm = mexpr is not None and canon(mexpr) == canon(parse("(self._warp_times(t, _pad=_pad) - self.tref) * self.n"))
    if okm:
        # (sin f, cos f) are returned in that order
        fl_ta = A.Flow(ta)
        for v_, s_ in fl_ta.returns:
            if isinstance(s_.value, ast.Tuple) and len(s_.value.elts) == 2 and all(isinstance(e_, ast.Name) for e_ in s_.value.elts):
                src0 = A.unpack_source(s_.value.elts[0].id, s_)
                src1 = A.unpack_source(s_.value.elts[1].id, s_)
                if src0 and src1 and not (src0[1] == 0 and src1[1] == 1 and (A.call_name(src0[0]) or "").endswith("kepler")):
                    okm = False
    ctx.check(R, ta, "orbit: mean anomaly M = ((t - t0) - (t_periastron - t0)) n = (t - t_periastron) n", okw and okm, "warp: %s ; M = %s" % (rr, A.unparse(md[0].value) if md else None), key="lib:M")
    gv = ctx.prog.func(KO, "KeplerianOrbit.get_radial_velocity", R)
    rets = [s for s in A.walk_local(gv) if isinstance(s, ast.Return) and any(pol and canon(t) == canon(parse("K is not None")) for t, pol in A.guards_of(s)) and not any("ecc is None" in A.unparse(t) and pol for t, pol in A.guards_of(s))]
    okk = False
    if len(rets) == 1:
        v = rets[0].value
        if isinstance(v, ast.Call) and (A.call_name(v) or "").endswith("squeeze"):
            v = v.args[0]
        # sin f / cos f: the two values unpacked from self._get_true_anomaly(t), in that order
        env = {}
        for nme in {n.id for n in ast.walk(v) if isinstance(n, ast.Name)}:
            src = A.unpack_source(nme, rets[0])
            if src and A.last_attr(src[0]) == "_get_true_anomaly":
                env[nme] = ast.Name(id=("sinf", "cosf")[src[1]] if src[1] in (0, 1) else nme, ctx=ast.Load())
        v = A._Subst(env, False).visit(A.clone(v)) if env else v
        okk = equal(v, parse("K * (self.cos_omega * cosf - self.sin_omega * sinf + self.ecc * self.cos_omega)")) and set(x.id for x in env.values()) == {"sinf", "cosf"}
    ctx.check(R, gv, "orbit: v_r = K (cos(omega + f) + e cos omega)", okk, "K-branch returns `%s`" % (A.unparse(rets[0].value)[:100] if rets else None), key="lib:rv")
    co = [s for s in A.walk_local(ki) if isinstance(s, ast.Assign) and dotted(s.targets[0]) in ("self.cos_omega", "self.sin_omega") and "self.omega" in A.unparse(s.value)]
    okc = sorted(canon(s.value) for s in co) == sorted([canon(parse("tt.cos(self.omega)")), canon(parse("tt.sin(self.omega)"))])
    ctx.check(R, ki, "orbit: cos/sin of the given omega", okc, "cos_omega / sin_omega definitions changed", key="lib:omega", nontrivial=False)




def _parts(e):
    if isinstance(e, ast.BinOp) and isinstance(e.op, ast.Add):
        return _parts(e.left) + _parts(e.right)
    return [e]


def _obs(fn):
    return [c for c in A.calls_in(fn) if A.call_name(c) == "pm.Normal" and c.args and A.str_const(c.args[0]) == "obs"]


def check_trend(ctx, fn, X):
    R = "C11-TREND"
    ctx.rule(R, "the trend is M . [v0, offsets..., v1...] with M from the same get_trend_design_matrix(data, ids, poly_trend) the sampler uses and the parameter vector stacked "
                "in the matrix's column order; model_rv (the mean of the observed node and the `model_rv` deterministic) = Keplerian term + trend.")
    obs = _obs(fn)
    if len(obs) != 1 or A.get_arg(obs[0], None, "mu") is None:
        ctx.violate(R, fn, "observed node with a mean", "found %d `obs` nodes" % len(obs), key="obs")
        return
    o = obs[0]
    st = A.enclosing_stmt(o)
    mu = X.inl(A.get_arg(o, None, "mu"), st)
    if isinstance(mu, ast.Call) and A.call_name(mu) == "pm.Deterministic" and len(mu.args) > 1:
        mu = X.inl(mu.args[1], st)
    ps = _parts(mu)
    kep = [x for x in ps if isinstance(x, ast.Call) and A.last_attr(x) == "get_radial_velocity"]
    dots = [x for x in ps if isinstance(x, ast.Call) and A.call_name(x) in ("pt.dot", "tt.dot", "pm.math.dot")]
    okr = len(ps) == 2 and len(kep) == 1 and len(dots) == 1
    ctx.check(R, o, "model_rv = Keplerian term + trend", okr, "mean of the observed node = %s" % A.unparse(mu)[:140], key="rv_model")
    if dots:
        d = dots[0]
        okm = len(d.args) == 2 and canon(d.args[0]) == canon(X.spec("get_trend_design_matrix($D, $I, self.prior.poly_trend)"))
        ctx.check(R, o, "design matrix = get_trend_design_matrix(data, ids, poly_trend)", okm, "M = %s" % (A.unparse(d.args[0])[:90] if d.args else None), key="M")
        vec = d.args[1] if len(d.args) == 2 else None
        okt = isinstance(vec, ast.Call) and A.call_name(vec) in ("pt.stack", "tt.stack") and vec.args and (A.get_arg(vec, 1, "axis") is None or A.const_value(A.get_arg(vec, 1, "axis")) == 0)
        ctx.check(R, o, "trend = M . stack(v_pars)", bool(okt), "trend = %s" % A.unparse(d)[:120], key="trend")
        okv = False
        why = "no stacked parameter list"
        if okt:
            lst = _parts(vec.args[0])
            why = "v_pars = %s" % A.unparse(vec.args[0])[:120]
            kinds = []
            for x in lst:
                if isinstance(x, ast.List) and len(x.elts) == 1 and canon(x.elts[0]) == canon(X.spec("$p['v0']")):
                    kinds.append("v0")
                elif isinstance(x, ast.ListComp) and len(x.generators) == 1 and not x.generators[0].ifs and isinstance(x.generators[0].target, ast.Name) \
                        and canon(x.elt) == canon(X.spec("$p[%s]" % x.generators[0].target.id)):
                    src = X.names_source(x.generators[0].iter, st)
                    kinds.append(src)
                else:
                    kinds.append(None)
            okv = kinds == ["v0", ("offsets", 0), ("trend", 1)]
        ctx.check(R, o, "parameter vector = [v0] + offsets + v_trend[1:]", okv, why + ": not the column order of the design matrix", key="v_pars")
    dm = [c for c in A.calls_in(fn) if A.call_name(c) == "pm.Deterministic" and A.str_const(c.args[0]) == "model_rv"]
    okd = len(dm) == 1 and len(dm[0].args) > 1 and canon(X.inl(dm[0].args[1], A.enclosing_stmt(dm[0]))) == canon(mu)
    ctx.check(R, dm[0] if dm else fn, "model_rv deterministic is that model", okd, "model_rv = %s" % (A.unparse(dm[0].args[1]) if dm else None), key="det", nontrivial=False)
    return mu


def check_sigma(ctx, fn, X, mu):
    R = "C11-SIGMA"
    ctx.rule(R, "the observed node is Normal(mu=model_rv, sigma=sqrt(err**2 + s**2), observed=y) with y, err stripped in the data unit; the ln_likelihood diagnostic evaluates the "
                "same Gaussian (same sigma expression, same y) summed over epochs; logp = model.logp(); ln_prior = model.logp() - ln_likelihood.")
    obs = _obs(fn)
    if len(obs) != 1:
        ctx.violate(R, fn, "observed node", "found %d `obs` nodes" % len(obs), key="obs")
        return
    o = obs[0]
    st = A.enclosing_stmt(o)
    sig = X.inl(A.get_arg(o, None, "sigma"), st) if A.get_arg(o, None, "sigma") is not None else None
    want = "pt.sqrt($D.rv_err.to_value($D.rv.unit)**2 + $p['s']**2)"
    oks = sig is not None and canon(sig) in (canon(X.spec(want)), canon(X.spec(want.replace("to_value($D.rv.unit)", "to($D.rv.unit).value"))))
    ctx.check(R, o, "obs sigma = sqrt(err**2 + s**2) in the data unit", oks, "sigma = %s" % (A.unparse(sig)[:100] if sig is not None else None), key="obs-sigma")
    ov = A.get_arg(o, None, "observed")
    obsv = X.inl(ov, st) if ov is not None else None
    ctx.check(R, o, "observed = y (data velocities in the data unit)", obsv is not None and canon(obsv) == canon(X.spec("$D.rv.value")),
              "observed = %s" % (A.unparse(obsv)[:40] if obsv is not None else None), key="obs-mu")
    dd = [c for c in A.calls_in(fn) if A.call_name(c) == "pm.Normal.dist"]
    ll = [c for c in A.calls_in(fn) if A.call_name(c) == "pm.Deterministic" and A.str_const(c.args[0]) == "ln_likelihood"]
    if len(dd) != 1 or len(ll) != 1:
        ctx.violate(R, fn, "ln_likelihood diagnostic", "diagnostic missing", key="diag")
        return
    d = dd[0]
    dsig = X.inl(d.args[1] if len(d.args) > 1 else A.get_arg(d, None, "sigma"), A.enclosing_stmt(d))
    same = sig is not None and canon(dsig) == canon(sig)
    ctx.check(R, d, "diagnostic sigma is the observed node's sigma", same,
              "diagnostic uses sigma = `%s` while the observed node uses `%s`: the stored ln_likelihood is not the Gaussian data term (jitter / units differ)" % (A.unparse(dsig)[:60], A.unparse(sig)[:60] if sig is not None else None), key="diag-sigma")
    dmu = d.args[0] if d.args else A.get_arg(d, None, "mu")
    dmr = X.inl(dmu, A.enclosing_stmt(d))
    okdm = canon(dmu) in ("model.model_rv", canon(parse("model['model_rv']")), canon(parse("model.named_vars['model_rv']"))) or (mu is not None and canon(dmr) == canon(mu)) \
        or (isinstance(dmr, ast.Call) and A.call_name(dmr) == "pm.Deterministic" and A.str_const(dmr.args[0]) == "model_rv")
    ctx.check(R, d, "diagnostic mean is model_rv", okdm, "mean = %s" % A.unparse(dmu), key="diag-mu", nontrivial=False)
    lv = X.inl(ll[0].args[1], A.enclosing_stmt(ll[0]))
    okl = False
    if isinstance(lv, ast.Call) and A.last_attr(lv) == "sum":
        inner = lv.func.value
        if isinstance(inner, ast.Call) and A.call_name(inner) == "pm.logp" and len(inner.args) == 2 and canon(inner.args[1]) == canon(X.spec("$D.rv.value")) \
                and isinstance(inner.args[0], ast.Call) and A.call_name(inner.args[0]) == "pm.Normal.dist":
            okl = True
    ctx.check(R, ll[0], "diagnostic = sum over epochs of logp(dist, y)", okl, "ln_likelihood = %s" % A.unparse(lv)[:90], key="diag-sum")
    lp = [c for c in A.calls_in(fn) if A.call_name(c) == "pm.Deterministic" and A.str_const(c.args[0]) == "logp"]
    ctx.check(R, lp[0] if lp else fn, "logp deterministic = model.logp()", len(lp) == 1 and canon(X.inl(lp[0].args[1], A.enclosing_stmt(lp[0]))) == canon(parse("model.logp()")), "logp = %s" % (A.unparse(lp[0].args[1]) if lp else None), key="logp", nontrivial=False)
    pr = [c for c in A.calls_in(fn) if A.call_name(c) == "pm.Deterministic" and A.str_const(c.args[0]) == "ln_prior"]
    okp = False
    if len(pr) == 1 and len(pr[0].args) > 1:
        v = X.inl(pr[0].args[1], A.enclosing_stmt(pr[0]))
        if isinstance(v, ast.BinOp) and isinstance(v.op, ast.Sub) and canon(v.left) == canon(parse("model.logp()")):
            r = v.right
            okp = (isinstance(r, ast.Call) and A.call_name(r) == "pm.Deterministic" and A.str_const(r.args[0]) == "ln_likelihood") or \
                canon(r) in ("model.ln_likelihood", canon(parse("model['ln_likelihood']")), canon(parse("model.named_vars['ln_likelihood']"))) or canon(r) == canon(lv)
    ctx.check(R, pr[0] if pr else fn, "ln_prior = model.logp() - ln_likelihood", okp, "ln_prior = %s" % (A.unparse(pr[0].args[1]) if pr else None), key="ln_prior")
    # obs precedes logp so that the data term is included
    if lp:
        ctx.check(R, lp[0], "logp includes the data term (obs defined first)", A.doc_index(o) < A.doc_index(lp[0]), "logp is taken before obs exists", key="logp-order", nontrivial=False)


def check_init(ctx, fn, X):
    R = "C11-INIT"
    ctx.rule(R, "the returned initial point maps every name in prior.par_names to chosen_sample[name].to_value(unit of prior.pars[name]); with several samples the chosen sample is median_period().")
    flow = A.Flow(fn)
    lp = [l for l in A.walk_local(fn) if isinstance(l, ast.For) and canon(l.iter) == canon(parse("self.prior.par_names")) and isinstance(l.target, ast.Name)]
    ok = False
    okm = False
    why = "no loop over self.prior.par_names"
    whym = why
    dest = None
    # the same table written as a comprehension: D = {name: value(name) for name in prior.par_names}
    dcs = [s for s in A.walk_local(fn) if isinstance(s, ast.Assign) and isinstance(s.targets[0], ast.Name) and isinstance(s.value, ast.DictComp) and len(s.value.generators) == 1
           and not s.value.generators[0].ifs and canon(s.value.generators[0].iter) == canon(parse("self.prior.par_names")) and isinstance(s.value.generators[0].target, ast.Name)
           and canon(s.value.key) == s.value.generators[0].target.id]
    comp_form = None
    if not lp and len(dcs) == 1:
        comp_form = dcs[0]
    if len(lp) == 1 or comp_form is not None:
        if comp_form is not None:
            nm = comp_form.value.generators[0].target.id
            st = [comp_form]
        else:
            nm = lp[0].target.id
            st = [s for s in lp[0].body if isinstance(s, ast.Assign) and isinstance(s.targets[0], ast.Subscript) and isinstance(s.targets[0].value, ast.Name) and canon(s.targets[0].slice) == nm]
        if len(st) == 1:
            dest = st[0].targets[0].id if comp_form is not None else st[0].targets[0].value.id
            v = A.inline_temporaries(comp_form.value.value if comp_form is not None else st[0].value, st[0], fn, exclude=(nm,))
            r = flow.resolve(v, at=st[0])
            cases = A.ifexp_terms(r)
            forms = ("%s[" + nm + "].to_value(getattr(self.prior.pars[" + nm + "], xu.UNIT_ATTR_NAME))", "%s[" + nm + "].to(getattr(self.prior.pars[" + nm + "], xu.UNIT_ATTR_NAME)).value")
            many = A.nnf_of_src("len(joker_samples) > 1")
            seen = {}
            ok = bool(cases)
            for terms, leaf in cases:
                c = canon(leaf)
                if c in [canon(parse(f % "joker_samples.median_period()")) for f in forms]:
                    seen[True] = terms
                elif c in [canon(parse(f % "joker_samples")) for f in forms]:
                    seen[False] = terms
                else:
                    ok = False
            why = "initial value = %s" % A.unparse(r)[:140]
            few = A.nnf(parse("len(joker_samples) > 1"), True)
            okm = ok and set(seen) == {True, False} and A.nnf_implies(A.conj(seen[True]), many) and A.nnf_implies(A.conj(seen[False]), few)
            whym = "chosen sample: %s" % {("median_period()" if k else "joker_samples"): A.term_strings(v) for k, v in seen.items()}
    ctx.check(R, lp[0] if lp else fn, "initial point expressed in the prior's units, for every parameter", ok, why, key="init")
    ctx.check(R, lp[0] if lp else fn, "several samples -> the median-period sample", okm, whym, key="median")
    ty = A.find_raising_guard(fn, A.nnf_of_src("not isinstance(joker_samples, JokerSamples)"))
    ctx.check(R, fn, "non-JokerSamples input raises", bool(ty), "type guard missing", key="type", nontrivial=False)
    okret = False
    if dest:
        okret = bool(flow.returns)
        for v, s in flow.returns:
            base = s.value
            # the returned object is the table (possibly rebuilt from its own items / passed through custom_func)
            okret = okret and isinstance(base, ast.Name) and base.id == dest
    ctx.check(R, fn, "returns the initial point", okret, "returns %s" % [A.unparse(s.value) for _, s in flow.returns], key="ret", nontrivial=False)


def run(ctx):
    fn = ctx.prog.func(TJ, Q, "C11")
    X = Ctxt(fn)
    if check_unit(ctx, fn, X):
        check_phase(ctx, fn, X)
        mu = check_trend(ctx, fn, X)
        check_sigma(ctx, fn, X, mu)
    check_lib(ctx)
    from .C07 import _Relabel
    from .C09 import check_fcm
    ctx.rule("C11-KPRIOR", "the K prior of the MCMC model is the distribution whose scale the kernel reproduces: sigma = clip(sigma_K0 (P/P0)^(-1/3) / sqrt(1 - e^2), 0, max_K) "
                           "(shared with C09-FCM; the kernel side is C01-KVAR).")
    check_fcm(_Relabel(ctx, {"C09-FCM": "C11-KPRIOR"}))
    check_init(ctx, fn, X)
    from .C09 import check_uniformlog
    from .C07 import check_units_module
    ctx.rule("C11-DENS", "the declared densities the MCMC target is built from: UniformLog.logp is -ln(value) - ln ln(b/a) on a <= value <= b and -inf outside (shared with "
                         "C09-FORM); units.to_unit converts in the right direction (shared with C07-TOUNIT).")
    check_uniformlog(_Relabel(ctx, {"C09-FORM": "C11-DENS", "C09-SUPP": "C11-DENS", "C09-FORM:logp": "C11-DENS", "C09-FORM:rng_fn": "C11-DENS"}))
    check_units_module(_Relabel(ctx, {"C07-TOUNIT": "C11-DENS"}))
    from .C07 import _Relabel as _RL
    from .C08 import check_returned
    check_returned(_RL(ctx, {}), "C11-TREND")
    ctx.rule("C11-NAMES", "the model variables setup_mcmc looks up by name (`t_peri`, `obs`, ...) are created by setup_mcmc only: a variable of that name registered elsewhere "
                          "(in other units) would be reused through the `not in model.named_vars` guards.")
    looked = set()
    for n_ in A.walk_local(fn):
        if isinstance(n_, ast.Compare) and len(n_.ops) == 1 and isinstance(n_.ops[0], (ast.In, ast.NotIn)) and "named_vars" in A.unparse(n_.comparators[0]) and A.str_const(n_.left):
            looked.add(A.str_const(n_.left))
        if isinstance(n_, ast.Subscript) and "named_vars" in A.unparse(n_.value) and A.str_const(n_.slice):
            looked.add(A.str_const(n_.slice))
    k_ = 0
    for mn_, q_, f_ in ctx.prog.all_functions():
        if mn_ == TJ and q_ == Q:
            continue
        for c_ in A.calls_in(f_):
            if (A.call_name(c_) or "").split(".")[0] in ("pm", "pymc") and c_.args and A.str_const(c_.args[0]) in looked:
                k_ += 1
                ctx.violate("C11-NAMES", c_, "`%s` is created by setup_mcmc only" % A.str_const(c_.args[0]),
                            "%s registers a model variable named `%s`: setup_mcmc finds it in model.named_vars and uses it instead of its own (day / radian based) one" % (q_, A.str_const(c_.args[0])), key="names:%s:%s" % (q_, A.str_const(c_.args[0])))
    ctx.check("C11-NAMES", fn, "no other function creates %s" % sorted(looked), k_ == 0 and bool(looked), "no looked-up names found" if not looked else "", key="names", nontrivial=False)
    ctx.rule("C11-PURE", "the initial point is the chosen sample: setup_mcmc, and the diagnostics / selectors it calls on the samples (is_P_unimodal, median_period), only read "
                         "them - an in-place sort of a column view would pair the median period with another row's angles and amplitudes (shared with C19-PURE).")
    SA_ = "thejoker.samples_analysis"
    for mod_, q_ in ((TJ, Q), (SA_, "is_P_unimodal"), ("thejoker.samples", "JokerSamples.median_period")):
        f_ = ctx.prog.func(mod_, q_, "C11-PURE")
        ps_ = set(A.param_names(f_))
        ws = A.storage_writes(f_, lambda e: isinstance(e, ast.Name) and e.id in ps_ and e.id not in ("model",))
        # setup_mcmc's own bookkeeping on the model / prior objects is not a write into the samples
        ws = [(n_, w_) for n_, w_ in ws if "joker_samples" in A.unparse(n_) or "samples" in A.unparse(n_) or mod_ != TJ]
        ctx.check("C11-PURE", ws[0][0] if ws else f_, "%s leaves the samples untouched" % q_, not ws, ws[0][1] if ws else "", key="pure:" + q_)
    ctx.assume("twobody / the kernel evaluate K (cos(omega + f) + e cos omega) with M = 2 pi (t - t_ref)/P - M0 (library summary); pymc's Normal logp is the Gaussian log-density")
    ctx.assume("units.to_unit multiplies by base.to(target) (thejoker/units.py, checked by C07-TOUNIT)")
