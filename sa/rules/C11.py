"""C11 - MCMC continuation targets the same model and posterior as the sampler."""
import ast

from .. import astutil as A
from ..norm import canon, parse, dotted, equal, rat, NormError

TJ = "thejoker.thejoker"
KO = "thejoker._keplerian_orbit"
Q = "TheJoker.setup_mcmc"


def _pdict(fn):
    """the parameter table p: name -> expression (from the dict literal and the p[name] = ... stores)"""
    entries = {}
    loops = {}
    for s in A.walk_local(fn):
        if isinstance(s, ast.Assign) and canon(s.targets[0]) == "p" and isinstance(s.value, ast.Dict):
            for k, v in zip(s.value.keys, s.value.values):
                if A.str_const(k):
                    entries[A.str_const(k)] = (v, s)
        if isinstance(s, ast.Assign) and isinstance(s.targets[0], ast.Subscript) and canon(s.targets[0].value) == "p":
            lp = A.enclosing(s, (ast.For,))
            if lp is not None:
                loops[canon(lp.iter)] = (s, lp)
    return entries, loops


def check_unit(ctx, fn):
    R = "C11-UNIT"
    ctx.rule(R, "every prior tensor that is combined with the unit-stripped data (times in days relative to t_ref, velocities and errors in the data unit, trend matrix in "
                "day powers) first passes through units.to_unit to the matching unit: P -> day, omega / M0 -> rad, s / K / offsets -> data unit, v_i -> data unit / day**i; "
                "the data arrays are stripped in those same units.")
    entries, loops = _pdict(fn)
    plain = [s for s in A.walk_local(fn) if isinstance(s, ast.Assign) and canon(s.targets[0]) == "p" and not isinstance(s.value, ast.Dict)]
    if plain:
        ctx.violate(R, plain[0], "prior tensors converted before use", "`p = %s`: prior variables are used in their declared units together with days / data-unit arrays" % A.unparse(plain[0].value), key="p-raw")
        return
    want = {"P": "u.day", "omega": "u.rad", "M0": "u.rad", "s": "RVU", "K": "RVU"}
    rvu = [s for s in A.walk_local(fn) if isinstance(s, ast.Assign) and canon(s.targets[0]) == "rv_unit"]
    ok_rvu = len(rvu) == 1 and canon(rvu[0].value) == canon(parse("data.rv.unit"))
    ctx.check(R, rvu[0] if rvu else fn, "velocity unit of the model = unit of the stripped data", ok_rvu, "rv_unit = %s" % [A.unparse(s.value) for s in rvu], key="rv_unit")
    for name, un in want.items():
        e = entries.get(name)
        target = "rv_unit" if un == "RVU" else un
        ok = e is not None and canon(e[0]) in (canon(parse("xu.to_unit(self.prior.pars['%s'], %s)" % (name, target))), canon(parse("xu.to_unit(self.prior.pars['%s'], %s)" % (name, target.replace("u.rad", "u.radian")))))
        ctx.check(R, e[1] if e else fn, "p[%s] converted to %s" % (name, target), ok,
                  "p['%s'] = %s: combined with %s without conversion" % (name, A.unparse(e[0])[:60] if e else "missing", "times in days" if name == "P" else "radian trigonometry" if name in ("omega", "M0") else "data-unit velocities"), key="p:" + name)
    e = entries.get("e")
    ctx.check(R, e[1] if e else fn, "p[e] is the eccentricity variable", e is not None and canon(e[0]) == canon(parse("self.prior.pars['e']")), "p['e'] = %s" % (A.unparse(e[0]) if e else "missing"), key="p:e", nontrivial=False)
    off = loops.get("offset_names")
    ok = off is not None and canon(off[0].value) == canon(parse("xu.to_unit(self.prior.pars[%s], rv_unit)" % off[1].target.id)) and canon(off[0].targets[0].slice) == off[1].target.id
    ctx.check(R, off[0] if off else fn, "offset variables converted to the data unit", ok, "offset entries: %s" % (A.unparse(off[0]) if off else "missing"), key="p:offsets")
    tr = loops.get(canon(parse("enumerate(vtrend_names)")))
    ok = False
    if tr is not None and isinstance(tr[1].target, ast.Tuple):
        i, nm = tr[1].target.elts[0].id, tr[1].target.elts[1].id
        ok = canon(tr[0].value) == canon(parse("xu.to_unit(self.prior.pars[%s], rv_unit / u.day ** %s)" % (nm, i))) and canon(tr[0].targets[0].slice) == nm
    ctx.check(R, tr[0] if tr else fn, "trend variable v_i converted to data unit / day**i", ok, "trend entries: %s" % (A.unparse(tr[0]) if tr else "missing"), key="p:trend")
    # name tables
    on = [s for s in A.walk_local(fn) if isinstance(s, ast.Assign) and "offset_names" in A.unparse(s.targets[0])]
    vn = [s for s in A.walk_local(fn) if isinstance(s, ast.Assign) and "vtrend_names" in A.unparse(s.targets[0])]
    okn = len(on) == 1 and canon(on[0].value) == canon(parse("validate_n_offsets(self.prior.n_offsets)")) and len(vn) == 1 and canon(vn[0].value) == canon(parse("validate_poly_trend(self.prior.poly_trend)"))
    ctx.check(R, fn, "offset / trend names come from the prior's n_offsets / poly_trend", okn, "name tables changed", key="names")
    # stripped data
    defs = {}
    for s in fn.body:
        if isinstance(s, ast.Assign) and canon(s.targets[0]) in ("x", "y", "err") and canon(s.targets[0]) not in defs:
            defs[canon(s.targets[0])] = s
    okx = "x" in defs and canon(defs["x"].value) == canon(parse("data._t_bmjd - data._t_ref_bmjd"))
    ctx.check("C11-PHASE", defs.get("x", fn), "model times = BMJD - reference epoch of the (merged) data", okx,
              "x = %s: the Keplerian phase is no longer measured from the data's reference epoch, while t_peri = P*M0/2pi and the trend matrix are" % (A.unparse(defs["x"].value) if "x" in defs else None), key="x")
    oky = "y" in defs and canon(defs["y"].value) == canon(parse("data.rv.value")) and "err" in defs and canon(defs["err"].value) in (canon(parse("data.rv_err.to_value(data.rv.unit)")), canon(parse("data.rv_err.to(data.rv.unit).value")))
    ctx.check(R, defs.get("err", fn), "y and err stripped in the data unit", oky, "y = %s, err = %s" % (A.unparse(defs["y"].value) if "y" in defs else None, A.unparse(defs["err"].value) if "err" in defs else None), key="yerr")
    vp = [s for s in fn.body if isinstance(s, ast.Assign) and isinstance(s.value, ast.Call) and A.call_name(s.value) == "validate_prepare_data"]
    okv = len(vp) == 1 and [canon(a) for a in vp[0].value.args] == ["data", "self.prior.poly_trend", "self.prior.n_offsets"] and isinstance(vp[0].targets[0], ast.Tuple) and [canon(e) for e in vp[0].targets[0].elts][:2] == ["data", "ids"]
    ctx.check(R, vp[0] if vp else fn, "data merged exactly as for the sampler", okv, "validate_prepare_data call changed", key="prepare")


def check_phase(ctx, fn):
    R = "C11-PHASE"
    ctx.rule(R, "t_peri = P*M0/(2 pi) (the sampler's phase convention, same expression as get_time_with_phase); KeplerianOrbit receives it as t_periastron (not t0) together with "
                "period, ecc, omega; times are BMJD - t_ref; in _keplerian_orbit M = (t - t_periastron) * n and the K-branch of get_radial_velocity is "
                "K (cos(omega) cos f - sin(omega) sin f + e cos(omega)) = K (cos(omega + f) + e cos omega), the kernel's formula.")
    det = [c for c in A.calls_in(fn) if A.call_name(c) == "pm.Deterministic" and A.str_const(c.args[0]) == "t_peri"]
    ok = len(det) == 1 and equal(det[0].args[1], parse("p['P'] * p['M0'] / (2 * np.pi)"))
    ctx.check(R, det[0] if det else fn, "t_peri = P M0 / (2 pi)", ok, "t_peri = %s" % (A.unparse(det[0].args[1]) if det else "missing"), key="t_peri")
    ko = [c for c in A.calls_in(fn) if A.call_name(c) == "KeplerianOrbit"]
    if len(ko) != 1:
        ctx.violate(R, fn, "one KeplerianOrbit", "found %d" % len(ko), key="orbit")
        return
    c = ko[0]
    want = {"period": "p['P']", "ecc": "p['e']", "omega": "p['omega']", "t_periastron": "model.named_vars['t_peri']"}
    got = {k.arg: canon(k.value) for k in c.keywords}
    ok = got == {k: canon(parse(v)) for k, v in want.items()} and not c.args
    why = "KeplerianOrbit(%s)" % ", ".join("%s=%s" % (k.arg, A.unparse(k.value)) for k in c.keywords)
    if "t0" in got:
        why += ": t_peri passed as the reference *transit* time t0"
    ctx.check(R, c, "orbit(period=P, ecc=e, omega=omega, t_periastron=t_peri)", ok, why, key="orbit-args")
    rv = [c2 for c2 in A.calls_in(fn) if A.last_attr(c2) == "get_radial_velocity"]
    okr = len(rv) == 1 and canon(rv[0].args[0]) == "x" and canon(A.get_arg(rv[0], None, "K")) == canon(parse("p['K']")) and canon(rv[0].func.value) == "orbit"
    ctx.check(R, rv[0] if rv else fn, "radial velocity evaluated at the model times with K = p[K]", okr, "call: %s" % (A.unparse(rv[0]) if rv else None), key="rv-call")
    # library side
    ki = ctx.prog.func(KO, "KeplerianOrbit.__init__", R)
    stores = {dotted(s.targets[0]): (s, canon(s.value)) for s in A.walk_local(ki) if isinstance(s, ast.Assign) and (dotted(s.targets[0]) or "") in ("self.tref", "self.n")}
    okn = "self.n" in stores and stores["self.n"][1] == canon(parse("2 * np.pi / self.period"))
    okt = "self.tref" in stores and stores["self.tref"][1] == canon(parse("self.t_periastron - self.t0"))
    ctx.check(R, ki, "orbit: n = 2 pi / period, tref = t_periastron - t0", okn and okt, "n = %s, tref = %s" % (stores.get("self.n", (0, None))[1], stores.get("self.tref", (0, None))[1]), key="lib:n-tref")
    tp = [s for s in A.walk_local(ki) if isinstance(s, ast.Assign) and dotted(s.targets[0]) == "self.t_periastron"]
    okp = any(canon(s.value) == canon(parse("as_tensor_variable(t_periastron)")) and any(canon(t) == canon(parse("t0 is None")) and pol for t, pol in A.guards_of(s)) for s in tp)
    ctx.check(R, ki, "orbit: a given t_periastron is used as such", okp, "t_periastron handling changed", key="lib:tperi")
    wt = ctx.prog.func(KO, "KeplerianOrbit._warp_times", R)
    rr = [canon(s.value) for s in A.walk_local(wt) if isinstance(s, ast.Return)]
    okw = sorted(rr) == sorted([canon(parse("tt.shape_padright(t) - self.t0")), canon(parse("t - self.t0"))])
    ta = ctx.prog.func(KO, "KeplerianOrbit._get_true_anomaly", R)
    md = [s for s in A.walk_local(ta) if isinstance(s, ast.Assign) and canon(s.targets[0]) == "M"]
    okm = len(md) == 1 and canon(md[0].value) == canon(parse("(self._warp_times(t, _pad=_pad) - self.tref) * self.n"))
    ctx.check(R, ta, "orbit: mean anomaly M = ((t - t0) - (t_periastron - t0)) n = (t - t_periastron) n", okw and okm, "warp: %s ; M = %s" % (rr, A.unparse(md[0].value) if md else None), key="lib:M")
    gv = ctx.prog.func(KO, "KeplerianOrbit.get_radial_velocity", R)
    rets = [s for s in A.walk_local(gv) if isinstance(s, ast.Return) and any(pol and canon(t) == canon(parse("K is not None")) for t, pol in A.guards_of(s)) and not any("ecc is None" in A.unparse(t) and pol for t, pol in A.guards_of(s))]
    okk = False
    if len(rets) == 1:
        v = rets[0].value
        if isinstance(v, ast.Call) and (A.call_name(v) or "").endswith("squeeze"):
            v = v.args[0]
        okk = equal(v, parse("K * (self.cos_omega * cosf - self.sin_omega * sinf + self.ecc * self.cos_omega)"))
    ctx.check(R, gv, "orbit: v_r = K (cos(omega + f) + e cos omega)", okk, "K-branch returns `%s`" % (A.unparse(rets[0].value)[:100] if rets else None), key="lib:rv")
    co = [s for s in A.walk_local(ki) if isinstance(s, ast.Assign) and dotted(s.targets[0]) in ("self.cos_omega", "self.sin_omega") and "self.omega" in A.unparse(s.value)]
    okc = sorted(canon(s.value) for s in co) == sorted([canon(parse("tt.cos(self.omega)")), canon(parse("tt.sin(self.omega)"))])
    ctx.check(R, ki, "orbit: cos/sin of the given omega", okc, "cos_omega / sin_omega definitions changed", key="lib:omega", nontrivial=False)


def check_trend(ctx, fn):
    R = "C11-TREND"
    ctx.rule(R, "the trend is M . [v0, offsets..., v1...] with M from the same get_trend_design_matrix(data, ids, poly_trend) the sampler uses and the parameter vector stacked "
                "in the matrix's column order; model_rv = Keplerian term + trend.")
    mm = [s for s in A.walk_local(fn) if isinstance(s, ast.Assign) and canon(s.targets[0]) == "M"]
    okm = len(mm) == 1 and canon(mm[0].value) == canon(parse("get_trend_design_matrix(data, ids, self.prior.poly_trend)"))
    ctx.check(R, mm[0] if mm else fn, "design matrix = get_trend_design_matrix(data, ids, poly_trend)", okm, "M = %s" % (A.unparse(mm[0].value) if mm else None), key="M")
    vp = [s for s in A.walk_local(fn) if isinstance(s, ast.Assign) and canon(s.targets[0]) == "v_pars"]
    def parts(e):
        if isinstance(e, ast.BinOp) and isinstance(e.op, ast.Add):
            return parts(e.left) + parts(e.right)
        return [canon(e)]
    okv = len(vp) == 1 and parts(vp[0].value) == parts(parse("[p['v0']] + [p[name] for name in offset_names] + [p[name] for name in vtrend_names[1:]]"))
    why = "v_pars = %s" % (A.unparse(vp[0].value)[:120] if vp else None)
    ctx.check(R, vp[0] if vp else fn, "parameter vector = [v0] + offsets + v_trend[1:]", okv, why + ": not the column order of the design matrix", key="v_pars")
    flow = A.Flow(fn)
    tr = [s for s in A.walk_local(fn) if isinstance(s, ast.Assign) and canon(s.targets[0]) == "trend"]
    okt = len(tr) == 1 and canon(A.inline_temporaries(tr[0].value, tr[0], fn, only={"v_trend_vec"})) == canon(parse("pt.dot(M, pt.stack(v_pars, axis=0))"))
    ctx.check(R, tr[0] if tr else fn, "trend = M . stack(v_pars)", okt, "trend = %s" % (A.unparse(tr[0].value) if tr else None), key="trend")
    rm = [s for s in A.walk_local(fn) if isinstance(s, ast.Assign) and canon(s.targets[0]) == "rv_model"]
    okr = len(rm) == 1 and equal(rm[0].value, parse("orbit.get_radial_velocity(x, K=p['K']) + trend"))
    ctx.check(R, rm[0] if rm else fn, "model_rv = Keplerian term + trend", okr, "rv_model = %s" % (A.unparse(rm[0].value) if rm else None), key="rv_model")
    dm = [c for c in A.calls_in(fn) if A.call_name(c) == "pm.Deterministic" and A.str_const(c.args[0]) == "model_rv"]
    ctx.check(R, dm[0] if dm else fn, "model_rv deterministic is that model", len(dm) == 1 and canon(dm[0].args[1]) == "rv_model", "model_rv = %s" % (A.unparse(dm[0].args[1]) if dm else None), key="det", nontrivial=False)


def check_sigma(ctx, fn):
    R = "C11-SIGMA"
    ctx.rule(R, "the observed node is Normal(mu=model_rv, sigma=sqrt(err**2 + s**2), observed=y); the ln_likelihood diagnostic evaluates the same Gaussian (same sigma "
                "expression, same y) summed over epochs; logp = model.logp(); ln_prior = model.logp() - ln_likelihood.")
    flow = A.Flow(fn)
    obs = [c for c in A.calls_in(fn) if A.call_name(c) == "pm.Normal" and c.args and A.str_const(c.args[0]) == "obs"]
    if len(obs) != 1:
        ctx.violate(R, fn, "observed node", "found %d `obs` nodes" % len(obs), key="obs")
        return
    o = obs[0]
    st = A.enclosing_stmt(o)
    LOC = {"err", "y", "sigma", "sig", "yerr", "dist", "lnlike", "obs_sigma", "model_sigma"}
    sig = A.inline_temporaries(A.get_arg(o, None, "sigma"), st, fn, only=LOC) if A.get_arg(o, None, "sigma") is not None else None
    want = "pt.sqrt(data.rv_err.to_value(data.rv.unit)**2 + p['s']**2)"
    oks = sig is not None and canon(sig) in (canon(parse(want)), canon(parse(want.replace("to_value(data.rv.unit)", "to(data.rv.unit).value"))))
    ctx.check(R, o, "obs sigma = sqrt(err**2 + s**2) in the data unit", oks, "sigma = %s" % (A.unparse(sig)[:100] if sig is not None else None), key="obs-sigma")
    obsv = A.inline_temporaries(A.get_arg(o, None, "observed"), st, fn, only=LOC)
    ctx.check(R, o, "obs mu = model_rv, observed = y", canon(A.get_arg(o, None, "mu")) == "rv_model" and canon(obsv) == canon(parse("data.rv.value")),
              "mu = %s, observed = %s" % (A.unparse(A.get_arg(o, None, "mu")), A.unparse(obsv)[:40]), key="obs-mu")
    dd = [c for c in A.calls_in(fn) if A.call_name(c) == "pm.Normal.dist"]
    ll = [c for c in A.calls_in(fn) if A.call_name(c) == "pm.Deterministic" and A.str_const(c.args[0]) == "ln_likelihood"]
    if len(dd) != 1 or len(ll) != 1:
        ctx.violate(R, fn, "ln_likelihood diagnostic", "diagnostic missing", key="diag")
        return
    d = dd[0]
    dsig = A.inline_temporaries(d.args[1] if len(d.args) > 1 else A.get_arg(d, None, "sigma"), A.enclosing_stmt(d), fn, only=LOC)
    same = sig is not None and canon(dsig) == canon(sig)
    ctx.check(R, d, "diagnostic sigma is the observed node's sigma", same,
              "diagnostic uses sigma = `%s` while the observed node uses `%s`: the stored ln_likelihood is not the Gaussian data term (jitter / units differ)" % (A.unparse(dsig)[:60], A.unparse(sig)[:60] if sig is not None else None), key="diag-sigma")
    dmu = d.args[0] if d.args else A.get_arg(d, None, "mu")
    ctx.check(R, d, "diagnostic mean is model_rv", canon(dmu) in ("model.model_rv", "rv_model", canon(parse("model['model_rv']"))), "mean = %s" % A.unparse(dmu), key="diag-mu", nontrivial=False)
    lv = A.inline_temporaries(ll[0].args[1], A.enclosing_stmt(ll[0]), fn, only=LOC)
    okl = False
    if isinstance(lv, ast.Call) and A.last_attr(lv) == "sum":
        inner = lv.func.value
        if isinstance(inner, ast.Call) and A.call_name(inner) == "pm.logp" and canon(inner.args[1]) == canon(parse("data.rv.value")):
            okl = True
    ctx.check(R, ll[0], "diagnostic = sum over epochs of logp(dist, y)", okl, "ln_likelihood = %s" % A.unparse(lv)[:90], key="diag-sum")
    lp = [c for c in A.calls_in(fn) if A.call_name(c) == "pm.Deterministic" and A.str_const(c.args[0]) == "logp"]
    ctx.check(R, lp[0] if lp else fn, "logp deterministic = model.logp()", len(lp) == 1 and canon(lp[0].args[1]) == canon(parse("model.logp()")), "logp = %s" % (A.unparse(lp[0].args[1]) if lp else None), key="logp", nontrivial=False)
    pr = [c for c in A.calls_in(fn) if A.call_name(c) == "pm.Deterministic" and A.str_const(c.args[0]) == "ln_prior"]
    okp = len(pr) == 1 and canon(pr[0].args[1]) == canon(parse("model.logp() - lnlike"))
    ctx.check(R, pr[0] if pr else fn, "ln_prior = model.logp() - ln_likelihood", okp, "ln_prior = %s" % (A.unparse(pr[0].args[1]) if pr else None), key="ln_prior")
    # obs precedes logp so that the data term is included
    if lp:
        ctx.check(R, lp[0], "logp includes the data term (obs defined first)", o.lineno < lp[0].lineno, "logp is taken before obs exists", key="logp-order", nontrivial=False)


def check_init(ctx, fn):
    R = "C11-INIT"
    ctx.rule(R, "mcmc_init[name] = chosen_sample[name].to_value(unit of prior.pars[name]) for every name in prior.par_names; with several samples the chosen sample is median_period().")
    lp = [l for l in A.walk_local(fn) if isinstance(l, ast.For) and canon(l.iter) == canon(parse("self.prior.par_names"))]
    ok = False
    why = "no loop over self.prior.par_names"
    if len(lp) == 1:
        nm = lp[0].target.id
        st = [s for s in lp[0].body if isinstance(s, ast.Assign) and isinstance(s.targets[0], ast.Subscript) and canon(s.targets[0].value) == "mcmc_init"]
        if len(st) == 1:
            v = A.inline_temporaries(st[0].value, st[0], fn, only={"unit"})
            ok = canon(st[0].targets[0].slice) == nm and canon(v) in (canon(parse("MAP_sample[%s].to_value(getattr(self.prior.pars[%s], xu.UNIT_ATTR_NAME))" % (nm, nm))),
                                                                    canon(parse("MAP_sample[%s].to(getattr(self.prior.pars[%s], xu.UNIT_ATTR_NAME)).value" % (nm, nm))))
            why = "mcmc_init[%s] = %s" % (A.unparse(st[0].targets[0].slice), A.unparse(v)[:90])
    ctx.check(R, lp[0] if lp else fn, "initial point expressed in the prior's units, for every parameter", ok, why, key="init")
    ms = [s for s in A.walk_local(fn) if isinstance(s, ast.Assign) and canon(s.targets[0]) == "MAP_sample"]
    vals = {}
    for s in ms:
        g = [(canon(t), pol) for t, pol in A.guards_of(s)]
        vals[(canon(parse("len(joker_samples) > 1")), True) in g] = canon(s.value)
    okm = vals == {True: canon(parse("joker_samples.median_period()")), False: "joker_samples"}
    ctx.check(R, ms[0] if ms else fn, "several samples -> the median-period sample", okm, "chosen sample: %s" % vals, key="median")
    ty = [s for s in A.walk_local(fn) if isinstance(s, ast.If) and A.always_raises(s.body) and "isinstance(joker_samples, JokerSamples)" in A.unparse(s.test)]
    ctx.check(R, fn, "non-JokerSamples input raises", bool(ty), "type guard missing", key="type", nontrivial=False)
    rets = [s for s in A.walk_local(fn) if isinstance(s, ast.Return)]
    ctx.check(R, fn, "returns the initial point", bool(rets) and all(canon(s.value) == "mcmc_init" for s in rets), "returns %s" % [A.unparse(s.value) for s in rets], key="ret", nontrivial=False)


def run(ctx):
    fn = ctx.prog.func(TJ, Q, "C11")
    check_unit(ctx, fn)
    check_phase(ctx, fn)
    check_trend(ctx, fn)
    check_sigma(ctx, fn)
    check_init(ctx, fn)
    ctx.assume("twobody / the kernel evaluate K (cos(omega + f) + e cos omega) with M = 2 pi (t - t_ref)/P - M0 (library summary); pymc's Normal logp is the Gaussian log-density")
    ctx.assume("units.to_unit multiplies by base.to(target) (thejoker/units.py, checked by C07-TOUNIT)")
