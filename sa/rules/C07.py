"""C07 - physical results are invariant under the choice of units.

Unit-tag flow: every bare number obtained by stripping a quantity carries the
symbolic unit it was stripped in; wherever it is paired with a declared unit
(with_unit, `* unit`, a kernel scalar combined with a packed column, a reader /
packer target) the tags must agree.  The strip sites in scope are inventoried so
that a new, unclassified strip cannot slip in.
"""
import ast

from .. import astutil as A
from ..norm import canon, parse, dotted, equal
from . import _kernel

FL = "thejoker.src.fast_likelihood"
UT = "thejoker.utils"
UN = "thejoker.units"
PR = "thejoker.prior"
SM = "thejoker.samples"
DH = "thejoker.data_helpers"

# frozen inventory: function -> number of strip sites (.value / .to_value(...)) confirmed by reading, each judged by a clause below
SCOPE = {
    (FL, "CJokerHelper.__init__"): 5,
    (UT, "_pytensor_get_mean_std"): 2,
    (UT, "read_batch_slice"): 0,
    (UT, "read_batch_idx"): 0,
    (PR, "default_nonlinear_prior"): 3,
    (PR, "default_linear_prior"): 1,
    ("thejoker.distributions", "FixedCompanionMass.dist"): 4,
    (SM, "JokerSamples.pack"): 1,
    (SM, "JokerSamples.unpack"): 0,
    (SM, "JokerSamples.ln_unmarginalized_likelihood"): 4,
    (DH, "validate_prepare_data"): 2,
    (UN, "to_unit"): 0,
    # data cleaning / selection never looks at bare numbers: a threshold on `.value` would mean something else in every unit
    ("thejoker.data", "RVData.__init__"): 0,
    ("thejoker.data", "RVData.__getitem__"): 0,
    ("thejoker.data", "RVData.phase"): 0,
}


def strip_sites(fn):
    out = []
    for n in A.walk_local(fn):
        if isinstance(n, ast.Attribute) and n.attr == "value" and isinstance(n.ctx, ast.Load):
            d = dotted(n)
            if d and d.split(".")[0] in ("np", "ast"):
                continue
            out.append(n)
        if isinstance(n, ast.Call) and isinstance(n.func, ast.Attribute) and n.func.attr == "to_value":
            out.append(n)
    return out


def check_inventory(ctx):
    R = "C07-INV"
    ctx.rule(R, "inventory of strip sites (.value / .to_value) in the numeric-path functions: the count per function equals the number classified by the clauses below, so a new "
                "unit-dropping conversion cannot be added unjudged.")
    for (mod, q), want in SCOPE.items():
        fn = ctx.prog.func(mod, q, R)
        got = len(strip_sites(fn))
        if got == want:
            ctx.ok(R, fn, "%s: %d strip sites, all classified" % (q, got), "", nontrivial=False)
        elif got > want:
            extra = strip_sites(fn)
            ctx.violate(R, extra[-1] if extra else fn, "%s: every strip site is classified" % q,
                        "%d strip sites found, %d classified: a quantity is reduced to a bare number (e.g. `%s`) without a unit agreement clause" % (got, want, A.unparse(extra[-1])[:50]), key="inv:" + q)
        else:
            ctx.violate(R, fn, "%s: every classified strip site still exists" % q, "%d strip sites found, %d expected: a conversion to the working unit was removed" % (got, want), key="inv:" + q)


def check_kernel_units(ctx):
    R = "C07-KERNEL"
    ctx.rule(R, "CJokerHelper.__init__: the unit table assigns P day, e one, omega/M0 rad, s/K/v0/offsets the data RV unit, v_i data unit / day**i; rv is stripped in the data "
                "unit and ivar in 1/unit**2; each prior mean/std is converted from the unit of the SAME variable to the table unit of the SAME name; sigma_K0 and max_K are "
                "stripped in the table unit of K and P0 in the table unit of P (the unit of the packed period column it is divided into).")
    K = _kernel.Kernel(ctx.prog)
    fn = K.methods["__init__"]
    iu = {}
    for s in A.walk_local(fn):
        if isinstance(s, ast.Assign) and isinstance(s.targets[0], ast.Subscript) and dotted(s.targets[0].value) == "self.internal_units":
            iu[canon(s.targets[0].slice)] = s
    RV = canon(parse("self.data.rv.unit"))
    want = {"'P'": "_nonlinear_internal_units['P']", "'e'": "_nonlinear_internal_units['e']", "'omega'": "_nonlinear_internal_units['omega']", "'M0'": "_nonlinear_internal_units['M0']",
            "'s'": "self.data.rv.unit", "'K'": "self.data.rv.unit", "'v0'": "self.data.rv.unit", "offset.name": "self.data.rv.unit", "name": "self.data.rv.unit / u.day ** i"}
    for k, src in want.items():
        s = iu.get(canon(parse(k)))
        ok = s is not None and canon(s.value) == canon(parse(src))
        ctx.check(R, s or fn, "internal unit of %s" % k, ok, "internal_units[%s] = %s" % (k, A.unparse(s.value) if s is not None else "missing"), key="iu:" + k)
    tl = iu.get("name")
    if tl is not None:
        lp = A.enclosing(tl, (ast.For,))
        ctx.check(R, tl, "trend units iterate enumerate(prior._v_trend_names)", lp is not None and canon(lp.iter) == canon(parse("enumerate(prior._v_trend_names)")), "loop over %s" % (A.unparse(lp.iter) if lp is not None else None), key="iu:trend-loop", nontrivial=False)
    m = ctx.prog.module(FL)
    tbl = [s for s in m.tree.body if isinstance(s, ast.Assign) and canon(s.targets[0]) == "_nonlinear_internal_units"]
    okt = len(tbl) == 1 and isinstance(tbl[0].value, ast.Dict) and {A.str_const(k): canon(v) for k, v in zip(tbl[0].value.keys, tbl[0].value.values)} == {"P": "u.day", "e": "u.one", "omega": "u.radian", "M0": "u.radian"}
    ctx.check(R, tbl[0] if tbl else fn, "canonical nonlinear units: day, one, radian, radian", okt, "table changed", key="iu:table")
    # data
    st = {dotted(s.targets[0]): s for s in A.walk_local(fn) if isinstance(s, ast.Assign) and dotted(s.targets[0]) in ("self.rv", "self.ivar", "self.t", "self.t0")}
    ok = canon(A.strip_casts(st["self.rv"].value)) == canon(parse("data.rv.value")) if "self.rv" in st else False
    ctx.check(R, st.get("self.rv", fn), "velocities stripped in the data unit", ok, "self.rv = %s" % (A.unparse(st["self.rv"].value)[:60] if "self.rv" in st else None), key="rv")
    ok = "self.ivar" in st and canon(A.strip_casts(st["self.ivar"].value)) == canon(parse("data.ivar.to_value(1 / self.data.rv.unit ** 2)"))
    ctx.check(R, st.get("self.ivar", fn), "inverse variances stripped in 1 / data unit**2", ok, "self.ivar = %s" % (A.unparse(st["self.ivar"].value)[:70] if "self.ivar" in st else None), key="ivar")
    # mean / std conversions
    calls = [c for c in A.calls_in(fn) if A.call_name(c) == "_pytensor_get_mean_std"]
    n = 0
    for c in calls:
        n += 1
        stc = A.enclosing_stmt(c)
        a = [A.inline_temporaries(x, stc, fn, only={"dist", "_unit", "to_unit"}) for x in c.args]
        if len(a) != 3:
            ctx.violate(R, c, "mean/std conversion has (dist, in_unit, out_unit)", "call has %d arguments" % len(a), key="ms-args:%d" % n)
            continue
        d, ui, uo = a
        # name used: prior.model[X] / getattr(prior.model[X], UNIT) / self.internal_units[X]
        dn = canon(d.slice) if isinstance(d, ast.Subscript) and canon(d.value) == "prior.model" else None
        ui_ok = isinstance(ui, ast.Call) and A.call_name(ui) == "getattr" and isinstance(ui.args[0], ast.Subscript) and canon(ui.args[0].value) == "prior.model" and canon(ui.args[0].slice) == dn and canon(ui.args[1]) == canon(parse("xu.UNIT_ATTR_NAME"))
        uo_ok = isinstance(uo, ast.Subscript) and dotted(uo.value) == "self.internal_units" and canon(uo.slice) == dn
        ctx.check(R, c, "prior mean/std of `%s`: from its own unit to the table unit of the same name" % dn, dn is not None and ui_ok and uo_ok,
                  "_pytensor_get_mean_std(%s, %s, %s): variable, source unit and target unit do not belong to one and the same name" % tuple(A.unparse(x)[:40] for x in a), key="ms:%s" % dn)
    ctx.floor(R, n, 2)
    # scalar hacks
    want_sc = {"self.sigma_K0": "dist._sigma_K0.to_value(self.internal_units[name])", "self.max_K": "dist._max_K.to_value(self.internal_units[name])", "self.P0": "dist._P0.to_value(self.internal_units['P'])"}
    for tgt, src in want_sc.items():
        ss = [s for s in A.walk_local(fn) if isinstance(s, ast.Assign) and dotted(s.targets[0]) == tgt]
        ok = len(ss) == 1 and canon(A.inline_temporaries(ss[0].value, ss[0], fn, only={"to_unit"})) == canon(parse(src))
        g = [(canon(t), pol) for t, pol in A.guards_of(ss[0])] if ss else []
        okg = any("name" in t and "'K'" in t for t, pol in g if pol)
        why = "%s = %s" % (tgt, A.unparse(ss[0].value)[:70] if ss else "missing")
        if tgt == "self.P0" and not ok:
            why += ": P0 must be in the unit of the packed period column (days) it is divided into"
        ctx.check(R, ss[0] if ss else fn, "%s stripped in the kernel's working unit" % tgt, ok and okg, why, key="scalar:" + tgt)
    # the kernel combines them with packed columns in the table units: P / P0, sigma_K0, max_K vs Lambda (data unit squared)
    fnm = K.methods["batch_marginal_ln_likelihood"]
    lam = [s for s in A.walk_local(fnm) if isinstance(s, ast.Assign) and canon(s.targets[0]) == canon(parse("self.Lambda[0]"))]
    ok = False
    if lam:
        from ..norm import rat
        try:
            r = rat(lam[0].value).expanded()
            exps = {}
            for mono in list(r.n.t) + list(r.d.t):
                for a, e in mono:
                    exps[a] = e
            ok = "P" in exps and "self.P0" in exps and exps["P"] == -exps["self.P0"]
        except Exception:
            ok = False
    ctx.check(R, lam[0] if lam else fnm, "kernel divides the packed period (day) by P0", ok, "Lambda[0] rule does not use P / P0", key="P/P0", nontrivial=False)


def check_meanstd(ctx):
    R = "C07-MEANSTD"
    ctx.rule(R, "_pytensor_get_mean_std returns ((mu * in_unit).to_value(out_unit), (std * in_unit).to_value(out_unit)) with mu, std the distribution's first two parameters, "
                "computed afresh on every call (nothing cached on the variable).")
    fn = ctx.prog.func(UT, "_pytensor_get_mean_std", R)
    fl = A.Flow(fn)
    okall = bool(fl.returns)
    seen = []
    srcs = ("dist.owner.op.dist_params(dist.owner)", "dist.owner.inputs[3:]")
    for v, st in fl.returns:
        if not (isinstance(v, ast.Tuple) and len(v.elts) == 2):
            okall = False
            seen.append(A.unparse(v)[:80])
            continue
        for k, e in enumerate(v.elts):
            want = {canon(parse("(%s[%d].eval() * in_unit).to_value(out_unit)" % (src, k))) for src in srcs}
            for _, leaf in A.ifexp_terms(e):
                c = canon(leaf)
                seen.append(A.unparse(leaf)[:80])
                okall = okall and c in want
    ctx.check(R, fn, "mean / std = (distribution parameter 0 / 1 * in_unit).to_value(out_unit)", okall, "returns %s" % seen, key="ret")
    stores = [n for n in A.walk_local(fn) if isinstance(n, ast.Attribute) and isinstance(n.ctx, ast.Store)] + [c for c in A.calls_in(fn) if A.call_name(c) == "setattr"]
    ctx.check(R, fn, "nothing is cached on the distribution object", not stores, "`%s` stores converted numbers on the variable: a later helper for data in another unit reuses them" % (A.unparse(stores[0])[:40] if stores else ""), key="cache")


def check_units_module(ctx):
    R = "C07-TOUNIT"
    ctx.rule(R, "units.to_unit(obj, target) = obj * unit(obj).to(target) (identity for unit-less objects); with_unit attaches exactly the given unit and refuses to overwrite one.")
    fn = ctx.prog.func(UN, "to_unit", R)
    rets = [s for s in A.walk_local(fn) if isinstance(s, ast.Return)]
    vals = sorted(canon(A.inline_temporaries(s.value, s, fn, only={"base"})) for s in rets)
    ok = vals == sorted(["obj", canon(parse("obj * getattr(obj, UNIT_ATTR_NAME).to(target)"))])
    inv = any("target.to(" in A.unparse(s.value) for s in rets)
    ctx.check(R, fn, "to_unit multiplies by base.to(target)", ok, "returns %s%s" % (vals, " (inverted direction)" if inv else ""), key="to_unit")
    wf = ctx.prog.func(UN, "with_unit", R)
    sa = [c for c in A.calls_in(wf) if A.call_name(c) == "setattr"]
    okw = len(sa) == 1 and [canon(a) for a in sa[0].args] == ["obj", "UNIT_ATTR_NAME", "unit"]
    g = [s for s in A.walk_local(wf) if isinstance(s, ast.If) and A.always_raises(s.body) and "hasattr(obj, UNIT_ATTR_NAME)" in A.unparse(s.test)]
    ctx.check(R, wf, "with_unit attaches the given unit, once", okw and bool(g), "setattr: %s" % ([A.unparse(c) for c in sa]), key="with_unit")


def check_priors(ctx):
    R = "C07-PRIOR"
    ctx.rule(R, "every number stripped from a quantity and handed to a distribution constructor is stripped in the unit the variable is then declared in (with_unit): "
                "P_min.value / P_max.to_value(P_min.unit) with P_min.unit; s.value with s.unit; sigma_v[name].value with sigma_v[name].unit; FixedCompanionMass gets quantities "
                "and is declared in sigma_K0's unit, in which its sigma and cap are stripped (P0 in the unit of P).")
    from .C09 import check_fcm
    fn = ctx.prog.func(PR, "default_nonlinear_prior", R)
    for c in A.calls_in(fn):
        if A.call_name(c) == "xu.with_unit" and len(c.args) == 2:
            inner, unit = c.args
            strips = [n for n in ast.walk(inner) if (isinstance(n, ast.Attribute) and n.attr == "value") or (isinstance(n, ast.Call) and isinstance(n.func, ast.Attribute) and n.func.attr == "to_value")]
            for s in strips:
                tag = _tag(s)
                ok = tag == canon(unit)
                ctx.check(R, c, "default_nonlinear_prior: `%s` stripped in the declared unit `%s`" % (A.unparse(s)[:40], A.unparse(unit)), ok,
                          "stripped in `%s`, declared `%s`" % (tag, A.unparse(unit)), key="nl:" + canon(s))
    fl = ctx.prog.func(PR, "default_linear_prior", R)
    for c in A.calls_in(fl):
        if A.call_name(c) == "xu.with_unit" and len(c.args) == 2:
            inner, unit = c.args
            unit_r = A.inline_temporaries(unit, A.enclosing_stmt(c), fl, only={"v_unit"})
            strips = [n for n in ast.walk(inner) if (isinstance(n, ast.Attribute) and n.attr == "value") or (isinstance(n, ast.Call) and isinstance(n.func, ast.Attribute) and n.func.attr == "to_value")]
            for s in strips:
                tag = _tag(s)
                ctx.check(R, c, "default_linear_prior: `%s` stripped in the declared unit" % A.unparse(s)[:40], tag == canon(unit_r), "stripped in `%s`, declared `%s`" % (tag, A.unparse(unit_r)), key="l:" + canon(s))
            if isinstance(inner, ast.Call) and A.call_name(inner) == "FixedCompanionMass":
                ok = canon(unit_r) == canon(parse("sigma_K0.unit")) and canon(A.get_arg(inner, None, "sigma_K0")) == "sigma_K0" and canon(A.get_arg(inner, None, "P0")) == "P0"
                ctx.check(R, c, "K declared in sigma_K0's unit; scale and reference period passed as quantities", ok, "with_unit(%s, %s)" % (A.unparse(inner)[:60], A.unparse(unit_r)), key="l:K")
    # FixedCompanionMass internals (shared with C09-FCM): max_K / P0 conversions
    dist = ctx.prog.func("thejoker.distributions", "FixedCompanionMass.dist", R)
    mk = [s for s in A.walk_local(dist) if isinstance(s, ast.Assign) and canon(s.targets[0]) == "max_K"]
    okm = len(mk) == 1 and canon(mk[0].value) == canon(parse("max_K.to(sigma_K0.unit)")) and not A.guards_of(mk[0])
    ctx.check(R, mk[0] if mk else dist, "FixedCompanionMass: cap stripped in sigma_K0's unit on every path", okm, "max_K conversion conditional or changed", key="fcm:max_K")
    p0 = [s for s in A.walk_local(dist) if isinstance(s, ast.Assign) and canon(s.targets[0]) == "P0"]
    okp = len(p0) == 1 and canon(p0[0].value) == canon(parse("P0.to(getattr(P, UNIT_ATTR_NAME))"))
    ctx.check(R, p0[0] if p0 else dist, "FixedCompanionMass: P0 stripped in the unit of the period variable", okp, "P0 conversion changed", key="fcm:P0")


def _tag(s):
    """unit tag of a strip-site expression"""
    if isinstance(s, ast.Attribute):  # X.value
        x = s.value
        if isinstance(x, ast.Call) and isinstance(x.func, ast.Attribute) and x.func.attr == "to" and x.args:
            return canon(x.args[0])
        return canon(parse("X.unit")).replace("X", canon(x)) if False else "%s.unit" % canon(x)
    return canon(s.args[0]) if s.args else "?"


def check_pack_readers(ctx):
    from .C17 import check_pack
    from .C12 import _reader_checks
    ctx.rule("C07-PACK", "pack strips column `name` in units.get(name, own unit) and records that unit; unpack attaches units[k] to column k (shared with C17-PACK).")
    ctx.rule("C07-READ", "the batch readers scale column i by table_units[name].to(units[name]) - file unit to requested unit (shared with C12-COL).")
    # run the shared clauses under C07 rule ids
    sub = _Relabel(ctx, {"C17-PACK": "C07-PACK"})
    check_pack(sub)
    _reader_checks(ctx, "C07-READ", "read_batch_slice", "slice")
    _reader_checks(ctx, "C07-READ", "read_batch_idx", "idx")


class _Relabel:
    """proxy that records obligations of a shared clause under this property's rule id"""

    def __init__(self, ctx, mapping):
        self._ctx, self._map = ctx, mapping

    def __getattr__(self, k):
        return getattr(self._ctx, k)

    def rule(self, rid, text):
        self._ctx.rule(self._map.get(rid, rid), text)

    def check(self, rule, *a, **kw):
        return self._ctx.check(self._map.get(rule, rule), *a, **kw)

    def ok(self, rule, *a, **kw):
        return self._ctx.ok(self._map.get(rule, rule), *a, **kw)

    def violate(self, rule, *a, **kw):
        return self._ctx.violate(self._map.get(rule, rule), *a, **kw)

    def undecided(self, rule, *a, **kw):
        return self._ctx.undecided(self._map.get(rule, rule), *a, **kw)

    def floor(self, rule, *a, **kw):
        return self._ctx.floor(self._map.get(rule, rule), *a, **kw)

    def count(self, rule):
        return self._ctx.count(self._map.get(rule, rule))


def check_data_and_ll(ctx):
    R = "C07-DATA"
    ctx.rule(R, "multi-survey data are stripped in ONE common unit (the first source's) and re-labelled with that unit (shared with C08-LOCK); "
                "ln_unmarginalized_likelihood strips data, errors, jitter and the model curve in the data unit.")
    from .C08 import check_lock
    check_lock(_Relabel(ctx, {"C08-LOCK": R}))
    ll = ctx.prog.func(SM, "JokerSamples.ln_unmarginalized_likelihood", R)
    fl = A.Flow(ll)
    ln = [c for c in A.calls_in(ll) if A.call_name(c) == "ln_normal"]
    if len(ln) != 1 or len(ln[0].args) != 3:
        ctx.undecided(R, ll, "ln_normal call", "expected one ln_normal(model, data, variance) call")
        return
    st = A.enclosing_stmt(ln[0])
    model, dat, var = [A.inline_temporaries(a, st, ll) for a in ln[0].args]
    okm = isinstance(model, ast.Call) and A.last_attr(model) == "to_value" and len(model.args) == 1 and canon(model.args[0]) == canon(parse("data.rv.unit"))
    ctx.check(R, ln[0], "model curve stripped in the data unit", okm, "model values: %s" % A.unparse(model)[:90], key="ll:model")
    ctx.check(R, ln[0], "ln_unmarginalized_likelihood: data_rv in the data unit", canon(dat) == canon(parse("data.rv.value")), "data values: %s" % A.unparse(dat)[:60], key="ll:data_rv")
    # variance = err^2 (data unit) + jitter^2 (data unit); the jitter term is the loop element of the per-row variances
    lp = [a for a in A.ancestors(ln[0]) if isinstance(a, ast.For)]
    jit = None
    rest = None
    if isinstance(var, ast.BinOp) and isinstance(var.op, ast.Add):
        for x, y in ((var.left, var.right), (var.right, var.left)):
            if isinstance(x, ast.Name):
                jit, rest = x, y
    okv = rest is not None and canon(rest) == canon(parse("data.rv_err.to_value(data.rv.unit) ** 2"))
    ctx.check(R, ln[0], "ln_unmarginalized_likelihood: data_var in the data unit", okv, "variance: %s" % A.unparse(var)[:90], key="ll:data_var")
    oks = False
    why = "jitter term not found"
    if jit is not None and lp:
        src = _loop_source(lp[0], jit.id)
        if src is not None:
            vals = [canon(A.inline_temporaries(x, lp[0], ll)) for x in A.strip_ifexp(fl.resolve(src, at=lp[0]))]
            nz = [v for v in vals if v != canon(parse("np.zeros(len(self))"))]
            oks = nz == [canon(parse("self['s'].to_value(data.rv.unit) ** 2"))]
            why = "jitter variances: %s" % vals
    ctx.check(R, lp[0] if lp else ll, "jitter variance in the data unit squared", oks, why, key="ll:s")


def _loop_source(loop, name):
    """the iterable whose elements the loop binds to ``name`` (through enumerate / zip)"""
    def rec(tgt, it):
        if isinstance(tgt, ast.Name):
            return it if tgt.id == name else None
        if isinstance(tgt, ast.Tuple) and isinstance(it, ast.Call):
            cn = A.call_name(it)
            if cn == "enumerate" and len(tgt.elts) == 2 and it.args:
                return rec(tgt.elts[1], it.args[0])
            if cn == "zip" and len(tgt.elts) == len(it.args):
                for t, a in zip(tgt.elts, it.args):
                    r = rec(t, a)
                    if r is not None:
                        return r
        return None
    return rec(loop.target, loop.iter)


def check_shift(ctx):
    R = "C07-SHIFT"
    ctx.rule(R, "changing the velocity unit adds the same constant (n_epochs * ln of the unit ratio) to every marginal ln-likelihood; the acceptance test must therefore depend "
                "on the likelihoods only through L - max(L): exp(L - max L) > U at each of the four rejection sites (normaliser clause shared with C02-ACC). An "
                "un-normalised exp(L) underflows for many epochs in a small unit although the same data in km/s sample fine.")
    from . import _rej
    n = 0
    for mod, name in _rej.SITES:
        S = _rej.analyze(ctx.prog, mod, name)
        if not S.acc or S.acc.get("form") is None:
            ctx.undecided(R, S.fn, "acceptance predicate in %s" % name, (S.acc or {}).get("why", "unrecognised"))
            continue
        kind, L, red, why = _rej.normaliser(S.acc["arg"])
        n += 1
        ctx.check(R, S.acc_stmt, "%s: acceptance depends on ln L only through L - max(L)" % name, kind == "max",
                  "%s: the test is not invariant under the additive constant a change of unit introduces" % why, key=name + ":shift")
    ctx.floor(R, n, 4)


def check_append(ctx):
    from .C12 import check_unit_refusal
    ctx.rule("C07-APPEND", "a table whose columns are stored in other units is never appended to an existing file: the stored unit strings are compared for equality and the "
                           "whole metadata (which records the units) takes part in the conflict check (shared with C12-REFUSE).")
    check_unit_refusal(_Relabel(ctx, {"C12-REFUSE": "C07-APPEND"}))


def run(ctx):
    check_shift(ctx)
    check_append(ctx)
    check_inventory(ctx)
    check_kernel_units(ctx)
    check_meanstd(ctx)
    check_units_module(ctx)
    check_priors(ctx)
    check_pack_readers(ctx)
    check_data_and_ll(ctx)
    from .C05 import check_feed
    ctx.rule("C07-FEED", "on every path into the kernel - including fall-back paths - prior samples are packed with units=<the helper's internal units> (shared with C05-FEED).")
    check_feed(_Relabel(ctx, {"C05-FEED": "C07-FEED"}))
    from .C17 import check_wrap
    ctx.rule("C07-WRAP", "wrap_K shifts omega by pi expressed in omega's OWN unit, on the stored column (not on a converted copy): samples kept in degrees stay physically "
                         "equal (shared with C17-WRAP).")
    check_wrap(_Relabel(ctx, {"C17-WRAP": "C07-WRAP"}))
    from . import C11 as _c11
    ctx.rule("C07-MCMC", "setup_mcmc converts every prior variable to the unit the model is written in and hands back the initial point in the PRIOR's units "
                         "(shared with C11-UNIT / C11-INIT).")
    _fn = ctx.prog.func(_c11.TJ, _c11.Q, "C07-MCMC")
    _X = _c11.Ctxt(_fn)
    _rl = _Relabel(ctx, {"C11-UNIT": "C07-MCMC", "C11-INIT": "C07-MCMC"})
    if _c11.check_unit(_rl, _fn, _X):
        _c11.check_init(_rl, _fn, _X)
    from .C15 import check_ivar
    ctx.rule("C07-IVAR", "inverse variances are formed from the error quantity itself, so they scale with the square of the unit; nothing unit-less is mixed into the stripped "
                         "variance (shared with C15-IVAR).")
    check_ivar(_Relabel(ctx, {"C15-IVAR": "C07-IVAR"}))
    ctx.assume("astropy Quantity.to_value / Unit.to perform exact unit conversion; a quantity's .value is expressed in its .unit")
    ctx.assume("the Jacobian constant n_epochs * ln(unit ratio) and twin-run numerical equality are not decided")
