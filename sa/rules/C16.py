"""C16 - work partitioning covers every prior sample exactly once, in order.

Premises P1..P6 of the partition theorem (DESIGN.md 4.16) are decided on
``utils.batch_tasks`` with forward substitution + exact linear normal forms;
``run_worker`` wiring (C16-RUN) and the worker tuple layouts (C16-TUPLE).
"""
import ast

from .. import astutil as A
from ..norm import rat, canon, cmp_parts, equal, parse, Rat, Poly, NormError
from ..loader import AnalysisIncomplete

UT = "thejoker.utils"
MP = "thejoker.multiproc_helpers"


def _lin_cmp(test):
    """Compare -> (op, Rat(lhs - rhs)) with op in {'>', '>='}; None otherwise."""
    p = cmp_parts(test)
    if p is None or p[0] not in (">", ">="):
        return None
    try:
        return p[0], rat(p[1]) - rat(p[2])
    except (NormError, ZeroDivisionError):
        return None


def _implies_nonneg(op, r, target):
    """does integer fact  r op 0  imply  target >= 0 ?  (r = target + c)"""
    diff = r - target
    if not diff.is_const():
        return False
    c = diff.const_value()
    return c <= 0 if op == ">=" else c <= 1


def _conjuncts(test):
    if isinstance(test, ast.BoolOp) and isinstance(test.op, ast.And):
        out = []
        for v in test.values:
            out += _conjuncts(v)
        return out
    return [test]


def _task_elems(call, flow):
    """tasks.append([X, Y] + args) -> (X, Y, rest) resolved; None if other shape."""
    if len(call.args) != 1:
        return None
    return _elems_of(flow.resolve(call.args[0]))


def _elems_of(a):
    if isinstance(a, ast.IfExp):
        # the whole task chosen by a condition (a helper with two returns): same as choosing element-wise
        l, r = _elems_of(a.body), _elems_of(a.orelse)
        if l is None or r is None:
            return None
        X = ast.IfExp(test=a.test, body=l[0], orelse=r[0])
        Y = l[1] if canon(l[1]) == canon(r[1]) else ast.IfExp(test=a.test, body=l[1], orelse=r[1])
        return X, Y, l[2]
    rest = None
    if isinstance(a, ast.BinOp) and isinstance(a.op, ast.Add):
        a, rest = a.left, a.right
    if isinstance(a, (ast.List, ast.Tuple)) and len(a.elts) >= 2:
        return a.elts[0], a.elts[1], (a.elts[2:], rest)
    return None


def _range_of(x):
    """(kind, lo, hi) for (lo, hi) tuple or arr[lo:hi]."""
    if isinstance(x, ast.Tuple) and len(x.elts) == 2:
        return "tuple", x.elts[0], x.elts[1], None
    if isinstance(x, ast.Subscript) and isinstance(x.slice, ast.Slice) and x.slice.step is None \
            and x.slice.lower is not None and x.slice.upper is not None:
        return "slice", x.slice.lower, x.slice.upper, x.value
    return None


def _top_leaves(x):
    """leaves of a conditional expression at the top of a task element: `(lo, hi) if arr is None else arr[lo:hi]` (total by construction)"""
    if isinstance(x, ast.IfExp):
        return _top_leaves(x.body) + _top_leaves(x.orelse)
    return [x]


def check_batch_tasks(ctx):
    R = "C16-P"
    ctx.rule(R, "batch_tasks: P1 cursor starts at start_idx; P2 end = cursor + n//k (+1 iff i < n%k) in `for i in range(k)`; "
                "P3 every task is [(cursor,end)|arr[cursor:end], cursor, ...]; P4 cursor = end closes the body; "
                "P5 the branch guard implies 1 <= k <= n; P6 the fall-back is the single range [start, start+n). "
                "P1-P6 imply contiguous, non-empty, ordered batches covering the range exactly once.")
    fn = ctx.prog.func(UT, "batch_tasks", R)
    params = A.param_names(fn)
    for need in ("n_tasks", "n_batches", "arr", "start_idx"):
        if need not in params:
            raise AnalysisIncomplete(R, "batch_tasks", "parameter %s missing" % need)
    ps_ = set(params)
    ws_ = A.storage_writes(fn, lambda e: isinstance(e, ast.Name) and e.id in ps_)
    ctx.check(R, ws_[0][0] if ws_ else fn, "batch_tasks leaves its arguments untouched (the cursor is re-bound, never updated in place)", not ws_,
              (ws_[0][1] if ws_ else "") + ": for an array-valued start index the task ids stored earlier, and the caller's own object, change with it", key="args-inplace", nontrivial=False)
    flow = A.Flow(fn)
    loops = [n for n in A.walk_local(fn) if isinstance(n, ast.For)]
    if len(loops) != 1:
        ctx.undecided(R, fn, "loop", "expected exactly one batching loop, found %d" % len(loops))
        return
    loop = loops[0]
    # the branch `if G:` that contains the loop
    top_if = None
    for anc in A.ancestors(loop):
        if isinstance(anc, ast.If) and any(A.is_ancestor(s, loop) or s is loop for s in anc.body):
            top_if = anc
    if top_if is None:
        ctx.violate(R, loop, "P5 guard", "the batching loop is not guarded: n_batches > n_tasks would produce empty batches and n_batches <= 0 none")
        return
    # ---- P5
    nb, nt = rat(parse("n_batches")), rat(parse("n_tasks"))
    one = Rat(Poly.const(1))
    facts = []
    bad_shape = False
    # everything that holds when the loop runs: conjuncts of all enclosing tests (negations pushed inward), however the guard is nested or spelled
    for c in A.facts_at(loop):
        if not isinstance(c, ast.Compare):
            continue
        lc = _lin_cmp(flow.resolve(c, at=top_if))
        if lc is None:
            bad_shape = True
            continue
        facts.append(lc)
    pos = any(_implies_nonneg(op, r, nb - one) for op, r in facts)
    le = any(_implies_nonneg(op, r, nt - nb) for op, r in facts)
    ctx.check(R, top_if, "P5a guard => n_batches >= 1", pos,
              "guard `%s` does not imply n_batches >= 1 (range(n_batches) empty or n // n_batches undefined)" % A.unparse(top_if.test),
              key="P5a")
    ctx.check(R, top_if, "P5b guard => n_batches <= n_tasks", le,
              "guard `%s` does not imply n_batches <= n_tasks (base size 0: empty batches)" % A.unparse(top_if.test), key="P5b")
    # ---- loop header
    it = flow.resolve(loop.iter, at=loop)
    okhdr = (isinstance(it, ast.Call) and A.call_name(it) == "range" and len(it.args) == 1 and equal(it.args[0], parse("n_batches"))
             and isinstance(loop.target, ast.Name))
    ctx.check(R, loop, "P2a loop is `for i in range(n_batches)`", okhdr, "loop header is `for %s in %s`" % (A.unparse(loop.target), A.unparse(loop.iter)), key="P2a")
    if not okhdr:
        return
    ivar = loop.target.id
    # ---- appends in the loop
    apps = [c for c in A.calls_in(loop) if A.last_attr(c) == "append"]
    if not apps:
        ctx.violate(R, loop, "P3 tasks appended", "no task is appended in the loop", key="P3")
        return
    cursor = None
    base = parse("n_tasks // n_batches")
    rmdr = parse("n_tasks % n_batches")
    guardsets = []
    for c in apps:
        te = _task_elems(c, flow)
        if te is None:
            ctx.undecided(R, c, "P3 task shape", "cannot read the task layout from `%s`" % A.unparse(c))
            continue
        X0, Y, _ = te
        gl = [(canon(flow.resolve(t, at=loop)), pol) for t, pol in A.guards_of(c, stop=loop)]
        guardsets.append((c, gl))
        for X in _top_leaves(X0):
            rg = _range_of(X)
            if rg is None:
                ctx.violate(R, c, "P3 task range", "task element 0 `%s` is neither (lo, hi) nor arr[lo:hi]" % A.unparse(X), key="P3range:" + canon(X))
                continue
            kind, lo, hi, arrx = rg
            if kind == "slice":
                ctx.check(R, c, "P3 sliced object is `arr`", canon(arrx) == "arr", "slices `%s`, not the `arr` argument" % canon(arrx), key="P3arr")
            # lo must be the loop-carried cursor
            names = [n for n in ast.walk(lo) if isinstance(n, ast.Name) and "@loop" in n.id]
            if not (isinstance(lo, ast.Name) and "@loop" in lo.id):
                ctx.violate(R, c, "P3 lower bound is the cursor", "lower bound `%s` is not the loop-carried cursor" % A.unparse(lo), key="P3lo")
                continue
            cur = lo.id.split("@")[0]
            if cursor is None:
                cursor = cur
            ctx.check(R, c, "P3 task id is the cursor", equal(Y, lo), "task carries `%s` as its start index, range starts at `%s`" % (A.unparse(Y), A.unparse(lo)), key="P3id")
            # hi = cursor + base + [i < rmdr]
            _check_end(ctx, R, c, hi, lo, ivar, "P2 end = cursor + n//k + [i < n%k]", "P2")
    # appends cover every path exactly once
    if len(guardsets) == 1:
        ctx.check(R, guardsets[0][0], "P3 append unconditional", not guardsets[0][1], "the only append is conditional on %s" % (guardsets[0][1],), key="P3cover")
    elif len(guardsets) == 2:
        g1, g2 = guardsets[0][1], guardsets[1][1]
        comp = len(g1) == 1 and len(g2) == 1 and g1[0][0] == g2[0][0] and g1[0][1] != g2[0][1]
        ctx.check(R, guardsets[0][0], "P3 appends under complementary guards", comp, "appends guarded by %s and %s are not complementary" % (g1, g2), key="P3cover")
    else:
        ctx.undecided(R, loop, "P3 cover", "%d append sites" % len(guardsets))
    if cursor is None:
        return
    # ---- P1
    before = flow.env_at[loop].get(cursor)
    # the loop may sit under `if G:`; env_at[loop] is the env just before the loop
    ctx.check(R, loop, "P1 cursor initialised to start_idx", before is not None and equal(before, parse("start_idx")),
              "cursor `%s` is `%s` before the loop" % (cursor, A.unparse(before) if before is not None else "undefined"), key="P1")
    # ---- P4: value of cursor at the end of the body == end expression
    last = loop.body[-1]
    endv = flow.env_after[last].get(cursor)
    lo_sym = A.opaque("%s@loop%d" % (cursor, loop.lineno))
    if endv is None:
        ctx.violate(R, loop, "P4 cursor advanced", "cursor `%s` is never advanced" % cursor, key="P4")
    else:
        _check_end(ctx, R, last, endv, lo_sym, ivar, "P4 cursor = end at the end of the body", "P4")
    # the cursor must not be reassigned between the task construction and the end in a way that matters: covered by P4 value.
    # ---- P6 fall-back branch
    if not top_if.orelse:
        ctx.violate(R, top_if, "P6 fall-back", "no fall-back branch: n_batches > n_tasks yields no task at all", key="P6")
        return
    fb = [c for s in top_if.orelse for c in A.calls_in(s) if A.last_attr(c) == "append"]
    if not fb:
        ctx.violate(R, top_if, "P6 fall-back", "fall-back branch appends no task", key="P6")
    for c in fb:
        te = _task_elems(c, flow)
        if te is None:
            ctx.undecided(R, c, "P6 task shape", "cannot read `%s`" % A.unparse(c))
            continue
        X0, Y, _ = te
        for X in _top_leaves(X0):
            rg = _range_of(X)
            if rg is None:
                ctx.violate(R, c, "P6 range", "fall-back element 0 `%s` is not a range" % A.unparse(X), key="P6range")
                continue
            kind, lo, hi, arrx = rg
            ok = equal(lo, parse("start_idx")) and equal(hi, parse("start_idx + n_tasks")) and equal(Y, parse("start_idx"))
            ctx.check(R, c, "P6 fall-back = [start, start+n)", ok,
                      "fall-back task covers [%s, %s) with id %s, expected [start_idx, start_idx + n_tasks), start_idx" % (A.unparse(lo), A.unparse(hi), A.unparse(Y)),
                      key="P6:" + kind)
    # ---- result
    rets = flow.returns
    okret = bool(rets) and all(isinstance(v, ast.Name) or isinstance(v, ast.List) or v is not None for v, _ in rets)
    # `tasks` must be the list the appends go to and start empty
    recv = {canon(c.func.value) for c in apps + fb if isinstance(c.func, ast.Attribute)}
    ret_names = {canon(s.value) for _, s in rets if s.value is not None}
    ctx.check(R, fn, "P7 returns the appended list", len(recv) == 1 and ret_names == recv,
              "appends go to %s, function returns %s" % (sorted(recv), sorted(ret_names)), key="P7")
    # base / rmdr definitions are verified through resolution in _check_end (they were inlined)


def _check_end(ctx, R, node, hi, lo, ivar, label, key):
    try:
        cases = A.ifexp_cases(hi)
    except ValueError:
        ctx.undecided(R, node, label, "too many conditional cases")
        return
    base = rat(parse("floordiv_marker"))
    good = True
    why = ""
    seen_true = seen_false = False
    want_test = canon(parse("%s < (n_tasks %% n_batches)" % ivar))
    for conds, e in cases:
        try:
            d = rat(e, _atom) - rat(lo, _atom)
        except (NormError, ZeroDivisionError):
            good, why = False, "non-arithmetic end expression %s" % A.unparse(e)
            break
        extra = d - Rat(Poly.atom("BASE"))
        if not extra.is_const():
            good, why = False, "end - cursor = %s, expected n_tasks // n_batches (+1)" % d
            break
        k = extra.const_value()
        cd = dict(conds)
        if len(cd) == 0:
            pol = None
        elif len(cd) == 1 and want_test in cd:
            pol = cd[want_test]
        else:
            good, why = False, "size depends on condition(s) %s, expected only `%s < n_tasks %% n_batches`" % (sorted(cd), ivar)
            break
        if pol is True:
            seen_true = True
            if k != 1:
                good, why = False, "size under i < rmdr is base%+d, expected base+1" % k
                break
        elif pol is False:
            seen_false = True
            if k != 0:
                good, why = False, "size under i >= rmdr is base%+d, expected base" % k
                break
        else:
            good, why = False, "size is unconditionally base%+d: the remainder n_tasks %% n_batches is never distributed" % k if k == 0 else \
                "size is unconditionally base%+d" % k
            break
    if good and not (seen_true and seen_false):
        good, why = False, "remainder distribution incomplete"
    ctx.check(R, node, label, good, why, key=key)


def _atom(node):
    from ..norm import default_atom
    if isinstance(node, ast.BinOp) and isinstance(node.op, ast.FloorDiv) and canon(node.left) == "n_tasks" and canon(node.right) == "n_batches":
        return "BASE"
    return default_atom(node)


def check_run_worker(ctx):
    R = "C16-RUN"
    ctx.rule(R, "run_worker: rejects both selectors; n_samples = len(samples_idx) | int(n_prior_samples) | table length; "
                "n_batches defaults to max(1, pool.size); batch_tasks gets arr=samples_idx exactly when it is given; "
                "results are appended in pool.map order and returned unchanged.")
    fn = ctx.prog.func(MP, "run_worker", R)
    flow = A.Flow(fn)
    bts = A.find_calls(fn, "batch_tasks")
    if not bts:
        ctx.violate(R, fn, "calls batch_tasks", "run_worker no longer partitions with batch_tasks", key="bt")
        return
    for c in bts:
        arr = A.get_arg(c, 2, "arr")
        g = [(canon(t), pol) for t, pol in A.guards_of(c)]
        has_idx = (canon(parse("samples_idx is not None")), True) in g or (canon(parse("samples_idx is None")), False) in g
        no_idx = (canon(parse("samples_idx is not None")), False) in g or (canon(parse("samples_idx is None")), True) in g
        arr_res = flow.resolve(arr, at=A.enclosing_stmt(c)) if arr is not None else None
        if arr is not None and canon(arr) == "samples_idx" and canon(arr_res) != "samples_idx":
            ctx.violate(R, c, "arr is the caller's samples_idx, unmodified", "batches are cut from `%s`, not from the index array the caller supplied (callers index results with their own array)" % A.unparse(arr_res)[:80], key="arr-modified")
        elif arr is not None and canon(arr) == "samples_idx":
            ctx.check(R, c, "arr=samples_idx under `samples_idx is not None`", has_idx or not no_idx, "array batching used when samples_idx is None", key="arr-guard")
        elif arr is None:
            ctx.check(R, c, "index batching only when no samples_idx", no_idx, "samples_idx is dropped: batches are index ranges of the table, not the requested rows", key="noarr-guard")
        else:
            ctx.violate(R, c, "arr argument", "arr=%s is not samples_idx" % A.unparse(arr), key="arr-other")
        n = flow.resolve(A.get_arg(c, 0, "n_tasks"), at=A.enclosing_stmt(c))
        leaves = {canon(x) for x in A.strip_ifexp(n)}
        want_idx = canon(parse("len(samples_idx)"))
        if arr is not None:
            ctx.check(R, c, "n_tasks = len(samples_idx)", want_idx in leaves, "n_tasks resolves to %s" % sorted(leaves), key="n-idx")
        else:
            okn = any(l.startswith("int(n_prior_samples") for l in leaves) and any(l.endswith(".shape[0]") for l in leaves)
            ctx.check(R, c, "n_tasks = int(n_prior_samples) | table length", okn, "n_tasks resolves to %s" % sorted(leaves), key="n-range")
        nbv = flow.resolve(A.get_arg(c, 1, "n_batches"), at=A.enclosing_stmt(c))
        lv = {canon(x) for x in A.strip_ifexp(nbv)}
        ctx.check(R, c, "n_batches = given | max(1, pool.size)", lv <= {"n_batches", canon(parse("max(1, pool.size)")), canon(parse("max(pool.size, 1)"))} and len(lv) == 2,
                  "n_batches resolves to %s" % sorted(lv), key="nb")
        st = A.get_arg(c, 4, "start_idx")
        ctx.check(R, c, "start_idx left at 0", st is None or A.const_value(st) == 0, "start_idx=%s shifts every range" % (A.unparse(st) if st is not None else ""), key="start")
    # the task list is what batch_tasks produced: it may be re-built to attach the generators (one output element per task), never filtered, sliced or re-ordered
    tnames = {canon(s_.targets[0]) for s_ in A.walk_local(fn) if isinstance(s_, ast.Assign) and isinstance(s_.value, ast.Call) and A.call_name(s_.value) == "batch_tasks" and isinstance(s_.targets[0], ast.Name)}
    for s_ in A.walk_local(fn):
        if isinstance(s_, ast.Assign) and isinstance(s_.targets[0], ast.Name) and s_.targets[0].id in tnames and not (isinstance(s_.value, ast.Call) and A.call_name(s_.value) == "batch_tasks"):
            v_ = s_.value
            okf = isinstance(v_, ast.ListComp) and len(v_.generators) == 1 and not v_.generators[0].ifs
            ctx.check(R, s_, "a re-built task list keeps every task", okf,
                      "`%s` re-binds the task list %s: batches are dropped or re-ordered before they reach the pool" % (A.unparse(s_)[:70], "through a filter" if isinstance(v_, ast.ListComp) else "to something that is not one element per task"), key="tasks-rebuilt")
    for c_ in A.calls_in(fn):
        if isinstance(c_.func, ast.Attribute) and c_.func.attr in ("pop", "remove", "sort", "reverse", "clear", "insert") and canon(c_.func.value) in tnames:
            ctx.violate(R, c_, "the task list is not edited", "`%s` changes the task list in place" % A.unparse(c_)[:50], key="tasks-edited")
    for d_ in A.walk_local(fn):
        if isinstance(d_, ast.Delete) and any(isinstance(t_, ast.Subscript) and canon(t_.value) in tnames for t_ in d_.targets):
            ctx.violate(R, d_, "the task list is not edited", "`%s` deletes tasks" % A.unparse(d_)[:50], key="tasks-edited")
    # both selectors rejected (path-condition based: `if a and b: raise` and `if a: if b: raise` are the same guard)
    g = A.find_raising_guard(fn, A.nnf_of_src("n_prior_samples is not None and samples_idx is not None"))
    ctx.check(R, g or fn, "both selectors rejected", g is not None, "no unconditional raise when n_prior_samples and samples_idx are both given", key="both")
    # order: results.append(res) for res in pool.map(worker, tasks); return results
    maps = [c for c in A.calls_in(fn) if A.last_attr(c) == "map"]
    ok = False
    why = "no pool.map call"
    for c in maps:
        p = A.parent(c)
        if isinstance(p, ast.For) and p.iter is c and isinstance(p.target, ast.Name):
            body_ok = len(p.body) == 1 and isinstance(p.body[0], ast.Expr) and isinstance(p.body[0].value, ast.Call) and \
                A.last_attr(p.body[0].value) == "append" and canon(p.body[0].value.args[0]) == p.target.id
            if body_ok:
                lst = canon(p.body[0].value.func.value)
                rets = [canon(s.value) for _, s in flow.returns if s.value is not None]
                ok = rets == [lst]
                why = "returns %s, results accumulate in %s" % (rets, lst)
                # the list is filled by this loop only: a second place that adds to it (a retry / fall-back path) delivers batches twice
                muts = [x for x in A.calls_in(fn) if isinstance(x.func, ast.Attribute) and x.func.attr in ("append", "extend", "insert") and canon(x.func.value) == lst]
                muts += [x for x in A.walk_local(fn) if isinstance(x, ast.AugAssign) and canon(x.target) == lst]
                if ok and len(muts) != 1:
                    other = [x for x in muts if x is not p.body[0].value]
                    ok = False
                    why = "`%s` is also filled at line %d (`%s`) outside the pool.map loop: after a partial first pass the batches already delivered appear twice" % (
                        lst, getattr(other[0], "lineno", 0), A.unparse(other[0])[:50]) if other else "result list is filled %d times" % len(muts)
            else:
                why = "loop body over pool.map is not a plain append"
        elif isinstance(p, ast.Call) and A.call_name(p) == "list":
            # results = list(pool.map(...)): returned as it is (not re-ordered, filtered or extended on the way)
            rv = [flow.resolve(s.value, at=s) for _, s in flow.returns if s.value is not None]
            pr = flow.resolve(p, at=A.enclosing_stmt(p))
            ok = bool(rv) and all(canon(x) == canon(pr) for x in rv)
            why = "returns %s, not the list of pool.map results" % [A.unparse(x)[:50] for x in rv]
            st_ = A.enclosing_stmt(p)
            if ok and isinstance(st_, ast.Assign) and isinstance(st_.targets[0], ast.Name):
                lst = st_.targets[0].id
                muts = [x for x in A.calls_in(fn) if isinstance(x.func, ast.Attribute) and x.func.attr in ("append", "extend", "insert", "sort", "reverse", "pop", "remove") and canon(x.func.value) == lst]
                muts += [x for x in A.walk_local(fn) if isinstance(x, ast.AugAssign) and canon(x.target) == lst]
                if muts:
                    ok = False
                    why = "`%s` is changed after it was filled from pool.map (`%s`)" % (lst, A.unparse(muts[0])[:50])
        elif isinstance(p, ast.Return):
            ok = True
        t_res = flow.resolve(c.args[1], at=A.enclosing_stmt(c)) if len(c.args) >= 2 else None
        args_ok = len(c.args) >= 2 and canon(c.args[0]) == "worker" and t_res is not None and any(isinstance(x, ast.Call) and A.call_name(x) == "batch_tasks" for x in ast.walk(t_res)) or \
            (len(c.args) >= 2 and canon(c.args[0]) == "worker" and isinstance(c.args[1], ast.Name) and any(
                isinstance(s_, ast.Assign) and canon(s_.targets[0]) == c.args[1].id and isinstance(s_.value, ast.Call) and A.call_name(s_.value) == "batch_tasks" for s_ in A.walk_local(fn)))
        if not args_ok:
            ok, why = False, "pool.map(%s) does not map `worker` over `tasks`" % ", ".join(A.unparse(a) for a in c.args)
    ctx.check(R, fn, "results in pool.map order", ok, why, key="order")


ROLE_USES = {
    # role -> predicate over (worker fn, name)
}


def _role_of(fn, name):
    """Infer what a worker uses an unpacked name for."""
    roles = set()
    for c in A.calls_in(fn):
        d = A.call_name(c) or ""
        if d == "read_batch":
            a0 = A.get_arg(c, 0, "prior_samples_file")
            if a0 is not None and canon(a0) == name:
                roles.add("file")
            a2 = A.get_arg(c, 2, "slice_or_idx")
            if a2 is not None and canon(a2) == name:
                roles.add("rows")
        if d.endswith(".batch_get_posterior_samples"):
            if canon(c.func.value) == name:
                roles.add("helper")
            if len(c.args) > 1 and canon(c.args[1]) == name:
                roles.add("n_linear_samples")
            if len(c.args) > 2 and canon(c.args[2]) == name:
                roles.add("rng")
        if d.endswith(".batch_marginal_ln_likelihood") and canon(c.func.value) == name:
            roles.add("helper")
    return roles


def check_tuple(ctx):
    R = "C16-TUPLE"
    ctx.rule(R, "each pool worker unpacks its task into 2 + len(task_args) (+1 with rng) names in the producer's order "
                "([rows, start] + task_args (+ generator)), and uses each name in the role the producer put there.")
    pairs = [("marginal_ln_likelihood_helper", "marginal_ln_likelihood_worker"), ("make_full_samples", "make_full_samples_worker")]
    n = 0
    for prod, work in pairs:
        pf = ctx.prog.func(MP, prod, R)
        wf = ctx.prog.func(MP, work, R)
        flow = A.Flow(pf)
        rw = A.find_calls(pf, "run_worker")
        if len(rw) != 1:
            ctx.undecided(R, pf, "run_worker call", "expected one run_worker call, found %d" % len(rw))
            continue
        c = rw[0]
        ctx.check(R, c, "%s maps %s" % (prod, work), canon(A.get_arg(c, 0, "worker")) == work, "maps `%s`" % A.unparse(A.get_arg(c, 0, "worker")), key=prod + ":worker")
        ta = A.get_arg(c, 3, "task_args")
        ta = flow.resolve(ta, at=A.enclosing_stmt(c)) if ta is not None else None
        if not isinstance(ta, (ast.Tuple, ast.List)):
            ctx.undecided(R, c, "task_args literal", "task_args is not a literal tuple")
            continue
        prod_roles = []
        for e in ta.elts:
            nm = canon(e)
            prod_roles.append({"prior_samples_file": "file", "joker_helper": "helper", "n_linear_samples": "n_linear_samples"}.get(nm, nm))
        with_rng = A.get_arg(c, None, "rng") is not None
        expect = ["rows", "start"] + prod_roles + (["rng"] if with_rng else [])
        # worker unpacking
        task_param = A.param_names(wf)[0]
        unp = None
        for s in wf.body:
            if isinstance(s, ast.Assign) and canon(s.value) == task_param and isinstance(s.targets[0], (ast.Tuple, ast.List)):
                unp = s
                break
        if unp is None:
            ctx.undecided(R, wf, "task unpacking", "no `a, b, ... = %s` statement" % task_param)
            continue
        names = [canon(e) for e in unp.targets[0].elts]
        n += 1
        ctx.check(R, unp, "%s unpacks %d elements" % (work, len(expect)), len(names) == len(expect),
                  "unpacks %d names %s, producer builds %d elements %s" % (len(names), names, len(expect), expect), key=work + ":len")
        if len(names) != len(expect):
            continue
        for i, (nm, role) in enumerate(zip(names, expect)):
            if role == "start":
                continue
            used = _role_of(wf, nm)
            good = role in used and not (used - {role})
            ctx.check(R, unp, "%s element %d (`%s`) used as %s" % (work, i, nm, role), good,
                      "element %d is the producer's %s but the worker uses `%s` as %s" % (i, role, nm, sorted(used) or "nothing"), key="%s:%d" % (work, i))
    ctx.floor(R, n, 2)


def run(ctx):
    check_batch_tasks(ctx)
    check_run_worker(ctx)
    check_tuple(ctx)
    from .C07 import _Relabel
    from .C10 import check_spawn
    ctx.rule("C16-ATTACH", "attaching the per-task generators keeps the task list whole: one child per task (spawn(len(tasks))), task i extended in place by its own child "
                           "(shared with C10-SPAWN) - pairing the tasks with a shorter sequence drops batches.")
    check_spawn(_Relabel(ctx, {"C10-SPAWN": "C16-ATTACH"}))
    from . import _rej
    from .C14 import check_chain
    ctx.rule("C16-CHAIN", "iterative sampler: the index windows handed to run_worker are consecutive - each starts where the previous one ended (the cursor advances by the "
                          "size just evaluated) - so the windows themselves partition the evaluated prefix (shared with C14-CHAIN).")
    for mod, name in _rej.SITES[2:]:
        check_chain(ctx, _rej.analyze(ctx.prog, mod, name), R="C16-CHAIN")
    ctx.assume("Python integer // and % satisfy n = (n//k)*k + n%k with 0 <= n%k < k for k >= 1")
    ctx.assume("pool.map preserves task order (schwimmbad / multiprocessing contract)")
