"""C08 - multi-survey data keep every observation tied to its own survey offset."""
import ast

from .. import astutil as A
from ..norm import canon, parse, dotted, equal

DH = "thejoker.data_helpers"
LH = "thejoker.likelihood_helpers"
DT = "thejoker.data"
PR = "thejoker.prior"
ACC = ("t", "rv", "err", "ids")


def _accumulators(fn):
    """list names that are appended to inside a loop: name -> [(append call, loop)]"""
    acc = {}
    for l in A.walk_local(fn):
        if isinstance(l, ast.For):
            for c in A.calls_in(l):
                if A.last_attr(c) == "append" and isinstance(c.func, ast.Attribute) and isinstance(c.func.value, ast.Name) and len(c.args) == 1:
                    if A.enclosing(c, (ast.For,)) is l:
                        acc.setdefault(c.func.value.id, []).append((c, l))
    return acc


def analyse_merge(fn):
    """Role-based view of validate_prepare_data: the merged RVData(...) call, the accumulator behind each of its arguments and behind the ids array."""
    rv = [c for c in A.calls_in(fn) if A.call_name(c) == "RVData"]
    if len(rv) != 1:
        return None
    call = rv[0]
    st = A.enclosing_stmt(call)
    acc = _accumulators(fn)
    roles = {}
    res = {}
    for role, kw in (("t", "t"), ("rv", "rv"), ("err", "rv_err")):
        a_ = A.get_arg(call, None, kw)
        if a_ is None:
            continue
        r = A.inline_temporaries(a_, st, fn)
        res[role] = r
        names = [n.id for n in ast.walk(r) if isinstance(n, ast.Name) and n.id in acc]
        if len(set(names)) == 1:
            roles[role] = names[0]
    # ids: second argument of the multi-source design-matrix call
    tm = [c for c in A.calls_in(fn) if A.call_name(c) == "get_trend_design_matrix" and len(c.args) >= 2 and not (isinstance(c.args[1], ast.Constant) and c.args[1].value is None)]
    ids_expr = None
    if tm:
        ids_expr = A.inline_temporaries(tm[0].args[1], A.enclosing_stmt(tm[0]), fn)
        core = ids_expr
        while isinstance(core, ast.Subscript):
            core = core.value   # a re-alignment ids[perm] is judged by C08-ORDER
        names = [n.id for n in ast.walk(core) if isinstance(n, ast.Name) and n.id in acc]
        if len(set(names)) == 1:
            roles["ids"] = names[0]
        res["ids"] = ids_expr
    return {"call": call, "stmt": st, "acc": acc, "roles": roles, "resolved": res, "tm": tm}


def check_lock(ctx):
    R = "C08-LOCK"
    ctx.rule(R, "validate_prepare_data, role-based (local names are irrelevant): the arrays handed to the merged RVData(t=, rv=, rv_err=) and the ids array handed to the design "
                "matrix are each np.concatenate of ONE list that is appended exactly once per source, unconditionally, in the loop over the sources, from the same source d = "
                "data[k]: times d.t.tcb.mjd, velocities / errors stripped in ONE common unit fixed by the first source and re-labelled with it, ids [k] * len(d); list input is "
                "keyed by position.")
    fn = ctx.prog.func(DH, "validate_prepare_data", R)
    M = analyse_merge(fn)
    if M is None:
        ctx.violate(R, fn, "one merged RVData", "the multi-source path does not build exactly one merged RVData", key="merge")
        return None
    roles, acc, res = M["roles"], M["acc"], M["resolved"]
    for role in ACC:
        if role not in roles:
            ctx.violate(R, M["stmt"], "`%s` of the merged data comes from a per-source accumulator" % role,
                        "argument resolves to `%s`, which is not the concatenation of one list filled in the source loop" % (A.unparse(res[role])[:70] if role in res else None), key="role:" + role)
    if set(roles) != set(ACC):
        return fn, None, M["call"]
    loops = {id(l): l for r_ in roles.values() for c, l in acc[r_]}
    if len(loops) != 1:
        ctx.violate(R, fn, "all four accumulators are filled in one loop over the sources", "they are filled in %d different loops" % len(loops), key="one-loop")
        return fn, None, M["call"]
    loop = list(loops.values())[0]
    okloop = canon(loop.iter) in (canon(parse("data.keys()")), "data", canon(parse("data.items()")), canon(parse("list(data.keys())")))
    ctx.check(R, loop, "the loop runs over every source", okloop, "loop iterates `%s`" % A.unparse(loop.iter), key="loop-iter")
    k = loop.target.id if isinstance(loop.target, ast.Name) else (loop.target.elts[0].id if isinstance(loop.target, ast.Tuple) else None)
    dsub = "data[%s]" % k
    want = {
        "t": ["%s.t.tcb.mjd" % dsub, "%s._t_bmjd" % dsub],
        "rv": ["%s.rv.to_value(RVU)" % dsub, "%s.rv.to(RVU).value" % dsub],
        "err": ["%s.rv_err.to_value(RVU)" % dsub, "%s.rv_err.to(RVU).value" % dsub],
        "ids": ["[%s] * len(%s)" % (k, dsub), "np.full(len(%s), %s)" % (dsub, k), "np.repeat(%s, len(%s))" % (k, dsub)],
    }
    unit_names = set()
    for role in ACC:
        cs = acc[roles[role]]
        if len(cs) != 1:
            ctx.violate(R, loop, "`%s` appended once per source" % role, "appended %d times per source: the arrays fall out of step" % len(cs), key="once:" + role)
            continue
        c = cs[0][0]
        st = A.enclosing_stmt(c)
        direct = A.block_of(st)[0] is loop
        ctx.check(R, c, "`%s` appended unconditionally" % role, direct, "the append is nested under `%s`" % (A.unparse(A.guards_of(c, stop=loop)[0][0]) if A.guards_of(c, stop=loop) else "a compound statement"), key="uncond:" + role)
        v = A.inline_temporaries(c.args[0], st, fn, only={n.id for n in ast.walk(c.args[0]) if isinstance(n, ast.Name)} - {k, "data", "np"} - _unit_like(c.args[0]))
        if isinstance(loop.target, ast.Tuple) and len(loop.target.elts) == 2:
            v = A._Subst({loop.target.elts[1].id: parse(dsub)}, False).visit(A.clone(v))
        ok = False
        for w in want[role]:
            if "RVU" in w:
                for un in _unit_like(c.args[0]) or {"rv_unit"}:
                    if canon(v) == canon(parse(w.replace("RVU", un))):
                        ok = True
                        unit_names.add(un)
            elif canon(v) == canon(parse(w)):
                ok = True
        ctx.check(R, c, "`%s` takes the matching piece of the same source" % role, ok, "appends `%s`" % A.unparse(v)[:70], key="value:" + role)
    # the common unit: one name, assigned from the source only while still None
    if len(unit_names) == 1:
        un = list(unit_names)[0]
        ru = [s for s in A.walk_local(loop) if isinstance(s, ast.Assign) and canon(s.targets[0]) == un]
        oku = len(ru) == 1 and canon(A.inline_temporaries(ru[0].value, ru[0], fn, only={"d"})) in (canon(parse("%s.rv.unit" % dsub)), canon(parse("d.rv.unit"))) \
            and ("+%s is None" % un) in A.term_strings(A.path_condition(ru[0], fn, inline=False))
        ctx.check(R, loop, "one common velocity unit, fixed by the first source", oku,
                  "`%s` is (re)assigned %s: sources stripped in different units are labelled with one unit" % (un, "on every iteration" if ru and not A.guards_of(ru[0], stop=loop) else "%d times" % len(ru)), key="unit")
        # merged arguments: concatenate(list) [* unit]
        wantm = {"t": ["Time(np.concatenate(ACC), format='mjd', scale='tcb')"], "rv": ["np.concatenate(ACC) * %s" % un], "err": ["np.concatenate(ACC) * %s" % un]}
        for role, forms in wantm.items():
            okm = any(canon(res[role]) == canon(parse(f.replace("ACC", roles[role]))) for f in forms)
            ctx.check(R, M["stmt"], "merged `%s` = the concatenation, in source order%s" % (role, "" if role == "t" else ", re-labelled with the common unit"), okm,
                      "merged %s = `%s`" % (role, A.unparse(res[role])[:80]), key="concat:" + role)
    else:
        ctx.violate(R, loop, "one common velocity unit, fixed by the first source", "velocities and errors are stripped in %s" % (sorted(unit_names) or "no common unit"), key="unit")
    idsr = res.get("ids")
    core = idsr
    if isinstance(core, ast.Subscript):
        core = core.value   # a re-alignment is judged by C08-ORDER
    ctx.check(R, M["stmt"], "ids = the concatenation of the per-source id blocks", core is not None and canon(core) == canon(parse("np.concatenate(%s)" % roles["ids"])), "ids = `%s`" % (A.unparse(idsr)[:70] if idsr is not None else None), key="concat:ids")
    # list -> dict keyed by position
    okl = False
    for n in A.walk_local(fn):
        if isinstance(n, ast.For) and isinstance(n.iter, ast.Call) and A.call_name(n.iter) == "enumerate" and isinstance(n.target, ast.Tuple) and len(n.body) == 1 and isinstance(n.body[0], ast.Assign):
            t = n.body[0].targets[0]
            if isinstance(t, ast.Subscript) and canon(t.slice) == n.target.elts[0].id and canon(n.body[0].value) == n.target.elts[1].id:
                okl = True
        if isinstance(n, ast.DictComp) and len(n.generators) == 1 and isinstance(n.generators[0].iter, ast.Call) and A.call_name(n.generators[0].iter) == "enumerate" and isinstance(n.generators[0].target, ast.Tuple):
            i, d = [e.id for e in n.generators[0].target.elts]
            if canon(n.key) == i and canon(n.value) == d and not n.generators[0].ifs:
                okl = True
        if isinstance(n, ast.Call) and A.call_name(n) == "dict" and n.args and isinstance(n.args[0], ast.Call) and A.call_name(n.args[0]) == "enumerate":
            okl = True
    ctx.check(R, fn, "list input keyed by position (first source = smallest id = reference)", okl, "list sources are not stored under their position", key="list")
    return fn, loop, M["call"]


def _unit_like(e):
    """names used as the target unit of a to_value / to call inside e"""
    out = set()
    for n in ast.walk(e):
        if isinstance(n, ast.Call) and isinstance(n.func, ast.Attribute) and n.func.attr in ("to_value", "to") and n.args and isinstance(n.args[0], ast.Name):
            out.add(n.args[0].id)
    return out


def rvdata_sorts(ctx):
    from .C15 import _applications
    init = ctx.prog.func(DT, "RVData.__init__", "C08-ORDER")
    return any(isinstance(s.value, ast.Call) and A.last_attr(s.value) == "argsort" for s in A.walk_local(init) if isinstance(s, ast.Assign) and isinstance(s.targets[0], ast.Name)) and bool(_applications(init))


def check_order(ctx, fn, merged_call):
    R = "C08-ORDER"
    ctx.rule(R, "row-order domain: RVData(...) stores rows in time-sorted order (derived from RVData.__init__, C15); every per-epoch array used together with the merged "
                "object - passed with it to get_trend_design_matrix, or returned in the same tuple - must carry the same row order (re-aligned with the argsort of the same "
                "times, or all arrays pre-sorted with one permutation).")
    if merged_call is None:
        return
    if not rvdata_sorts(ctx):
        ctx.ok(R, fn, "RVData keeps input order", "RVData.__init__ no longer sorts: concatenation order is the row order", nontrivial=False)
        return
    mstmt = A.enclosing_stmt(merged_call)
    M = analyse_merge(fn)
    if M is None or "ids" not in M["roles"] or "t" not in M["roles"]:
        ctx.undecided(R, fn, "ids accumulator", "roles of the merged arrays not recognised (see C08-LOCK)")
        return
    ids_acc, t_acc = M["roles"]["ids"], M["roles"]["t"]
    # every expression that carries the ids array beyond the merge: the design-matrix argument and the returned tuple element
    uses = []
    for c in M["tm"]:
        uses.append((c.args[1], A.enclosing_stmt(c), "call"))
    for s in A.walk_local(fn):
        if isinstance(s, ast.Return) and isinstance(s.value, ast.Tuple) and len(s.value.elts) == 3 and not any(A.call_name(x) == "np.zeros" for x in ast.walk(s.value.elts[1]) if isinstance(x, ast.Call)):
            uses.append((s.value.elts[1], s, "return"))
    n_uses = 0
    for expr, st, where_ in uses:
        r = A.inline_temporaries(expr, st, fn)
        if not any(isinstance(x, ast.Name) and x.id == ids_acc for x in ast.walk(r)):
            continue
        n_uses += 1
        n = expr
        txt = A.unparse(r)
        t_at_merge = parse("np.concatenate(%s)" % t_acc)
        aligned = _presorted(fn, mstmt)
        if isinstance(r, ast.Subscript) and isinstance(r.slice, ast.Call) and A.last_attr(r.slice) == "argsort":
            key_arr = r.slice.args[0] if r.slice.args and (A.call_name(r.slice) or "").startswith("np.") else (r.slice.func.value if isinstance(r.slice.func, ast.Attribute) else None)
            if key_arr is not None and (canon(key_arr) == canon(t_at_merge)):
                aligned = True
        what = "passed to get_trend_design_matrix with the merged data" if where_ == "call" else "returned next to the merged data"
        if aligned:
            ctx.ok(R, st, "ids %s are in the merged object's row order" % what, "re-aligned by the time argsort")
        elif canon(r) == canon(parse("np.concatenate(%s)" % ids_acc)) or "argsort" not in txt and "sort" not in txt:
            ctx.violate(R, st, "ids %s are in the merged object's row order" % what,
                        "`ids` keeps the concatenation order while the merged RVData is time-sorted: for interleaved surveys epochs are labelled with the wrong survey",
                        key="ids@" + where_)
        else:
            ctx.violate(R, st, "ids %s are in the merged object's row order" % what,
                        "`ids` is re-ordered as `%s`, which is not the argsort of the merged times: labels and observations are permuted differently" % txt[:80],
                        key="ids-reordered@" + where_)
    ctx.floor(R, n_uses, 2)


def _presorted(fn, mstmt):
    """all four arrays permuted by one argsort before the merge"""
    perm = [s for s in fn.body if isinstance(s, ast.Assign) and isinstance(s.value, ast.Call) and A.last_attr(s.value) == "argsort" and A.doc_index(s) < A.doc_index(mstmt)]
    if not perm:
        return False
    p = canon(perm[0].targets[0])
    done = {canon(s.targets[0]) for s in fn.body if isinstance(s, ast.Assign) and isinstance(s.value, ast.Subscript) and canon(s.value.slice) == p and canon(s.value.value) == canon(s.targets[0]) and A.doc_index(s) < A.doc_index(mstmt)}
    return set(ACC) <= done


def count_guard(vp):
    """the raising guard `number of distinct source ids - 1 != n_offsets` (ids identified by role, not by name)"""
    M = analyse_merge(vp)
    cands = ["ids"]
    if M and M["resolved"].get("ids") is not None:
        core = M["resolved"]["ids"]
        while isinstance(core, ast.Subscript):
            core = core.value
        cands.append(A.unparse(core))
    for c in cands:
        g = A.find_raising_guard(vp, A.nnf_of_src("len(np.unique(%s)) - 1 != n_offsets" % c))
        if g is not None:
            return g
    return None


def check_returned(ctx, R):
    """validate_prepare_data hands back (merged data, labels, design matrix) - the labels being the very array the design matrix was built from (callers such as
    setup_mcmc rebuild their own matrix from them: a re-ordered copy gives the MCMC model other offset rows than the sampler)"""
    fn = ctx.prog.func("thejoker.data_helpers", "validate_prepare_data", R)
    flow = A.Flow(fn)
    n = 0
    for v, s in flow.returns:
        raw = s.value
        if not (isinstance(raw, ast.Tuple) and len(raw.elts) == 3):
            continue
        n += 1
        tm = raw.elts[2]
        d_ = None
        if isinstance(tm, ast.Name):
            d_ = A.raw_reaching_def_stmt(tm.id, s)
            tm = d_.value if isinstance(d_, ast.Assign) else A.inline_temporaries(tm, s, fn)
        if not (isinstance(tm, ast.Call) and (A.call_name(tm) or "").split(".")[-1] == "get_trend_design_matrix" and len(tm.args) >= 2):
            # single-source early return: (data, None, matrix of that data)
            continue
        if isinstance(tm.args[1], ast.Constant) and tm.args[1].value is None:
            continue   # single source: no labels needed for the matrix (the helper makes them all zero, like the returned ones)

        def same(a, b):
            # the same name, not re-bound between the matrix construction and the return
            if isinstance(a, ast.Name) and isinstance(b, ast.Name) and a.id == b.id:
                return d_ is None or A.raw_reaching_def_stmt(a.id, s) is A.raw_reaching_def_stmt(a.id, d_)
            return canon(a) == canon(b)
        ctx.check(R, s, "returned labels are the labels the design matrix was built from", same(tm.args[1], raw.elts[1]),
                  "returns `%s` as labels, but the design matrix was built from `%s`" % (A.unparse(raw.elts[1])[:50], A.unparse(tm.args[1])[:50]), key="ret-ids")
        ctx.check(R, s, "returned data is the data the design matrix was built from", same(tm.args[0], raw.elts[0]),
                  "returns `%s`, matrix built from `%s`" % (A.unparse(raw.elts[0])[:40], A.unparse(tm.args[0])[:40]), key="ret-data", nontrivial=False)
    ctx.check(R, fn, "validate_prepare_data returns (data, labels, design matrix)", n >= 1, "no 3-tuple return found", key="ret-shape", nontrivial=False)


def check_col(ctx):
    check_returned(ctx, "C08-COL")
    R = "C08-COL"
    ctx.rule(R, "get_constant_term_design_matrix: column 0 is all ones; column j+1 is the indicator (boolean mask ids == id) of the (j+1)-th sorted unique id "
                "(enumerate(unique[1:]) paired with j+1); the matrix has one column per unique id; the trend matrix stacks it before vander(t - t_ref, increasing)[:, 1:]; "
                "the count check len(unique(ids)) - 1 != n_offsets -> raise dominates the merge; offset priors keep the caller's order.")
    # the helper is built from what validate_prepare_data returned, untouched: no write into the merged data, the labels or the design matrix in between
    mk = ctx.prog.func("thejoker.thejoker", "TheJoker._make_joker_helper", R)
    ws = A.storage_writes(mk, lambda e: isinstance(e, ast.Call) and (A.call_name(e) or "").split(".")[-1] == "validate_prepare_data")
    ctx.check(R, ws[0][0] if ws else mk, "_make_joker_helper passes the design matrix on as built", not ws,
              (ws[0][1] if ws else "").replace("the input", "what validate_prepare_data returned") + ": the kernel's columns are no longer the indicator / trend columns decided here", key="helper-writes")
    hc = [c for c in A.calls_in(mk) if (A.call_name(c) or "").split(".")[-1] == "CJokerHelper"]
    vp = [c for c in A.calls_in(mk) if (A.call_name(c) or "").split(".")[-1] == "validate_prepare_data"]
    okh = len(hc) == 1 and len(vp) == 1 and len(hc[0].args) == 3
    if okh:
        mf = A.Flow(mk)
        st_ = A.enclosing_stmt(hc[0])
        a0, a2 = mf.resolve(hc[0].args[0], at=st_), mf.resolve(hc[0].args[2], at=st_)
        okh = all(canon(vp[0]) in canon(x) and "@elem" not in canon(x) or canon(vp[0]) in canon(x) for x in (a0, a2))
    ctx.check(R, mk, "CJokerHelper(data, prior, M) receives the merged data and design matrix of validate_prepare_data", okh, "the helper is not built from validate_prepare_data's outputs", key="helper-args", nontrivial=False)
    fn = ctx.prog.func(LH, "get_constant_term_design_matrix", R)
    flow = A.Flow(fn)
    # the returned matrix and its allocation
    rets = [s for s in A.walk_local(fn) if isinstance(s, ast.Return)]
    M = canon(rets[0].value) if len(rets) == 1 and isinstance(rets[0].value, ast.Name) else None
    alloc = [s for s in fn.body if isinstance(s, ast.Assign) and isinstance(s.value, ast.Call) and A.call_name(s.value) == "np.zeros" and canon(s.targets[0]) == M]
    UNQ = canon(parse("np.unique(ids)"))
    oka = len(alloc) == 1 and canon(A.inline_temporaries(alloc[0].value.args[0], alloc[0], fn)) == canon(parse("(len(data), len(np.unique(ids)))"))
    ctx.check(R, alloc[0] if alloc else fn, "one column per unique id, one row per epoch", oka, "allocation %s" % (A.unparse(alloc[0].value) if alloc else None), key="alloc")
    ctx.check(R, fn, "returns the filled matrix", M is not None and bool(alloc), "returns %s" % (A.unparse(rets[0].value) if rets else None), key="ret", nontrivial=False)
    M = M or "constant_part"
    # (the matrix was allocated with a two-element shape above: `M[..., 0]` is `M[:, 0]`)
    c0 = [s for s in fn.body if isinstance(s, ast.Assign) and canon(A.ellipsis_2d(s.targets[0])) == canon(parse("%s[:, 0]" % M))]
    ctx.check(R, fn, "column 0 is all ones (every epoch has the reference velocity)", len(c0) == 1 and A.const_value(c0[0].value) in (1, 1.0), "column 0 = %s" % (A.unparse(c0[0].value) if c0 else None), key="col0")
    loops = [l for l in fn.body if isinstance(l, ast.For)]
    ok = False
    why = "no loop over the further unique ids"
    if len(loops) == 1:
        l = loops[0]
        it = A.inline_temporaries(l.iter, l, fn)
        U = parse("np.unique(ids)")
        K = ast.Name(id="K", ctx=ast.Load())
        UK = ast.Subscript(value=U, slice=K, ctx=ast.Load())
        env = None
        # every accepted loop header enumerates k = 1 .. len(U) - 1 together with U[k]; env maps the loop variables to expressions in K
        if isinstance(it, ast.Call) and A.call_name(it) == "enumerate" and it.args and canon(it.args[0]) == canon(parse("np.unique(ids)[1:]")) and isinstance(l.target, ast.Tuple) and len(l.target.elts) == 2:
            start = A.get_arg(it, 1, "start")
            s0 = 0 if start is None else A.const_value(start)
            if isinstance(s0, int):
                j, idn = l.target.elts[0].id, l.target.elts[1].id
                env = {j: parse("K - %d" % (1 - s0)) if s0 != 1 else K, idn: UK}
        elif isinstance(it, ast.Call) and A.call_name(it) == "range" and len(it.args) == 2 and A.const_value(it.args[0]) == 1 and canon(it.args[1]) == canon(parse("len(np.unique(ids))")) \
                and isinstance(l.target, ast.Name):
            env = {l.target.id: K}
        elif isinstance(it, ast.Subscript) and canon(it) == canon(parse("np.unique(ids)[1:]")) and isinstance(l.target, ast.Name):
            env = None   # no column index available from the header alone
        if env is None:
            why = "loop is `for %s in %s`: it does not enumerate the further unique ids together with their position" % (A.unparse(l.target), A.unparse(it))
        else:
            st = [s_ for s_ in l.body if isinstance(s_, ast.Assign)]
            if len(st) == 1 and len(l.body) == 1 and isinstance(st[0].targets[0], ast.Subscript) and canon(st[0].targets[0].value) == M \
                    and isinstance(st[0].targets[0].slice, ast.Tuple) and len(st[0].targets[0].slice.elts) == 2:
                rows, col = st[0].targets[0].slice.elts
                rows = A._Subst(env, False).visit(A.clone(A.inline_temporaries(rows, st[0], fn)))
                col = A._Subst(env, False).visit(A.clone(A.inline_temporaries(col, st[0], fn)))
                okr = canon(rows) in (canon(parse("ids == np.unique(ids)[K]")), canon(parse("np.unique(ids)[K] == ids")))
                okc = equal(col, K)
                ok = okr and okc and A.const_value(st[0].value) in (1, 1.0)
                why = "loop body stores `%s = %s`: with k the position of the id among the unique ids, rows `%s`, column `%s` (expected rows ids == unique[k], column k)" % (
                    A.unparse(st[0].targets[0]), A.unparse(st[0].value), A.unparse(rows)[:50], A.unparse(col)[:30])
            else:
                why = "loop body is not the single indicator store (rows must be selected by the mask ids == id, not by position)"
    ctx.check(R, fn, "column j+1 = indicator of the (j+1)-th unique id", ok, why, key="indicator")
    idsdef = [s for s in fn.body if isinstance(s, ast.Assign) and canon(s.targets[0]) == "ids"]
    ctx.check(R, fn, "ids only normalised to an array", all(canon(s.value) == canon(parse("np.array(ids)")) for s in idsdef), "ids rewritten as %s" % [A.unparse(s.value) for s in idsdef], key="ids-norm", nontrivial=False)
    # trend matrix
    tf = ctx.prog.func(LH, "get_trend_design_matrix", R)
    flow = A.Flow(tf)
    rets = flow.returns
    okt = False
    why = "no return"
    if len(rets) == 1:
        v = rets[0][0]
        parts = "(get_constant_term_design_matrix(data, ids), np.vander(data._t_bmjd - data._t_ref_bmjd, N=poly_trend, increasing=True)[:, 1:])"
        # both blocks are 2-D (n_times x k): hstack, column_stack and concatenate(axis=1) all put them side by side
        wants = ["np.hstack(%s)", "np.concatenate(%s, axis=1)", "np.concatenate(%s, axis=-1)", "np.column_stack(%s)", "np.concatenate(%s, 1)"]
        v = A.ellipsis_2d(v)   # np.vander returns a two-dimensional array
        okt = canon(v) in {canon(parse(w % parts)) for w in wants} | {canon(parse(w % parts.replace("(get", "[get").replace(":])", ":]]"))) for w in wants}
        why = "returns `%s`" % A.unparse(v)[:140]
    ctx.check(R, tf, "trend matrix = [constant/offset columns | (t - t_ref)^1.. ]", okt, why, key="trend")
    # count check dominates the merge
    vp = ctx.prog.func(DH, "validate_prepare_data", R)
    g = count_guard(vp)
    rv = [A.enclosing_stmt(c) for c in A.calls_in(vp) if A.call_name(c) == "RVData"]
    ctx.check(R, vp, "source-count check precedes the merge", g is not None and bool(rv) and A.dominates(g, rv[0]), "no dominating `len(unique(ids)) - 1 != n_offsets -> raise`", key="count")
    tm = [c for c in A.calls_in(vp) if A.call_name(c) == "get_trend_design_matrix"]
    single = [c for c in tm if len(c.args) == 3 and canon(c.args[0]) == "data" and isinstance(c.args[1], ast.Constant) and c.args[1].value is None]
    multi = [c for c in tm if c not in single]
    okc = len(tm) == 2 and len(single) == 1 and len(multi) == 1 and all(len(c.args) == 3 and canon(c.args[2]) == "poly_trend" for c in tm)
    if okc:
        m0 = A.inline_temporaries(multi[0].args[0], A.enclosing_stmt(multi[0]), vp)
        mm = analyse_merge(vp)
        # the multi-source matrix is built from the merged RVData and the ids array assembled with it (its content is judged by C08-LOCK / C08-ORDER)
        okc = isinstance(m0, ast.Call) and A.call_name(m0) == "RVData" and mm is not None and "ids" in mm["roles"]
    ctx.check(R, vp, "design matrix built from the merged data and its ids", okc, "get_trend_design_matrix calls: %s" % [A.unparse(c)[:50] for c in tm], key="tm-call")
    # offsets keep the caller's order (k-th further source <-> v0_offsets[k-1])
    init = ctx.prog.func(PR, "JokerPrior.__init__", R)
    st = [s for s in A.walk_local(init) if isinstance(s, ast.Assign) and dotted(s.targets[0]) == "self.v0_offsets"]
    flow = A.Flow(init)
    oko = len(st) == 1
    if oko:
        v = flow.resolve(st[0].value, at=st[0])
        leaves = {canon(x) for x in A.strip_ifexp(v)}
        oko = leaves <= {canon(parse("list(v0_offsets)")), canon(parse("list([])")), canon(parse("[]"))} or leaves == {canon(parse("list([] if v0_offsets is None else v0_offsets)"))}
        why = "self.v0_offsets = %s" % A.unparse(v)[:80]
    else:
        why = "self.v0_offsets assigned %d times" % len(st)
    ctx.check(R, init, "offset priors are stored in the order given", oko, why + ": the k-th further source would get another offset's prior and name", key="offset-order")
    no = ctx.prog.func(PR, "JokerPrior.n_offsets", R)
    rr = [s for s in A.walk_local(no) if isinstance(s, ast.Return)]
    ctx.check(R, no, "n_offsets = number of offset priors", len(rr) == 1 and canon(rr[0].value) == canon(parse("len(self.v0_offsets)")), "n_offsets = %s" % (A.unparse(rr[0].value) if rr else None), key="n_offsets", nontrivial=False)


def check_mcmc(ctx):
    from .C07 import _Relabel
    from .C11 import Ctxt, check_trend, TJ, Q
    ctx.rule("C08-MCMC", "the MCMC continuation pairs the survey offsets with the same design-matrix columns as the sampler: parameter vector [v0] + offsets + v1.. "
                         "against get_trend_design_matrix(data, ids, poly_trend) (shared implementation with C11-TREND).")
    fn = ctx.prog.func(TJ, Q, "C08-MCMC")
    check_trend(_Relabel(ctx, {"C11-TREND": "C08-MCMC"}), fn, Ctxt(fn))


def run(ctx):
    from .C05 import check_mutable_defaults
    check_mutable_defaults(ctx, "C08-STATE")
    res = check_lock(ctx)
    if res:
        fn, loop, merged = res
        check_order(ctx, fn, merged)
    check_col(ctx)
    check_mcmc(ctx)
    from .C07 import _Relabel
    from .C15 import check_lock as c15_lock
    ctx.rule("C08-SORT", "the merged RVData orders its rows by time alone (a stable argsort of the times) and applies the same selection to times, velocities and errors: the "
                         "survey labels, which are built in concatenation order, rely on exactly that order (shared with C15-LOCK).")
    c15_lock(_Relabel(ctx, {"C15-LOCK": "C08-SORT"}))
    ctx.assume("np.unique returns sorted unique values; boolean-mask row assignment touches exactly the masked rows")
    ctx.assume("RVData row order = time-sorted finite subset (decided by C15-LOCK)")
