"""C08 - multi-survey data keep every observation tied to its own survey offset."""
import ast

from .. import astutil as A
from ..norm import canon, parse, dotted, equal

DH = "thejoker.data_helpers"
LH = "thejoker.likelihood_helpers"
DT = "thejoker.data"
PR = "thejoker.prior"
ACC = ("t", "rv", "err", "ids")


def check_lock(ctx):
    R = "C08-LOCK"
    ctx.rule(R, "validate_prepare_data: the four accumulators (times, velocities, errors, ids) are appended exactly once per source, unconditionally after the type checks, "
                "all from the same source d (ids = [key] * len(d)); velocities and errors are stripped in ONE common unit fixed by the first source; each accumulator is "
                "concatenated once and the merged RVData is built from exactly those arrays with that unit; list input is keyed by position.")
    fn = ctx.prog.func(DH, "validate_prepare_data", R)
    loops = [l for l in A.walk_local(fn) if isinstance(l, ast.For) and canon(l.iter) in (canon(parse("data.keys()")), "data", canon(parse("data.items()")))]
    if len(loops) != 1:
        ctx.undecided(R, fn, "source loop", "expected one loop over the sources, found %d" % len(loops))
        return None
    loop = loops[0]
    k = loop.target.id if isinstance(loop.target, ast.Name) else None
    want = {
        "t": ["d.t.tcb.mjd", "d._t_bmjd"],
        "rv": ["d.rv.to_value(rv_unit)", "d.rv.to(rv_unit).value"],
        "err": ["d.rv_err.to_value(rv_unit)", "d.rv_err.to(rv_unit).value"],
        "ids": ["[%s] * len(d)" % k, "np.full(len(d), %s)" % k, "np.repeat(%s, len(d))" % k],
    }
    apps = {}
    for c in A.calls_in(loop):
        if A.last_attr(c) == "append" and isinstance(c.func, ast.Attribute) and canon(c.func.value) in ACC:
            apps.setdefault(canon(c.func.value), []).append(c)
    for acc in ACC:
        cs = apps.get(acc, [])
        if len(cs) != 1:
            ctx.violate(R, loop, "`%s` appended once per source" % acc, "`%s` is appended %d times per source: the arrays fall out of step" % (acc, len(cs)), key="once:" + acc)
            continue
        c = cs[0]
        st = A.enclosing_stmt(c)
        direct = A.block_of(st)[0] is loop
        ctx.check(R, c, "`%s` appended unconditionally" % acc, direct, "the append is nested under `%s`" % (A.unparse(A.guards_of(c, stop=loop)[0][0]) if A.guards_of(c, stop=loop) else "a compound statement"), key="uncond:" + acc)
        v = A.inline_temporaries(c.args[0], st, fn) if False else c.args[0]
        ok = any(canon(v) == canon(parse(w)) for w in want[acc])
        ctx.check(R, c, "`%s` takes the matching piece of the same source" % acc, ok, "appends `%s`" % A.unparse(v)[:60], key="value:" + acc)
    # d is data[k]
    dd = [s for s in loop.body if isinstance(s, ast.Assign) and canon(s.targets[0]) == "d"]
    ctx.check(R, loop, "d is the source stored under key k", len(dd) == 1 and canon(dd[0].value) == canon(parse("data[%s]" % k)), "d = %s" % (A.unparse(dd[0].value) if dd else None), key="d")
    # the common unit: assigned only when still None
    ru = [s for s in A.walk_local(loop) if isinstance(s, ast.Assign) and canon(s.targets[0]) == "rv_unit"]
    oku = len(ru) == 1 and canon(ru[0].value) == canon(parse("d.rv.unit")) and [(canon(t), pol) for t, pol in A.guards_of(ru[0], stop=loop)] == [(canon(parse("rv_unit is None")), True)]
    ctx.check(R, loop, "one common velocity unit, fixed by the first source", oku,
              "rv_unit is (re)assigned %s: sources stripped in different units are labelled with one unit" % ("on every iteration" if ru and not A.guards_of(ru[0], stop=loop) else "%d times" % len(ru)), key="unit")
    # concatenations
    after = {}
    for s in fn.body:
        if isinstance(s, ast.Assign) and canon(s.targets[0]) in ACC and s.lineno > loop.lineno:
            after.setdefault(canon(s.targets[0]), []).append(s)
    wantc = {"t": "np.concatenate(t)", "rv": "np.concatenate(rv) * rv_unit", "err": "np.concatenate(err) * rv_unit", "ids": "np.concatenate(ids)"}
    for acc in ACC:
        ss = after.get(acc, [])
        ok = len(ss) == 1 and canon(ss[0].value) == canon(parse(wantc[acc]))
        if acc == "ids" and len(ss) >= 1:
            ok = canon(ss[0].value) == canon(parse(wantc[acc]))   # a later re-alignment of ids is judged by C08-ORDER
        ctx.check(R, ss[0] if ss else fn, "`%s` concatenated once, in source order" % acc, ok, "%s = %s" % (acc, [A.unparse(s.value)[:50] for s in ss]), key="concat:" + acc)
    # merged object
    rv = [c for c in A.calls_in(fn) if A.call_name(c) == "RVData"]
    okm = len(rv) == 1 and canon(A.get_arg(rv[0], None, "t")) == canon(parse("Time(t, format='mjd', scale='tcb')")) and canon(A.get_arg(rv[0], None, "rv")) == "rv" and canon(A.get_arg(rv[0], None, "rv_err")) == "err"
    ctx.check(R, rv[0] if rv else fn, "merged RVData(t as TCB MJD, rv, err)", okm, "merged object is `%s`" % (A.unparse(rv[0])[:80] if rv else None), key="merge")
    # list -> dict keyed by position
    en = [l for l in A.walk_local(fn) if isinstance(l, ast.For) and isinstance(l.iter, ast.Call) and A.call_name(l.iter) == "enumerate" and canon(l.iter.args[0]) == "data"]
    okl = len(en) == 1 and len(en[0].body) == 1 and canon(en[0].body[0]) == canon(ast.parse("_d[%s] = %s" % (en[0].target.elts[0].id, en[0].target.elts[1].id)).body[0]) if en and isinstance(en[0].target, ast.Tuple) else False
    ctx.check(R, en[0] if en else fn, "list input keyed by position (first source = smallest id = reference)", okl, "list sources are not stored under their position", key="list")
    return fn, loop, rv[0] if rv else None


def rvdata_sorts(ctx):
    from .C15 import _applications
    init = ctx.prog.func(DT, "RVData.__init__", "C08-ORDER")
    return any(isinstance(s.value, ast.Call) and A.last_attr(s.value) == "argsort" for s in A.walk_local(init) if isinstance(s, ast.Assign) and isinstance(s.targets[0], ast.Name)) and bool(_applications(init))


def check_order(ctx, fn, merged_call):
    R = "C08-ORDER"
    ctx.rule(R, "row-order domain: RVData(...) stores rows in time-sorted order (derived from RVData.__init__, C15); every per-epoch array used together with the merged "
                "object - passed with it to get_trend_design_matrix, or returned in the same tuple - must carry the same row order (re-aligned with the argsort of the same "
                "times, or all arrays pre-sorted with one permutation).")
    if merged_call is None:
        return
    if not rvdata_sorts(ctx):
        ctx.ok(R, fn, "RVData keeps input order", "RVData.__init__ no longer sorts: concatenation order is the row order", nontrivial=False)
        return
    mstmt = A.enclosing_stmt(merged_call)
    flow = A.Flow(fn)
    uses = []
    for n in A.walk_local(fn):
        if isinstance(n, ast.Name) and n.id == "ids" and isinstance(n.ctx, ast.Load) and n.lineno > mstmt.lineno:
            st = A.enclosing_stmt(n)
            uses.append((n, st))
    n_uses = 0
    for n, st in uses:
        if isinstance(st, ast.Assign) and canon(st.targets[0]) == "ids":
            continue  # a re-alignment statement itself
        n_uses += 1
        r = flow.resolve(n, at=st)
        txt = A.unparse(r)
        t_at_merge = flow.resolve(ast.Name(id="t", ctx=ast.Load()), at=mstmt)
        aligned = _presorted(fn, mstmt)
        if isinstance(r, ast.Subscript) and isinstance(r.slice, ast.Call) and A.last_attr(r.slice) == "argsort":
            key_arr = r.slice.args[0] if r.slice.args and (A.call_name(r.slice) or "").startswith("np.") else (r.slice.func.value if isinstance(r.slice.func, ast.Attribute) else None)
            if key_arr is not None and (canon(key_arr) == canon(t_at_merge)):
                aligned = True
        what = "passed to %s with the merged data" % A.call_name(A.parent(n)) if isinstance(A.parent(n), ast.Call) else "returned next to the merged data"
        if aligned:
            ctx.ok(R, st, "ids %s are in the merged object's row order" % what, "re-aligned by the time argsort")
        elif canon(r) == canon(parse("np.concatenate(ids)")) or "argsort" not in txt and "sort" not in txt:
            ctx.violate(R, st, "ids %s are in the merged object's row order" % what,
                        "`ids` keeps the concatenation order while the merged RVData is time-sorted: for interleaved surveys epochs are labelled with the wrong survey",
                        key="ids@" + ("call" if isinstance(A.parent(n), ast.Call) else "return"))
        else:
            ctx.violate(R, st, "ids %s are in the merged object's row order" % what,
                        "`ids` is re-ordered as `%s`, which is not the argsort of the merged times: labels and observations are permuted differently" % txt[:80],
                        key="ids-reordered@" + ("call" if isinstance(A.parent(n), ast.Call) else "return"))
    ctx.floor(R, n_uses, 2)


def _presorted(fn, mstmt):
    """all four arrays permuted by one argsort before the merge"""
    perm = [s for s in fn.body if isinstance(s, ast.Assign) and isinstance(s.value, ast.Call) and A.last_attr(s.value) == "argsort" and s.lineno < mstmt.lineno]
    if not perm:
        return False
    p = canon(perm[0].targets[0])
    done = {canon(s.targets[0]) for s in fn.body if isinstance(s, ast.Assign) and isinstance(s.value, ast.Subscript) and canon(s.value.slice) == p and canon(s.value.value) == canon(s.targets[0]) and s.lineno < mstmt.lineno}
    return set(ACC) <= done


def check_col(ctx):
    R = "C08-COL"
    ctx.rule(R, "get_constant_term_design_matrix: column 0 is all ones; column j+1 is the indicator (boolean mask ids == id) of the (j+1)-th sorted unique id "
                "(enumerate(unique[1:]) paired with j+1); the matrix has one column per unique id; the trend matrix stacks it before vander(t - t_ref, increasing)[:, 1:]; "
                "the count check len(unique(ids)) - 1 != n_offsets -> raise dominates the merge; offset priors keep the caller's order.")
    fn = ctx.prog.func(LH, "get_constant_term_design_matrix", R)
    unq = [s for s in fn.body if isinstance(s, ast.Assign) and isinstance(s.value, ast.Call) and A.call_name(s.value) == "np.unique"]
    oku = len(unq) == 1 and canon(unq[0].value) == canon(parse("np.unique(ids)"))
    ctx.check(R, fn, "unique ids from the ids array", oku, "unique ids = %s" % (A.unparse(unq[0].value) if unq else None), key="unique")
    uname = canon(unq[0].targets[0]) if unq else "unq_ids"
    alloc = [s for s in fn.body if isinstance(s, ast.Assign) and isinstance(s.value, ast.Call) and A.call_name(s.value) == "np.zeros"]
    oka = len(alloc) == 1 and canon(alloc[0].value.args[0]) == canon(parse("(len(data), len(%s))" % uname))
    ctx.check(R, fn, "one column per unique id, one row per epoch", oka, "allocation %s" % (A.unparse(alloc[0].value) if alloc else None), key="alloc")
    M = canon(alloc[0].targets[0]) if alloc else "constant_part"
    c0 = [s for s in fn.body if isinstance(s, ast.Assign) and canon(s.targets[0]) == canon(parse("%s[:, 0]" % M))]
    ctx.check(R, fn, "column 0 is all ones (every epoch has the reference velocity)", len(c0) == 1 and A.const_value(c0[0].value) in (1, 1.0), "column 0 = %s" % (A.unparse(c0[0].value) if c0 else None), key="col0")
    loops = [l for l in fn.body if isinstance(l, ast.For)]
    ok = False
    why = "no loop over the further unique ids"
    if len(loops) == 1:
        l = loops[0]
        it = l.iter
        if isinstance(it, ast.Call) and A.call_name(it) == "enumerate" and canon(it.args[0]) == canon(parse("%s[1:]" % uname)) and isinstance(l.target, ast.Tuple):
            j, idn = l.target.elts[0].id, l.target.elts[1].id
            st = [s for s in l.body if isinstance(s, ast.Assign)]
            if len(st) == 1 and len(l.body) == 1:
                tgt = st[0].targets[0]
                want = canon(parse("%s[ids == %s, %s + 1]" % (M, idn, j)))
                ok = canon(tgt) == want and A.const_value(st[0].value) in (1, 1.0)
                why = "loop body stores `%s = %s`, expected indicator of `ids == id` in column j + 1" % (A.unparse(tgt), A.unparse(st[0].value))
            else:
                why = "loop body is not the single indicator store (rows must be selected by the mask ids == id, not by position)"
        else:
            why = "loop is `for %s in %s`, not enumerate(unique[1:])" % (A.unparse(l.target), A.unparse(it))
    ctx.check(R, fn, "column j+1 = indicator of the (j+1)-th unique id", ok, why, key="indicator")
    rets = [s for s in A.walk_local(fn) if isinstance(s, ast.Return)]
    ctx.check(R, fn, "returns the filled matrix", len(rets) == 1 and canon(rets[0].value) == M, "returns %s" % (A.unparse(rets[0].value) if rets else None), key="ret", nontrivial=False)
    idsdef = [s for s in fn.body if isinstance(s, ast.Assign) and canon(s.targets[0]) == "ids"]
    ctx.check(R, fn, "ids only normalised to an array", all(canon(s.value) == canon(parse("np.array(ids)")) for s in idsdef), "ids rewritten as %s" % [A.unparse(s.value) for s in idsdef], key="ids-norm", nontrivial=False)
    # trend matrix
    tf = ctx.prog.func(LH, "get_trend_design_matrix", R)
    flow = A.Flow(tf)
    rets = flow.returns
    okt = False
    why = "no return"
    if len(rets) == 1:
        v = rets[0][0]
        want = "np.hstack((get_constant_term_design_matrix(data, ids), np.vander(data._t_bmjd - data._t_ref_bmjd, N=poly_trend, increasing=True)[:, 1:]))"
        okt = canon(v) == canon(parse(want))
        why = "returns `%s`" % A.unparse(v)[:140]
    ctx.check(R, tf, "trend matrix = [constant/offset columns | (t - t_ref)^1.. ]", okt, why, key="trend")
    # count check dominates the merge
    vp = ctx.prog.func(DH, "validate_prepare_data", R)
    g = [s for s in vp.body if isinstance(s, ast.If) and A.always_raises(s.body) and A.nnf(s.test) == A.nnf_of_src("len(np.unique(ids)) - 1 != n_offsets")]
    rv = [A.enclosing_stmt(c) for c in A.calls_in(vp) if A.call_name(c) == "RVData"]
    ctx.check(R, vp, "source-count check precedes the merge", len(g) == 1 and bool(rv) and g[0].lineno < rv[0].lineno, "no dominating `len(unique(ids)) - 1 != n_offsets -> raise`", key="count")
    tm = [c for c in A.calls_in(vp) if A.call_name(c) == "get_trend_design_matrix"]
    okc = all(canon(c.args[0]) in ("all_data", "data") and canon(c.args[2]) == "poly_trend" for c in tm) and len(tm) == 2
    multi = [c for c in tm if canon(c.args[0]) == "all_data"]
    okc = okc and len(multi) == 1 and canon(multi[0].args[1]) == "ids"
    ctx.check(R, vp, "design matrix built from the merged data and its ids", okc, "get_trend_design_matrix calls: %s" % [A.unparse(c)[:50] for c in tm], key="tm-call")
    # offsets keep the caller's order (k-th further source <-> v0_offsets[k-1])
    init = ctx.prog.func(PR, "JokerPrior.__init__", R)
    st = [s for s in A.walk_local(init) if isinstance(s, ast.Assign) and dotted(s.targets[0]) == "self.v0_offsets"]
    flow = A.Flow(init)
    oko = len(st) == 1
    if oko:
        v = flow.resolve(st[0].value, at=st[0])
        leaves = {canon(x) for x in A.strip_ifexp(v)}
        oko = leaves <= {canon(parse("list(v0_offsets)")), canon(parse("list([])")), canon(parse("[]"))} or leaves == {canon(parse("list([] if v0_offsets is None else v0_offsets)"))}
        why = "self.v0_offsets = %s" % A.unparse(v)[:80]
    else:
        why = "self.v0_offsets assigned %d times" % len(st)
    ctx.check(R, init, "offset priors are stored in the order given", oko, why + ": the k-th further source would get another offset's prior and name", key="offset-order")
    no = ctx.prog.func(PR, "JokerPrior.n_offsets", R)
    rr = [s for s in A.walk_local(no) if isinstance(s, ast.Return)]
    ctx.check(R, no, "n_offsets = number of offset priors", len(rr) == 1 and canon(rr[0].value) == canon(parse("len(self.v0_offsets)")), "n_offsets = %s" % (A.unparse(rr[0].value) if rr else None), key="n_offsets", nontrivial=False)


def run(ctx):
    res = check_lock(ctx)
    if res:
        fn, loop, merged = res
        check_order(ctx, fn, merged)
    check_col(ctx)
    ctx.assume("np.unique returns sorted unique values; boolean-mask row assignment touches exactly the masked rows")
    ctx.assume("RVData row order = time-sorted finite subset (decided by C15-LOCK)")
