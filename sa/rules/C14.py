"""C14 - iterative rejection sampling respects request, budget and acceptance rule."""
import ast

from .. import astutil as A
from ..norm import canon, parse, dotted, rat, cmp_parts, equal, NormError
from . import _rej
from .C02 import check_acc, check_trunc, rows_arg

TJ = "thejoker.thejoker"
EXC_NAMES = {"Exception", "RuntimeError", "ValueError", "TypeError", "KeyError", "IndexError", "OSError", "IOError", "NotImplementedError",
             "ArithmeticError", "FloatingPointError", "StopIteration", "AssertionError", "AttributeError", "LookupError", "MemoryError", "UnitsError"}


def check_raise(ctx, S):
    R = "C14-RAISE"
    q = S.name
    mfs_names = set()
    n = 0
    for v, st in S.flow.returns:
        n += 1
        raw = st.value
        label = "%s: return `%s`" % (q, A.unparse(raw)[:50] if raw is not None else "None")
        if raw is None or (isinstance(raw, ast.Constant) and raw.value is None):
            ctx.violate(R, st, label, "returns None instead of raising: the caller receives no JokerSamples and no error", key=q + ":none")
            continue
        if isinstance(raw, ast.Call) and ((A.call_name(raw) or "").split(".")[-1] in EXC_NAMES or (A.call_name(raw) or "").endswith("Error")):
            ctx.violate(R, st, label, "an exception object is *returned*, not raised: the failure never surfaces", key=q + ":exc:" + (A.call_name(raw) or ""))
            continue
        leaves = A.strip_ifexp(v)
        ok = all(isinstance(l, ast.Call) and (A.last_attr(l) or "").startswith("make_full_samples") for l in leaves)
        ctx.check(R, st, label, ok, "returns `%s`, which is not the JokerSamples built by make_full_samples*" % A.unparse(v)[:60], key=q + ":ret")
    ctx.check(R, S.fn, "%s has a return" % q, n >= 1, "no return statement", key=q + ":noret", nontrivial=False)
    # exceptions constructed but neither raised nor returned (expression statements)
    for st in A.walk_local(S.fn):
        if isinstance(st, ast.Expr) and isinstance(st.value, ast.Call) and ((A.call_name(st.value) or "").split(".")[-1] in EXC_NAMES):
            ctx.violate(R, st, "%s: exception constructed and dropped" % q, "`%s` builds an exception without raising it" % A.unparse(st.value)[:50], key=q + ":dropped")


def find_loop(S):
    loops = [n for n in A.walk_local(S.fn) if isinstance(n, (ast.For, ast.While))]
    return loops[0] if len(loops) == 1 else None


def check_chain(ctx, S, R="C14-CHAIN"):
    """cursor chain of the grow-and-retest loop"""
    q = S.name
    loop = find_loop(S)
    if loop is None:
        ctx.undecided(R, S.fn, "%s: iteration loop" % q, "expected exactly one loop")
        return
    flow = S.flow
    # the evaluation call inside the loop
    evs = [c for c in A.calls_in(loop) if (A.last_attr(c) or "").startswith("marginal_ln_likelihood")]
    if len(evs) != 1:
        ctx.undecided(R, loop, "%s: likelihood evaluation in the loop" % q, "found %d evaluation calls" % len(evs))
        return
    ev = evs[0]
    if A.last_attr(ev) == "marginal_ln_likelihood_inmem":
        win = A.get_arg(ev, 1, "prior_samples_batch")
    else:
        win = A.get_arg(ev, 5, "samples_idx")
        nps = A.get_arg(ev, 4, "n_prior_samples")
        ctx.check(R, ev, "%s: window given as explicit rows" % q, win is not None and (nps is None or A.const_value(nps) is None and isinstance(nps, ast.Constant)),
                  "the evaluation call is not restricted to an explicit window of rows", key=q + ":rows")
    if win is None:
        ctx.violate(R, ev, "%s: evaluation window" % q, "no window argument: every iteration evaluates the whole library", key=q + ":win")
        return
    w = flow.resolve(win, at=A.enclosing_stmt(ev))
    if not (isinstance(w, ast.Subscript) and isinstance(w.slice, ast.Slice) and w.slice.lower is not None and w.slice.upper is not None and w.slice.step is None):
        ctx.violate(R, ev, "%s: window is X[cursor : cursor + size]" % q, "window `%s` is not a contiguous slice" % A.unparse(w)[:70], key=q + ":winshape")
        return
    lo, hi, src = w.slice.lower, w.slice.upper, w.value
    if not (isinstance(lo, ast.Name) and "@loop" in lo.id):
        ctx.violate(R, ev, "%s: window starts at the loop-carried cursor" % q, "window starts at `%s`" % A.unparse(lo), key=q + ":lo")
        return
    cur = lo.id.split("@")[0]
    try:
        size_r = rat(hi) - rat(lo)
    except (NormError, ZeroDivisionError):
        ctx.undecided(R, ev, "%s: window size" % q, "non-arithmetic bound")
        return
    size_atoms = size_r.atoms()
    size_names = [a for a in size_atoms]
    from ..norm import Rat, Poly
    if len(size_names) != 1 or "@loop" not in size_names[0] or not (size_r - Rat(Poly.atom(size_names[0]))).is_zero():
        ctx.violate(R, ev, "%s: window is [cursor, cursor + size)" % q, "window length `%s` is not the loop-carried batch size" % size_r, key=q + ":size")
        return
    size = size_names[0].split("@")[0]
    size_sym = A.opaque(size_names[0])
    ctx.ok(R, ev, "%s: window = %s[%s : %s + %s]" % (q, A.unparse(src)[:30], cur, cur, size), "consecutive window of the loop-carried cursor and size")
    # ---- source of rows: batch param, or index map arange / choice(replace=False)
    limit = None
    if A.last_attr(ev) == "marginal_ln_likelihood_inmem":
        ctx.check(R, ev, "%s: window cut from the library argument" % q, canon(src) == "prior_samples_batch", "window is cut from `%s`" % A.unparse(src)[:40], key=q + ":src")
    else:
        for leaf in A.strip_ifexp(src):
            if isinstance(leaf, ast.Call) and A.last_attr(leaf) == "choice":
                ctx.check(R, ev, "%s: random row order never repeats a row" % q, A.const_value(A.get_arg(leaf, None, "replace")) is False,
                          "rng.choice(..., replace=%s) can evaluate the same library row twice" % A.unparse(A.get_arg(leaf, None, "replace") or ast.Constant(value="default True")), key=q + ":replace")
            elif isinstance(leaf, ast.Call) and (A.call_name(leaf) or "").endswith("arange"):
                ctx.ok(R, ev, "%s: natural row order is arange" % q, "")
            elif isinstance(leaf, ast.Subscript) and isinstance(leaf.slice, ast.Slice) and isinstance(leaf.value, ast.Call) and A.last_attr(leaf.value) in ("permutation", "arange") and _rej.is_prefix_slice(leaf.slice):
                ctx.ok(R, ev, "%s: row order is a prefix of a permutation" % q, "")
            elif isinstance(leaf, ast.Call) and A.last_attr(leaf) in ("resize", "tile", "repeat", "integers", "randint", "take", "pad"):
                ctx.violate(R, ev, "%s: no library row is evaluated twice" % q,
                            "row order is built with `%s(...)`, which repeats rows (e.g. when the budget exceeds the library): the same prior sample is evaluated and can be returned more than once" % A.last_attr(leaf),
                            key=q + ":repeat-source")
            else:
                ctx.undecided(R, ev, "%s: index source" % q, "row source `%s` is neither arange nor choice" % A.unparse(leaf)[:50])
    # ---- cursor advance: at the end of the body (fall-through path) cursor == cursor@loop + size@loop
    last = loop.body[-1]
    endc = flow.env_after[last].get(cur)
    ok = endc is not None
    if ok:
        try:
            ok = (rat(endc) - rat(lo) - rat(size_sym)).is_zero()
        except (NormError, ZeroDivisionError):
            ok = False
    ctx.check(R, loop, "%s: cursor advances by the size just evaluated" % q, ok,
              "at the end of an iteration the cursor is `%s`, not cursor + <size of the window just evaluated>: windows overlap or skip rows, and positions in the accumulated array no longer match the row map"
              % (A.unparse(endc)[:80] if endc is not None else "unchanged"), key=q + ":advance")
    # ---- clamp and stop
    ends = flow.env_after[last].get(size)
    LIMIT = None
    # find `if cursor + size > LIMIT: size = LIMIT - cursor`
    clamp = None
    okc = oks = False
    setv = None
    for st in loop.body:
        if isinstance(st, ast.If) and not st.orelse and len(st.body) == 1 and isinstance(st.body[0], ast.Assign) and canon(st.body[0].targets[0]) == size:
            p = cmp_parts(st.test)
            if p and p[0] in (">", ">="):
                clamp = (st, p)
                op, a, b = p
                try:
                    okc = (rat(a) - rat(parse("%s + %s" % (cur, size)))).is_zero()
                except (NormError, ZeroDivisionError):
                    okc = False
                LIMIT = b
                setv = st.body[0].value
                try:
                    oks = (rat(setv) - (rat(b) - rat(parse(cur)))).is_zero()
                except (NormError, ZeroDivisionError):
                    oks = False
        elif isinstance(st, ast.Assign) and canon(st.targets[0]) == size and isinstance(st.value, ast.Call) and A.call_name(st.value) in ("min", "np.minimum") \
                and len(st.value.args) == 2 and not st.value.keywords and any(canon(x) == size for x in st.value.args):
            # size = min(size, LIMIT - cursor): the same clamp in closed form
            other = [x for x in st.value.args if canon(x) != size]
            if len(other) == 1:
                setv = other[0]
                LIMIT = ast.BinOp(left=A.clone(setv), op=ast.Add(), right=ast.Name(id=cur, ctx=ast.Load()))
                ast.fix_missing_locations(LIMIT)
                try:
                    r = rat(LIMIT)
                    LIMIT = _limit_expr(setv, cur) or LIMIT
                    okc = oks = True
                except (NormError, ZeroDivisionError):
                    okc = oks = False
                clamp = (st, (">", None, LIMIT))
    if clamp is None:
        ctx.violate(R, loop, "%s: next batch clamped to the budget" % q, "no `if cursor + size > LIMIT: size = LIMIT - cursor` (or `size = min(size, LIMIT - cursor)`) in the loop: the sampler can run past the library / max_prior_samples", key=q + ":clamp")
    else:
        st, (op, a, b) = clamp
        ctx.check(R, st, "%s: clamp tests cursor + size against the budget" % q, okc, "clamp tests `%s`" % A.unparse(st.test if isinstance(st, ast.If) else st.value), key=q + ":clamp-test")
        ctx.check(R, st, "%s: clamp sets size = LIMIT - cursor" % q, oks, "clamp assigns `%s`, expected %s - %s" % (A.unparse(setv), A.unparse(b), cur), key=q + ":clamp-set")
        # clamp must come after the cursor advance and the recomputation
        adv = [s for s in loop.body if isinstance(s, (ast.AugAssign, ast.Assign)) and canon(s.target if isinstance(s, ast.AugAssign) else s.targets[0]) == cur]
        rec = [s for s in loop.body if isinstance(s, ast.Assign) and canon(s.targets[0]) == size and s is not st]
        pos = {id(s): i for i, s in enumerate(loop.body)}
        ok_order = bool(adv) and all(pos[id(x)] < pos[id(st)] for x in adv + rec if id(x) in pos)
        ctx.check(R, st, "%s: clamp follows the cursor advance and the size recomputation" % q, ok_order, "clamp is evaluated before the cursor/size it must bound are updated", key=q + ":clamp-order")
    stops = [s for s in loop.body if isinstance(s, ast.If) and len(s.body) == 1 and isinstance(s.body[0], ast.Break) and size in A.unparse(s.test)]
    ok_stop = False
    for s in stops:
        p = cmp_parts(s.test)
        # size <= 0  ==  0 >= size
        if p and p[0] == ">=" and canon(p[2]) == size and A.const_value(p[1]) == 0:
            ok_stop = True
        if p and p[0] == ">" and canon(p[2]) == size and A.const_value(p[1]) == 1:
            ok_stop = True
    ctx.check(R, loop, "%s: stops when the budget is exhausted (size <= 0)" % q, ok_stop,
              "no `if size <= 0: break`: an exhausted library leads to empty or negative windows", key=q + ":stop")
    # ---- the budget symbol: same LIMIT in pre-loop check, clamp and row map
    pre = [s for s in A.exit_guards_before(loop) if A.always_raises(s.body)]
    okpre = False
    pre_limit = None
    for s in pre:
        p = cmp_parts(s.test)
        if p and p[0] == ">" and canon(p[1]) == size:
            okpre = True
            pre_limit = p[2]
    ctx.check(R, loop, "%s: too-small library raises before the loop" % q, okpre,
              "no dominating `if size > LIMIT: raise` before the loop", key=q + ":precheck")
    budget = "max_prior_samples"
    if LIMIT is not None:
        lim_r = flow.resolve(LIMIT, at=clamp[0])
        names = {x.id.split("@")[0] for x in ast.walk(lim_r) if isinstance(x, ast.Name)}
        ctx.check(R, clamp[0], "%s: the clamp limit honours %s" % (q, budget), budget in names,
                  "clamp limit `%s` does not depend on %s: the sampler can evaluate more prior samples than allowed" % (A.unparse(lim_r)[:60], budget), key=q + ":limit-budget")
        if pre_limit is not None:
            ctx.check(R, clamp[0], "%s: one budget in pre-check and clamp" % q, canon(flow.resolve(pre_limit, at=loop)) == canon(lim_r),
                      "pre-loop check uses `%s`, clamp uses `%s`" % (A.unparse(pre_limit), A.unparse(LIMIT)), key=q + ":limit-same")
    # rows of the final selection come through the same map the windows were cut from
    ra = rows_arg(S)
    if ra and ra[1] is not None:
        sel = ra[1].slice if ra[2] == "inmem" and isinstance(ra[1], ast.Subscript) else ra[1]
        shapes = _rej.idx_shape(sel)
        if A.last_attr(ev) != "marginal_ln_likelihood_inmem":
            okm = all(sh[0] == "M[G]" and canon(sh[1]) == canon(src) for sh in shapes)
            ctx.check(R, ra[0], "%s: accepted positions mapped through the row order that was evaluated" % q, okm,
                      "final rows `%s` do not use the same row map as the evaluated windows (`%s`)" % (A.unparse(sel)[:60], A.unparse(src)[:40]), key=q + ":map")
        else:
            okm = all(sh[0] == "G" or (sh[0] == "M[G]" and _is_arange(sh[1])) for sh in shapes)
            ctx.check(R, ra[0], "%s: accepted positions are library rows (identity order)" % q, okm, "final rows `%s`" % A.unparse(sel)[:60], key=q + ":map")
    return True


def _limit_expr(setv, cur):
    """setv = L - cur  ->  L  (when the difference is spelled that way)"""
    if isinstance(setv, ast.BinOp) and isinstance(setv.op, ast.Sub) and canon(setv.right) == cur:
        return setv.left
    return None


def _is_arange(M):
    return isinstance(M, ast.Call) and (A.call_name(M) or "").endswith("arange")


def check_budget(ctx, sites):
    R = "C14-BUDGET"
    ctx.rule(R, "both siblings take max_prior_samples and the API forwards it on both paths; a None budget means the library size.")
    for S in sites:
        ctx.check(R, S.fn, "%s accepts max_prior_samples" % S.name, "max_prior_samples" in A.param_names(S.fn),
                  "no max_prior_samples parameter: the in-memory/file sibling cannot honour the budget", key=S.name + ":param")
    fn = ctx.prog.func(TJ, "TheJoker.iterative_rejection_sample", R)
    for callee in ("iterative_rejection_inmem", "iterative_rejection_helper"):
        cs = A.find_calls(fn, callee)
        for c in cs:
            v = A.get_arg(c, None, "max_prior_samples")
            ctx.check(R, c, "API forwards max_prior_samples to %s" % callee, v is not None and canon(v) == "max_prior_samples",
                      "max_prior_samples=%s" % (A.unparse(v) if v is not None else "not passed"), key="api:" + callee)
            for name in ("n_requested_samples", "init_batch_size", "growth_factor", "n_linear_samples"):
                v = A.get_arg(c, None, name)
                ctx.check(R, c, "API forwards %s to %s" % (name, callee), v is not None and canon(v) == name, "%s=%s" % (name, A.unparse(v) if v is not None else "not passed"),
                          key="api:%s:%s" % (callee, name), nontrivial=False)
        ctx.check(R, fn, "API calls %s" % callee, len(cs) == 1, "found %d calls" % len(cs), key="api-call:" + callee, nontrivial=False)


def check_nonfinite(ctx, S):
    R = "C14-GUARD"
    # a failing evaluation (non-finite / empty) must raise, and "no good samples" must raise
    g = None
    if S.acc is not None:
        cands = [A.unparse(S.acc_expr)] + ([S.gname] if S.gname else [])
        for c in cands:
            # the accepted index is a 1-D array: len(G), G.size and G.shape[0] are the same number
            for spec in ("len(%s) == 0", "%s.size == 0", "%s.shape[0] == 0", "not len(%s)", "not %s.size", "len(%s) < 1", "%s.size < 1"):
                g = g or A.find_raising_guard(S.fn, A.nnf_of_src(spec % c))
    ctx.check(R, g or S.fn, "%s: an empty accepted set raises" % S.name, g is not None, "no raise when the accepted index is empty", key=S.name + ":nogood")
    loop = find_loop(S)
    if isinstance(loop, ast.For):
        okelse = bool(loop.orelse) and A.always_raises(loop.orelse)
        ctx.check(R, loop, "%s: running out of iterations raises" % S.name, okelse, "the for/else exhaustion branch does not raise", key=S.name + ":maxiter")


def check_wrapper(ctx):
    R = "C14-WRAP"
    ctx.rule(R, "the tempfile wrapper around iterative_rejection_helper lets every failure surface: its handlers re-raise and its finally block contains no "
                "return / break / continue (shared with C13-TMP); the file-path helper is the decorated one.")
    ut = ctx.prog.func("thejoker.utils", "tempfile_decorator.wrapper", R)
    n = 0
    for t in A.walk_local(ut):
        if isinstance(t, ast.Try):
            n += 1
            jumps = [x for s in t.finalbody for x in A.walk_local(s) if isinstance(x, (ast.Return, ast.Break, ast.Continue))]
            ctx.check(R, t, "wrapper: finally does not discard the exception", not jumps, "`%s` inside finally: a failing sampler call returns normally (None) instead of raising" % (A.unparse(jumps[0])[:40] if jumps else ""), key="finally-jump")
            for h in t.handlers:
                ctx.check(R, h, "wrapper: handler re-raises", A.always_raises(h.body), "handler swallows the failure", key="handler")
    ctx.floor(R, n, 1)
    rets = [s for s in A.walk_local(ut) if isinstance(s, ast.Return)]
    ctx.check(R, ut, "wrapper returns the wrapped call's result", bool(rets) and _wrapper_returns_call(ut), "returns %s" % [A.unparse(s.value) for s in rets if s.value is not None], key="ret", nontrivial=False)
    fn = ctx.prog.func(_rej.MP, "iterative_rejection_helper", R)
    decs = [canon(d) for d in fn.decorator_list]
    ctx.check(R, fn, "iterative_rejection_helper is wrapped by tempfile_decorator only", decs == ["tempfile_decorator"], "decorators: %s" % decs, key="deco", nontrivial=False)


def _wrapper_returns_call(ut):
    """every return of the wrapper hands back the value of a `func(*args, **kwargs)` call made in the wrapper"""
    fl = A.Flow(ut)
    if not fl.returns:
        return False
    for v, s in fl.returns:
        for leaf in A.strip_ifexp(v):
            if not (isinstance(leaf, ast.Call) and canon(leaf.func) in ("func", ut.name)):   # (the wrapper re-entered with the cache file name ends in the same call)
                return False
    return True


def run(ctx):
    ctx.rule("C14-RAISE", "no `return <exception>` / `return None`; every return is the object produced by make_full_samples*; no exception is built and dropped.")
    ctx.rule("C14-TRUNC", "the accepted index is prefix-sliced by exactly n_requested_samples before rows are selected.")
    ctx.rule("C14-CHAIN", "windows are X[cursor : cursor + size] over arange / choice(replace=False); the cursor advances by the size just evaluated; the next size is "
                          "clamped by `cursor + size > LIMIT -> size = LIMIT - cursor` after both updates; `size <= 0` stops; `size > LIMIT -> raise` dominates the loop; "
                          "LIMIT depends on max_prior_samples and is the same symbol everywhere; final rows go through the same row map.")
    ctx.rule("C14-ACC", "C02's acceptance normal form on the accumulated likelihood array.")
    ctx.rule("C14-GUARD", "an empty accepted set raises; for/else exhaustion raises.")
    sites = []
    for mod, name in _rej.SITES[2:]:
        S = _rej.analyze(ctx.prog, mod, name)
        sites.append(S)
        check_raise(ctx, S)
        check_trunc(ctx, S, R="C14-TRUNC")
        check_chain(ctx, S)
        check_acc(ctx, S, R="C14-ACC")
        check_nonfinite(ctx, S)
    check_budget(ctx, sites)
    check_wrapper(ctx)
    ctx.rule("C14-ROWS", "the batch readers return exactly the requested rows in the requested order (shared with C12-COL): the windows of the row map evaluate, and the final "
                         "selection returns, the rows the accumulated likelihoods belong to.")
    from .C12 import _reader_checks
    _reader_checks(ctx, "C14-ROWS", "read_batch_slice", "slice")
    _reader_checks(ctx, "C14-ROWS", "read_batch_idx", "idx")
    from .C07 import _Relabel
    from .C16 import check_batch_tasks, check_run_worker
    ctx.rule("C14-PART", "file path: position p of the accumulated likelihoods is row M[p] only if the batches come back as contiguous, ordered slices of the requested index "
                         "array (shared with C16-P / C16-RUN).")
    check_batch_tasks(_Relabel(ctx, {"C16-P": "C14-PART"}))
    check_run_worker(_Relabel(ctx, {"C16-RUN": "C14-PART"}))
    from .C06 import check_inmem_api
    ctx.rule("C14-INMEM", "in-memory path: the packed library reaches the sampler as packed - rows whole and in library order (no re-ordering / column-wise shuffling "
                          "between packing and the call) (shared with C06-INMEM).")
    check_inmem_api(_Relabel(ctx, {"C06-INMEM": "C14-INMEM"}))
    ctx.floor("C14-RAISE", ctx.count("C14-RAISE"), 4)
    ctx.floor("C14-CHAIN", ctx.count("C14-CHAIN"), 16)
    ctx.assume("Generator.choice(replace=False) returns distinct rows; np.arange(0, n, 1) is the identity map")
