"""C15 - RVData preserves the observations it is given (lock-step row selection)."""
import ast

from .. import astutil as A
from ..norm import canon, parse, dotted, equal

DT = "thejoker.data"
ARR = ("self._t_bmjd", "self.rv", "self.rv_err")


def _applications(fn):
    """[(stmt, attr, axis, selector name)] for `self.X = self.X[sel]` / `self.X = self.X[:, sel]`"""
    out = []
    for s in A.walk_local(fn):
        if isinstance(s, ast.Assign) and len(s.targets) == 1 and dotted(s.targets[0]) in ARR and isinstance(s.value, ast.Subscript) \
                and dotted(s.value.value) == dotted(s.targets[0]):
            sl = s.value.slice
            if isinstance(sl, ast.Name):
                out.append((s, dotted(s.targets[0]), 0, sl.id))
            elif isinstance(sl, ast.Tuple) and len(sl.elts) == 2 and isinstance(sl.elts[0], ast.Slice) and sl.elts[0].lower is None and sl.elts[0].upper is None \
                    and isinstance(sl.elts[1], ast.Name):
                out.append((s, dotted(s.targets[0]), 1, sl.elts[1].id))
            else:
                out.append((s, dotted(s.targets[0]), "?", A.unparse(sl)))
    return out


def _cov_pol(stmt):
    for t, pol in A.guards_of(stmt):
        if canon(t) == "self._has_cov":
            return pol
    return None


def check_lock(ctx):
    R = "C15-LOCK"
    ctx.rule(R, "RVData.__init__: each row selector (the finite mask under `clean`, the time argsort) is applied to all of _t_bmjd, rv, rv_err on axis 0 and to rv_err on "
                "axis 1 under _has_cov, before the next selector is computed; the mask is the conjunction of isfinite of all three arrays; the sort key is the time array. "
                "__getitem__ applies the same index to all three (rows and columns for covariances, as two successive selections).")
    fn = ctx.prog.func(DT, "RVData.__init__", R)
    apps = _applications(fn)
    # selector definitions, in order
    seldefs = [s for s in fn.body if False]
    sels = []
    for s in A.walk_local(fn):
        if isinstance(s, ast.Assign) and len(s.targets) == 1 and isinstance(s.targets[0], ast.Name) and any(a[3] == s.targets[0].id for a in apps):
            sels.append(s)
    sels.sort(key=lambda s: s.lineno)
    if len(sels) < 2:
        ctx.violate(R, fn, "two row selectors (finite mask, time sort)", "found %d selector definitions: observations are no longer both cleaned and time-ordered" % len(sels), key="selectors")
    kinds = {}
    for i, sd in enumerate(sels):
        name = sd.targets[0].id
        nxt = sels[i + 1].lineno if i + 1 < len(sels) else 10 ** 9
        mine = [a for a in apps if a[3] == name and sd.lineno < a[0].lineno < nxt]
        v = sd.value
        is_sort = (isinstance(v, ast.Call) and A.last_attr(v) == "argsort")
        kind = "time sort" if is_sort else "finite mask"
        kinds[kind] = (sd, mine)
        if is_sort:
            key = v.func.value if isinstance(v.func, ast.Attribute) and not (dotted(v.func.value) or "").startswith("np") else (v.args[0] if v.args else None)
            ctx.check(R, sd, "sort key is the time array", key is not None and dotted(key) == "self._t_bmjd", "rows are ordered by `%s`, not by time" % (A.unparse(key) if key is not None else None), key="sort-key")
            ctx.check(R, sd, "sorting is unconditional", not A.guards_of(sd), "the time sort only happens under %s" % [A.unparse(t) for t, _ in A.guards_of(sd)], key="sort-uncond")
        else:
            # mask: conjunction of isfinite over all three arrays (follow &= updates)
            txt = [v]
            for s in A.walk_local(fn):
                if isinstance(s, ast.AugAssign) and isinstance(s.target, ast.Name) and s.target.id == name and isinstance(s.op, ast.BitAnd) and sd.lineno < s.lineno < nxt:
                    txt.append(s.value)
            fin = set()
            for e in txt:
                for c in ast.walk(e):
                    if isinstance(c, ast.Call) and (A.call_name(c) or "").endswith("isfinite") and c.args and dotted(c.args[0]) in ARR:
                        fin.add(dotted(c.args[0]))
            ors = [e for e in txt for b in ast.walk(e) if isinstance(b, ast.BinOp) and isinstance(b.op, ast.BitOr)]
            ctx.check(R, sd, "mask = isfinite(t) & isfinite(rv) & isfinite(rv_err)", fin == set(ARR) and not ors,
                      "mask tests %s%s: observations with a non-finite %s survive cleaning" % (sorted(fin), " with |" if ors else "", sorted(set(ARR) - fin)), key="mask")
            g = [canon(t) for t, pol in A.guards_of(sd) if pol]
            ctx.check(R, sd, "cleaning only under clean=True", g == ["clean"], "mask is computed under %s" % g, key="mask-guard")
            # covariance variant reduces over one axis only for the cov case
        need = {("self._t_bmjd", 0, None), ("self.rv", 0, None), ("self.rv_err", 0, True), ("self.rv_err", 1, True), ("self.rv_err", 0, False)}
        got = set()
        for st, attr, axis, _ in mine:
            pol = _cov_pol(st)
            if attr != "self.rv_err":
                got.add((attr, axis, None) if pol is None else (attr, axis, pol))
            else:
                got.add((attr, axis, pol))
        missing = need - got
        extra = got - need
        ctx.check(R, sd, "%s applied to t, rv, rv_err (rows; rows+columns for covariances)" % kind, not missing and not extra,
                  "%s is not applied in lock-step: missing %s, unexpected %s" % (kind, sorted(str(m) for m in missing), sorted(str(e) for e in extra)), key="lock:" + kind)
        # for the covariance: row selection precedes column selection on the already row-selected matrix (order irrelevant), fine
    ctx.floor(R, len(sels), 2)
    # sort after clean
    if "time sort" in kinds and "finite mask" in kinds:
        ctx.check(R, kinds["time sort"][0], "sort computed after cleaning", kinds["time sort"][0].lineno > max([a[0].lineno for a in kinds["finite mask"][1]] or [0]),
                  "the sort permutation is computed before the non-finite rows are dropped", key="order")
    # nothing else rewrites the arrays after their initial conversion
    others = []
    first_sel = sels[0].lineno if sels else 0
    for s in A.walk_local(fn):
        if isinstance(s, (ast.Assign, ast.AugAssign)):
            tg = s.targets[0] if isinstance(s, ast.Assign) else s.target
            if dotted(tg) in ARR and s.lineno > first_sel and not any(s is a[0] for a in apps):
                others.append(s)
    ctx.check(R, fn, "no other rewrite of the arrays after selection starts", not others, "`%s` rewrites an array outside the lock-step selections" % (A.unparse(others[0])[:60] if others else ""), key="other-writes")
    # __getitem__
    gi = ctx.prog.func(DT, "RVData.__getitem__", R)
    calls = [c for c in A.calls_in(gi) if canon(c.func) == "self.__class__"]
    n = 0
    for c in calls:
        pol = _cov_pol(c)
        for kw, attr in (("t", "self.t"), ("rv", "self.rv"), ("rv_err", "self.rv_err")):
            v = A.get_arg(c, None, kw)
            n += 1
            if v is None:
                ctx.violate(R, c, "__getitem__ passes %s" % kw, "argument missing", key="getitem:%s:%s" % (kw, pol))
                continue
            vs = A.strip_casts(v)
            if kw == "rv_err" and pol is True:
                ok = (isinstance(vs, ast.Subscript) and isinstance(vs.slice, ast.Tuple) and len(vs.slice.elts) == 2 and isinstance(vs.slice.elts[0], ast.Slice)
                      and canon(vs.slice.elts[1]) == "slc" and isinstance(vs.value, ast.Subscript) and canon(vs.value.slice) == "slc" and dotted(vs.value.value) == attr)
                okix = isinstance(vs, ast.Subscript) and isinstance(vs.slice, ast.Call) and (A.call_name(vs.slice) or "").endswith("ix_")
                ctx.check(R, c, "covariance indexed on rows then columns", ok or okix,
                          "covariance selected as `%s`: a mask or index array then pairs row i with column i (the diagonal) instead of the sub-matrix" % A.unparse(v)[:60], key="getitem:cov")
            else:
                ok = isinstance(vs, ast.Subscript) and canon(vs.slice) == "slc" and dotted(vs.value) == attr
                ctx.check(R, c, "__getitem__ selects %s with the same index" % kw, ok, "%s=%s" % (kw, A.unparse(v)[:60]), key="getitem:%s:%s" % (kw, pol))
    ctx.check(R, gi, "__getitem__ covers both error kinds", len(calls) == 2, "found %d constructor calls" % len(calls), key="getitem:branches", nontrivial=False)


def check_ivar(ctx):
    R = "C15-IVAR"
    ctx.rule(R, "ivar = 1/rv_err**2 (diagonal) or inv(cov)/unit; cov = diag(rv_err**2) with squared unit, or the stored matrix; t = Time(_t_bmjd, tcb, mjd); "
                "Time inputs are stored as .tcb.mjd; velocities and errors are stored without unit change.")
    iv = ctx.prog.func(DT, "RVData.ivar", R)
    for v, s in A.Flow(iv).returns:
        pol = _cov_pol(s)
        if pol is True:
            ok = canon(s.value) == canon(parse("np.linalg.inv(self.rv_err.value) / self.rv_err.unit"))
            ctx.check(R, s, "ivar (covariance) = inv(cov) / unit", ok, "returns `%s`" % A.unparse(s.value), key="ivar-cov")
        else:
            ok = equal(s.value, parse("1 / self.rv_err**2"))
            ctx.check(R, s, "ivar (diagonal) = 1 / rv_err**2", ok, "returns `%s`" % A.unparse(s.value), key="ivar-diag")
    cv = ctx.prog.func(DT, "RVData.cov", R)
    for v, s in A.Flow(cv).returns:
        pol = _cov_pol(s)
        if pol is True:
            ctx.check(R, s, "cov (covariance) = stored matrix", canon(s.value) == "self.rv_err", "returns `%s`" % A.unparse(s.value), key="cov-cov")
        else:
            ok = canon(s.value) in (canon(parse("np.diag(self.rv_err.value**2) * self.rv_err.unit**2")), canon(parse("np.diag(self.rv_err**2)")))
            ctx.check(R, s, "cov (diagonal) = diag(rv_err**2)", ok, "returns `%s`" % A.unparse(s.value), key="cov-diag")
    tp = ctx.prog.func(DT, "RVData.t", R)
    rets = [s for s in A.walk_local(tp) if isinstance(s, ast.Return)]
    ok = len(rets) == 1 and isinstance(rets[0].value, ast.Call) and A.call_name(rets[0].value) == "Time" and canon(rets[0].value.args[0]) == "self._t_bmjd" \
        and A.str_const(A.get_arg(rets[0].value, None, "scale")) == "tcb" and A.str_const(A.get_arg(rets[0].value, None, "format")) == "mjd"
    ctx.check(R, tp, "t = Time(_t_bmjd, scale='tcb', format='mjd')", ok, "returns `%s`" % (A.unparse(rets[0].value) if rets else None), key="t")
    init = ctx.prog.func(DT, "RVData.__init__", R)
    flow = A.Flow(init)
    first = {}
    for s in init.body:
        if isinstance(s, ast.Assign) and dotted(s.targets[0]) in ARR and dotted(s.targets[0]) not in first:
            first[dotted(s.targets[0])] = flow.resolve(s.value, at=s)
    okt = "self._t_bmjd" in first and {canon(x) for x in A.strip_ifexp(first["self._t_bmjd"])} == {canon(parse("t.tcb.mjd")), canon(parse("np.atleast_1d(t)"))}
    ctx.check(R, init, "times stored as BMJD numbers (Time -> .tcb.mjd, arrays as given)", okt, "initial _t_bmjd = %s" % (A.unparse(first.get("self._t_bmjd"))[:70] if "self._t_bmjd" in first else None), key="t-in")
    okr = canon(first.get("self.rv")) == canon(parse("u.Quantity(np.atleast_1d(rv))")) and canon(first.get("self.rv_err")) == canon(parse("u.Quantity(np.atleast_1d(rv_err))"))
    ctx.check(R, init, "velocities / errors stored in the units supplied", okr, "rv = %s, rv_err = %s" % (canon(first.get("self.rv")), canon(first.get("self.rv_err"))), key="rv-in")
    # shape guards
    raises = [s for s in A.walk_local(init) if isinstance(s, ast.If) and A.always_raises(s.body)]
    shp = [s for s in raises if "shape" in A.unparse(s.test)]
    ctx.check(R, init, "shape mismatches raise", len(shp) >= 2, "found %d shape guards" % len(shp), key="shape", nontrivial=False)


def check_tref(ctx):
    R = "C15-TREF"
    ctx.rule(R, "the default reference epoch is the minimum of the object's own (cleaned, sorted) times, computed after selection; a given t_ref is stored unchanged and "
                "its TCB MJD cached; t_ref=False disables it.")
    init = ctx.prog.func(DT, "RVData.__init__", R)
    apps = _applications(init)
    last_app = max((a[0].lineno for a in apps), default=0)
    defs = [s for s in A.walk_local(init) if isinstance(s, ast.Assign) and canon(s.targets[0]) == "t_ref"]
    ok = False
    why = "no default for t_ref"
    for s in defs:
        g = [(canon(t), pol) for t, pol in A.guards_of(s)]
        if (canon(parse("t_ref is None")), True) in g:
            v = s.value
            names = {n.id for n in ast.walk(v) if isinstance(n, ast.Name)} - {"self", "np", "Time", "u"}
            from_self = canon(v) in (canon(parse("self.t.min()")), canon(parse("self.t[0]")), canon(parse("Time(self._t_bmjd.min(), scale='tcb', format='mjd')")),
                                     canon(parse("Time(self._t_bmjd[0], scale='tcb', format='mjd')")), canon(parse("Time(np.min(self._t_bmjd), scale='tcb', format='mjd')")))
            ok = from_self and s.lineno > last_app
            why = "default t_ref = `%s`%s" % (A.unparse(v)[:60], " reads the raw input (%s), which still contains the dropped observations" % sorted(names) if names else
                                               (" is computed before the rows are selected" if s.lineno <= last_app else ": not the earliest stored time"))
    ctx.check(R, init, "default t_ref = earliest stored time", ok, why, key="default")
    st = [s for s in A.walk_local(init) if isinstance(s, ast.Assign) and dotted(s.targets[0]) == "self.t_ref" and not (isinstance(s.value, ast.Constant))]
    ctx.check(R, init, "t_ref stored unchanged", len(st) == 1 and canon(st[0].value) == "t_ref", "self.t_ref = %s" % (A.unparse(st[0].value) if st else None), key="store")
    bm = [s for s in A.walk_local(init) if isinstance(s, ast.Assign) and dotted(s.targets[0]) == "self._t_ref_bmjd"]
    vals = sorted(canon(s.value) for s in bm)
    ctx.check(R, init, "_t_ref_bmjd = t_ref.tcb.mjd (0 when disabled)", vals == sorted([canon(parse("self.t_ref.tcb.mjd")), canon(parse("0.0"))]) or vals == sorted([canon(parse("t_ref.tcb.mjd")), canon(parse("0.0"))]),
              "_t_ref_bmjd takes %s" % vals, key="bmjd")
    ph = ctx.prog.func(DT, "RVData.phase", R)
    rets = [s for s in A.walk_local(ph) if isinstance(s, ast.Return)]
    okp = len(rets) == 1 and canon(rets[0].value) == canon(parse("((self.t - t_ref) / P) % 1.0"))
    ctx.check(R, ph, "phase = ((t - t_ref)/P) mod 1", okp, "returns `%s`" % (A.unparse(rets[0].value) if rets else None), key="phase")


def check_copy(ctx):
    R = "C15-COPY"
    ctx.rule(R, "__copy__ forwards every piece of constructor state (t, rv, rv_err, t_ref; a disabled t_ref stays disabled); copy() is __copy__.")
    fn = ctx.prog.func(DT, "RVData.__copy__", R)
    calls = [c for c in A.calls_in(fn) if canon(c.func) == "self.__class__"]
    if len(calls) != 1:
        ctx.undecided(R, fn, "constructor call", "expected one self.__class__(...) call")
        return
    c = calls[0]
    for kw, attr in (("t", "self.t"), ("rv", "self.rv"), ("rv_err", "self.rv_err")):
        v = A.get_arg(c, None, kw)
        ok = v is not None and dotted(A.strip_casts(v)) == attr
        ctx.check(R, c, "copy forwards %s" % kw, ok, "%s=%s" % (kw, A.unparse(v) if v is not None else "missing"), key="copy:" + kw)
    v = A.get_arg(c, None, "t_ref")
    ok = v is not None and "self.t_ref" in {canon(x) for x in A.strip_ifexp(v)}
    ctx.check(R, c, "copy forwards t_ref", ok, "t_ref=%s: the copy silently takes the earliest time as its reference epoch" % (A.unparse(v) if v is not None else "missing"), key="copy:t_ref")
    if ok and isinstance(v, ast.IfExp):
        okf = A.const_value(v.body) is False and canon(v.test) == canon(parse("self.t_ref is None"))
        ctx.check(R, c, "a disabled reference epoch stays disabled", okf, "t_ref=%s" % A.unparse(v), key="copy:disabled")
    cp = ctx.prog.func(DT, "RVData.copy", R)
    rets = [s for s in A.walk_local(cp) if isinstance(s, ast.Return)]
    ctx.check(R, cp, "copy() delegates to __copy__", len(rets) == 1 and canon(rets[0].value) == canon(parse("self.__copy__()")), "copy() returns `%s`" % (A.unparse(rets[0].value) if rets else None), key="copy()", nontrivial=False)
    ln = ctx.prog.func(DT, "RVData.__len__", R)
    rets = [s for s in A.walk_local(ln) if isinstance(s, ast.Return)]
    ctx.check(R, ln, "len = number of stored velocities", len(rets) == 1 and canon(rets[0].value) in (canon(parse("len(self.rv.value)")), canon(parse("len(self.rv)"))), "len returns `%s`" % (A.unparse(rets[0].value) if rets else None), key="len", nontrivial=False)


def run(ctx):
    check_lock(ctx)
    check_ivar(ctx)
    check_tref(ctx)
    check_copy(ctx)
    ctx.assume("numpy boolean/integer indexing selects the same rows from each array it is applied to; argsort of the time array is a permutation")
