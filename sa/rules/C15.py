"""C15 - RVData preserves the observations it is given (lock-step row selection)."""
import ast

from .. import astutil as A
from ..norm import canon, parse, dotted, equal

DT = "thejoker.data"
ARR = ("self._t_bmjd", "self.rv", "self.rv_err")


def _applications(fn):
    """[(stmt, attr, axis, selector name)] for `self.X = self.X[sel]` / `self.X = self.X[:, sel]`"""
    out = []
    for s in A.walk_local(fn):
        if isinstance(s, ast.Assign) and len(s.targets) == 1 and dotted(s.targets[0]) in ARR and isinstance(s.value, ast.Subscript) \
                and dotted(s.value.value) == dotted(s.targets[0]):
            sl = s.value.slice
            if isinstance(sl, ast.Name):
                out.append((s, dotted(s.targets[0]), 0, sl.id))
            elif isinstance(sl, ast.Tuple) and len(sl.elts) == 2 and isinstance(sl.elts[0], ast.Slice) and sl.elts[0].lower is None and sl.elts[0].upper is None \
                    and isinstance(sl.elts[1], ast.Name):
                out.append((s, dotted(s.targets[0]), 1, sl.elts[1].id))
            else:
                out.append((s, dotted(s.targets[0]), "?", A.unparse(sl)))
    return out


def _cov_pol(stmt):
    for t, pol in A.guards_of(stmt):
        if canon(t) == "self._has_cov":
            return pol
    return None


def _chain(e):
    """nested subscripts over a base -> (base canon, [selector ast innermost first])"""
    sels = []
    while isinstance(e, ast.Subscript):
        sels.append(e.slice)
        e = e.value
    return canon(A.strip_casts(e)), list(reversed(sels))


def _sel_kind(sl):
    """('row', idx expr) | ('col', idx expr) | ('other', expr)"""
    if isinstance(sl, ast.Tuple) and len(sl.elts) == 2 and isinstance(sl.elts[0], ast.Slice) and sl.elts[0].lower is None and sl.elts[0].upper is None and sl.elts[0].step is None:
        return "col", sl.elts[1]
    if isinstance(sl, ast.Tuple):
        return "other", sl
    return "row", sl


def _first_application(fn):
    for k, s in enumerate(fn.body):
        for x in A.walk_local(s):
            if isinstance(x, ast.Assign) and len(x.targets) == 1 and dotted(x.targets[0]) in ARR and isinstance(x.value, ast.Subscript):
                return k
    return None


def check_lock(ctx):
    R = "C15-LOCK"
    ctx.rule(R, "RVData.__init__, decided on the symbolic final state (forward substitution from the point where selection starts, initial arrays symbolic, helper methods "
                "inlined): for every combination of `clean` and `_has_cov`, _t_bmjd, rv and rv_err are the SAME chain of row selections of their initial values "
                "(rv_err additionally column-selected by each selector under _has_cov); under clean the first selector is the mask isfinite(t) & isfinite(rv) & "
                "isfinite(rv_err) (reduced over one axis for covariances); the last selector is the argsort of the already-cleaned times; nothing else rewrites the arrays. "
                "__getitem__ applies the same index to all three (rows then columns for covariances).")
    fn = ctx.prog.func(DT, "RVData.__init__", R)
    k = _first_application(fn)
    if k is None:
        ctx.violate(R, fn, "rows are selected in lock-step", "no `self.X = self.X[selector]` statement: observations are neither cleaned nor time-ordered", key="selectors")
        return
    flow = A.Flow(fn, track_self=True, body=fn.body[k:])
    fin = flow.final_env
    cases = {}
    for attr in ARR:
        v = fin.get(attr)
        if v is None:
            ctx.violate(R, fn, "%s is selected" % attr, "%s is never re-selected: it falls out of step with the other arrays" % attr, key="missing:" + attr)
            return
        for terms, leaf in A.ifexp_terms(v):
            key = frozenset(x for x in A.term_strings(terms) if x.lstrip("+-") in ("clean", "self._has_cov"))
            cases.setdefault(attr, []).append((key, leaf))
    # the finest case split is the union of all literals that any array distinguishes
    def compatible(k1, k2):
        return not any((("-" + x[1:]) if x[0] == "+" else ("+" + x[1:])) in k2 for x in k1)
    fine = set()
    for attr in ARR:
        for key, _ in cases[attr]:
            fine.add(key)
    atoms = sorted({x[1:] for key in fine for x in key})
    import itertools
    full = [frozenset(("+" if b else "-") + a_ for a_, b in zip(atoms, bits)) for bits in itertools.product([True, False], repeat=len(atoms))] or [frozenset()]
    n = 0
    for key in sorted(full, key=sorted):
        d = {attr: [leaf for k2, leaf in cases[attr] if compatible(k2, key)] for attr in ARR}
        label = "case {%s}" % ", ".join(sorted(key))
        clean = "+clean" in key
        cov = "+self._has_cov" in key
        n += 1
        ch = {}
        bad = None
        for attr in ARR:
            leaves = {canon(x) for x in d[attr]}
            if len(leaves) != 1:
                bad = "%s has %d different final values in this case" % (attr, len(leaves))
                break
            base, sels = _chain(d[attr][0])
            if base != attr:
                bad = "%s is built from `%s`, not from its own initial value" % (attr, base)
                break
            ch[attr] = [_sel_kind(x) for x in sels]
        if bad:
            ctx.violate(R, fn, label + ": arrays selected from their own initial values", bad, key="base:" + ",".join(sorted(key)))
            continue
        rows_t = [canon(x) for kd, x in ch["self._t_bmjd"]]
        rows_rv = [canon(x) for kd, x in ch["self.rv"]]
        oks = rows_t == rows_rv and all(kd == "row" for kd, x in ch["self._t_bmjd"] + ch["self.rv"])
        ctx.check(R, fn, label + ": times and velocities pass through the same row selections", oks,
                  "times are selected by %s but velocities by %s" % ([s_[:40] for s_ in rows_t], [s_[:40] for s_ in rows_rv]), key="t-rv:" + ",".join(sorted(key)))
        err = ch["self.rv_err"]
        err_rows = [canon(x) for kd, x in err if kd == "row"]
        err_cols = [canon(x) for kd, x in err if kd == "col"]
        if cov:
            oke = err_rows == rows_t and err_cols == rows_t and not [1 for kd, x in err if kd == "other"]
            why = "covariance rows selected by %s, columns by %s, times by %s" % ([s_[:30] for s_ in err_rows], [s_[:30] for s_ in err_cols], [s_[:30] for s_ in rows_t])
        else:
            oke = err_rows == rows_t and not err_cols
            why = "errors selected by %s (columns %s), times by %s" % ([s_[:30] for s_ in err_rows], [s_[:30] for s_ in err_cols], [s_[:30] for s_ in rows_t])
        ctx.check(R, fn, label + ": errors pass through the same selections (rows%s)" % (" and columns" if cov else ""), oke, why, key="err:" + ",".join(sorted(key)))
        # the selectors themselves
        sels = [x for kd, x in ch["self._t_bmjd"]]
        want_n = 2 if clean else 1
        ctx.check(R, fn, label + ": %d selection(s)" % want_n, len(sels) == want_n, "%d selections applied: %s" % (len(sels), [canon(x)[:50] for x in sels]), key="count:" + ",".join(sorted(key)))
        if not sels:
            continue
        srt = sels[-1]
        # the argsort of the time array as it is just before sorting
        before = fin["self._t_bmjd"]
        tcur = None
        for terms, leaf in A.ifexp_terms(before):
            kk = frozenset(x for x in A.term_strings(terms) if x.lstrip("+-") in ("clean", "self._has_cov"))
            if kk <= key or key <= kk:
                if isinstance(leaf, ast.Subscript):
                    tcur = leaf.value
        oksort = isinstance(srt, ast.Call) and A.last_attr(srt) == "argsort" and isinstance(srt.func, ast.Attribute) and not srt.args and tcur is not None and canon(srt.func.value) == canon(tcur)
        ctx.check(R, fn, label + ": last selector = argsort of the (cleaned) times", oksort,
                  "rows are finally ordered by `%s`, not by the argsort of the time array they are applied to" % A.unparse(srt)[:80], key="sort:" + ",".join(sorted(key)))
        if clean and len(sels) == 2:
            m = sels[0]
            t = A.nnf(m)
            lits = t[1] if t[0] == "and" else [t]
            fin_of = set()
            positive = True
            for l in lits:
                if l[0] != "lit" or not l[1]:
                    positive = False
                    continue
                for a_ in ARR:
                    if "isfinite(%s)" % a_ in l[2]:
                        fin_of.add(a_)
            okm = positive and fin_of == set(ARR) and t[0] == "and"
            ctx.check(R, fn, label + ": mask = isfinite(t) & isfinite(rv) & isfinite(rv_err)", okm,
                      "mask `%s` tests %s: observations with a non-finite %s survive cleaning (or the tests are not joined by &)" % (A.unparse(m)[:90], sorted(fin_of), sorted(set(ARR) - fin_of)), key="mask:" + ",".join(sorted(key)))
    ctx.floor(R, n, 4)
    # cleaning is conditional on `clean` only, sorting is unconditional: follows from the case split (a case without the sort fails "count")
    # __getitem__
    gi = ctx.prog.func(DT, "RVData.__getitem__", R)
    gflow = A.Flow(gi)
    m = 0
    for kind, pc, v, node in A.terminal_events(gi, gflow):
        if kind != "return" or not (isinstance(v, ast.Call) and canon(v.func) == "self.__class__"):
            continue
        lits = A.term_strings(pc)
        for terms0, call in A.expand_star_kwargs(v):
            lits = A.term_strings(pc) | A.term_strings(terms0)
            for kw, attr in (("t", "self.t"), ("rv", "self.rv"), ("rv_err", "self.rv_err")):
                a_ = A.get_arg(call, None, kw)
                if a_ is None:
                    ctx.violate(R, node, "__getitem__ passes %s" % kw, "argument missing", key="getitem:%s" % kw)
                    continue
                for t2, leaf in A.ifexp_terms(a_):
                    l2 = lits | A.term_strings(t2)
                    cov = "+self._has_cov" in l2
                    nocov = "-self._has_cov" in l2
                    base, sels = _chain(A.strip_casts(leaf))
                    kinds = [(_sel_kind(x)[0], canon(_sel_kind(x)[1])) for x in sels]
                    m += 1
                    if kw == "rv_err" and cov:
                        ok = base == attr and kinds == [("row", "slc"), ("col", "slc")]
                        ctx.check(R, node, "__getitem__ (covariance): rows then columns selected by the index", ok,
                                  "covariance selected as `%s`: a mask or index array then pairs row i with column i (the diagonal) instead of the sub-matrix" % A.unparse(leaf)[:60], key="getitem:cov")
                    elif kw == "rv_err" and not nocov and not cov:
                        ctx.undecided(R, node, "__getitem__ rv_err", "cannot tell which error kind this return serves")
                    else:
                        ok = base == attr and kinds == [("row", "slc")]
                        ctx.check(R, node, "__getitem__ selects %s with the index" % kw, ok, "%s=%s" % (kw, A.unparse(leaf)[:60]), key="getitem:%s:%s" % (kw, "cov" if cov else "diag" if nocov else "any"))
    ctx.check(R, gi, "__getitem__ returns a new object for both error kinds", m >= 4, "only %d selected arguments found" % m, key="getitem:branches", nontrivial=False)


def _returns_by_cov(ctx, fn):
    """[(has_cov True|False|None, leaf expr, node)] for the return events of a property, split on self._has_cov"""
    flow = A.Flow(fn)
    out = []
    for kind, pc, v, node in A.terminal_events(fn, flow):
        if kind != "return" or v is None:
            continue
        lits = A.term_strings(pc)
        cov = True if "+self._has_cov" in lits else False if "-self._has_cov" in lits else None
        out.append((cov, v, node))
    return out


def check_ivar(ctx):
    R = "C15-IVAR"
    ctx.rule(R, "ivar = 1/rv_err**2 (diagonal) or inv(cov)/unit; cov = diag(rv_err**2) with squared unit, or the stored matrix (decided per path condition on _has_cov, "
                "temporaries inlined); t = Time(_t_bmjd, tcb, mjd); Time inputs are stored as .tcb.mjd; velocities and errors are stored without unit change.")
    iv = ctx.prog.func(DT, "RVData.ivar", R)
    seen = set()
    for cov, v, node in _returns_by_cov(ctx, iv):
        seen.add(cov)
        if cov is True:
            ok = canon(v) == canon(parse("np.linalg.inv(self.rv_err.value) / self.rv_err.unit"))
            ctx.check(R, node, "ivar (covariance) = inv(cov) / unit", ok, "returns `%s`" % A.unparse(v)[:80], key="ivar-cov")
        elif cov is False:
            ctx.check(R, node, "ivar (diagonal) = 1 / rv_err**2", equal(v, parse("1 / self.rv_err**2")), "returns `%s`" % A.unparse(v)[:80], key="ivar-diag")
        else:
            ctx.undecided(R, node, "ivar return", "return not conditioned on _has_cov")
    ctx.check(R, iv, "ivar defined for both error kinds", seen == {True, False}, "cases: %s" % seen, key="ivar-cases", nontrivial=False)
    cv = ctx.prog.func(DT, "RVData.cov", R)
    seen = set()
    for cov, v, node in _returns_by_cov(ctx, cv):
        seen.add(cov)
        if cov is True:
            ctx.check(R, node, "cov (covariance) = stored matrix", canon(v) == "self.rv_err", "returns `%s`" % A.unparse(v)[:80], key="cov-cov")
        elif cov is False:
            ok = canon(v) in (canon(parse("np.diag(self.rv_err.value**2) * self.rv_err.unit**2")), canon(parse("np.diag(self.rv_err**2)")))
            ctx.check(R, node, "cov (diagonal) = diag(rv_err**2)", ok, "returns `%s`" % A.unparse(v)[:80], key="cov-diag")
    ctx.check(R, cv, "cov defined for both error kinds", seen == {True, False}, "cases: %s" % seen, key="cov-cases", nontrivial=False)
    tp = ctx.prog.func(DT, "RVData.t", R)
    fl = A.Flow(tp)
    ok = False
    if len(fl.returns) == 1:
        v = fl.returns[0][0]
        ok = isinstance(v, ast.Call) and A.call_name(v) == "Time" and canon(A.get_arg(v, 0, "val")) == "self._t_bmjd" \
            and A.str_const(A.get_arg(v, None, "scale")) == "tcb" and A.str_const(A.get_arg(v, None, "format")) == "mjd"
    ctx.check(R, tp, "t = Time(_t_bmjd, scale='tcb', format='mjd')", ok, "returns `%s`" % (A.unparse(fl.returns[0][0]) if fl.returns else None), key="t")
    init = ctx.prog.func(DT, "RVData.__init__", R)
    k = _first_application(init) or len(init.body)
    flow = A.Flow(init, track_self=True, body=init.body[:k])
    first = flow.final_env
    tv = first.get("self._t_bmjd")
    okt = tv is not None and {canon(x) for x in A.strip_ifexp(tv)} == {canon(parse("t.tcb.mjd")), canon(parse("np.atleast_1d(t)"))}
    ctx.check(R, init, "times stored as BMJD numbers (Time -> .tcb.mjd, arrays as given)", okt, "initial _t_bmjd = %s" % (A.unparse(tv)[:70] if tv is not None else None), key="t-in")
    okr = canon(first.get("self.rv")) == canon(parse("u.Quantity(np.atleast_1d(rv))")) and canon(first.get("self.rv_err")) == canon(parse("u.Quantity(np.atleast_1d(rv_err))"))
    ctx.check(R, init, "velocities / errors stored in the units supplied", okr, "rv = %s, rv_err = %s" % (canon(first.get("self.rv")), canon(first.get("self.rv_err"))), key="rv-in")
    g1 = A.find_raising_guard(init, A.nnf_of_src("self.rv_err.shape != (self.rv.size, self.rv.size) and self.rv_err.shape != (self.rv.size,)"))
    g2 = A.find_raising_guard(init, A.nnf_of_src("self._t_bmjd.shape != self.rv.shape"))
    ctx.check(R, init, "shape mismatches raise", g1 is not None and g2 is not None, "shape guards found: errors=%s times=%s" % (g1 is not None, g2 is not None), key="shape", nontrivial=False)


def check_tref(ctx):
    R = "C15-TREF"
    ctx.rule(R, "the default reference epoch is the minimum of the object's own (cleaned, sorted) times, taken when the arrays have reached their final state; a given t_ref "
                "is stored unchanged and its TCB MJD cached; t_ref=False disables it; phase = ((t - t_ref)/P) mod 1.")
    init = ctx.prog.func(DT, "RVData.__init__", R)
    k = _first_application(init)
    flow = A.Flow(init, track_self=True, body=init.body[k:] if k is not None else None)
    fin = flow.final_env.get("self._t_bmjd")
    defs = [s for s in A.walk_local(init) if isinstance(s, ast.Assign) and canon(s.targets[0]) == "t_ref"]
    ok = False
    why = "no default for t_ref"
    for s in defs:
        pc = A.term_strings(A.path_condition(s, init))
        if "+t_ref is None" in pc:
            v = s.value
            names = {n.id for n in ast.walk(v) if isinstance(n, ast.Name)} - {"self", "np", "Time", "u"}
            from_self = canon(v) in (canon(parse("self.t.min()")), canon(parse("self.t[0]")), canon(parse("Time(self._t_bmjd.min(), scale='tcb', format='mjd')")),
                                     canon(parse("Time(self._t_bmjd[0], scale='tcb', format='mjd')")))
            at = flow.env_at.get(s, {}).get("self._t_bmjd")
            settled = fin is not None and at is not None and canon(at) == canon(fin)
            ok = from_self and settled
            why = "default t_ref = `%s`%s" % (A.unparse(v)[:60], " reads the raw input (%s), which still contains the dropped observations" % sorted(names) if names else
                                               (" is computed before the rows have been selected and sorted" if not settled else ": not the earliest stored time"))
    ctx.check(R, init, "default t_ref = earliest stored time", ok, why, key="default")
    st = [s for s in A.walk_local(init) if isinstance(s, ast.Assign) and dotted(s.targets[0]) == "self.t_ref" and not (isinstance(s.value, ast.Constant))]
    ctx.check(R, init, "t_ref stored unchanged", len(st) == 1 and canon(st[0].value) == "t_ref", "self.t_ref = %s" % (A.unparse(st[0].value) if st else None), key="store")
    bm = [s for s in A.walk_local(init) if isinstance(s, ast.Assign) and dotted(s.targets[0]) == "self._t_ref_bmjd"]
    vals = sorted(canon(s.value) for s in bm)
    ctx.check(R, init, "_t_ref_bmjd = t_ref.tcb.mjd (0 when disabled)", vals == sorted([canon(parse("self.t_ref.tcb.mjd")), canon(parse("0.0"))]) or vals == sorted([canon(parse("t_ref.tcb.mjd")), canon(parse("0.0"))]),
              "_t_ref_bmjd takes %s" % vals, key="bmjd")
    none_ = [s for s in bm if A.const_value(s.value) in (0, 0.0)]
    okf = bool(none_) and "+t_ref is False" in A.term_strings(A.path_condition(none_[0], init))
    ctx.check(R, init, "t_ref=False disables the reference epoch", okf, "the zero epoch is not tied to `t_ref is False`", key="false", nontrivial=False)
    # who may write: the epoch and its cached TCB MJD change together, in the constructor only
    n = 0
    for mn, q, fn in ctx.prog.all_functions():
        for f in ctx.prog.modules[mn].all_functions.get(q, [fn]):
            for s in A.walk_local(f):
                tg = []
                if isinstance(s, ast.Assign):
                    for t in s.targets:
                        tg += list(t.elts) if isinstance(t, (ast.Tuple, ast.List)) else [t]
                elif isinstance(s, (ast.AugAssign, ast.AnnAssign)):
                    tg = [s.target]
                elif isinstance(s, ast.Call) and A.call_name(s) == "setattr" and len(s.args) >= 2 and A.str_const(s.args[1]):
                    tg = [ast.Attribute(value=s.args[0], attr=A.str_const(s.args[1]), ctx=ast.Store())]
                for t in tg:
                    if isinstance(t, ast.Attribute) and t.attr in ("t_ref", "_t_ref_bmjd", "_t_bmjd"):
                        n += 1
                        own = mn == DT and q == "RVData.__init__" and canon(t.value) == "self"
                        ctx.check(R, s, "`%s` is assigned by the RVData constructor only" % A.unparse(t), own,
                                  "`%s` in %s changes one of the reference epoch / its cached TCB MJD / the cached times after construction: the kernel reads the cached numbers, "
                                  "the samples carry the attribute, and the two no longer describe the same epoch" % (A.unparse(s)[:60], q), key="writer:%s:%s" % (q, t.attr))
    ctx.floor(R, n, 4)
    check_phase(ctx, R)


def check_phase(ctx, R):
    """RVData.phase returns ((t - t_ref) / P) mod 1, i.e. a number in [0, 1) also for epochs before t_ref (shared with C19-WRAP)"""
    ph = ctx.prog.func(DT, "RVData.phase", R)
    fl = A.Flow(ph)
    okp = bool(fl.returns)
    why = "no return"
    for v, s in fl.returns:
        for terms, leaf in A.ifexp_terms(v):
            lits = A.term_strings(terms)
            want = "((self.t - self.t_ref) / P) % 1.0" if "+t_ref is None" in lits else "((self.t - t_ref) / P) % 1.0"
            if canon(leaf) != canon(parse(want)):
                okp = False
                why = "returns `%s`" % A.unparse(leaf)[:80]
    ctx.check(R, ph, "phase = ((t - t_ref)/P) mod 1", okp, why, key="phase")


def check_copy(ctx):
    R = "C15-COPY"
    ctx.rule(R, "__copy__ forwards every piece of constructor state (t, rv, rv_err, t_ref; a disabled t_ref stays disabled); copy() is __copy__ (arguments resolved through temporaries).")
    fn = ctx.prog.func(DT, "RVData.__copy__", R)
    flow = A.Flow(fn)
    calls = [v for v, s in flow.returns if isinstance(v, ast.Call) and canon(v.func) in ("self.__class__", "RVData", "type(self)")]
    via = [v for v, s in flow.returns if isinstance(v, ast.Subscript) and canon(v.value) == "self"]
    if not calls and via:
        # a copy spelled as a slice of itself: the object is rebuilt by __getitem__, which must then hand over the whole constructor state
        gi = ctx.prog.func(DT, "RVData.__getitem__", R)
        gcalls = [c_ for c_ in A.calls_in(gi) if canon(c_.func) in ("self.__class__", "RVData", "type(self)")]
        bad = [c_ for c_ in gcalls if not all(tref_preserved(A.get_arg(c_, None, "t_ref")))]
        ctx.check(R, fn, "copy forwards t_ref", bool(gcalls) and not bad,
                  "the copy is `%s`: __getitem__ rebuilds the object without t_ref, so the copy silently takes the earliest time as its reference epoch (and a disabled epoch is re-enabled)" % A.unparse(via[0]), key="copy:t_ref")
        return
    if len(calls) != 1:
        ctx.undecided(R, fn, "constructor call", "expected one `return self.__class__(...)`")
        return
    c = calls[0]
    for kw, attr in (("t", "self.t"), ("rv", "self.rv"), ("rv_err", "self.rv_err")):
        v = A.get_arg(c, None, kw)
        ok = v is not None and dotted(A.strip_casts(v)) == attr
        ctx.check(R, fn, "copy forwards %s" % kw, ok, "%s=%s" % (kw, A.unparse(v)[:50] if v is not None else "missing"), key="copy:" + kw)
    v = A.get_arg(c, None, "t_ref")
    has, okf = tref_preserved(v)
    ctx.check(R, fn, "copy forwards t_ref", has, "t_ref=%s: the copy silently takes the earliest time as its reference epoch" % (A.unparse(v)[:50] if v is not None else "missing"), key="copy:t_ref")
    if has:
        ctx.check(R, fn, "a disabled reference epoch stays disabled", okf, "t_ref=%s: a stored t_ref of None means 'disabled', but None handed to the constructor means 'use the earliest time'" % A.unparse(v)[:60], key="copy:disabled")
    cp = ctx.prog.func(DT, "RVData.copy", R)
    rets = [s for s in A.walk_local(cp) if isinstance(s, ast.Return)]
    ctx.check(R, cp, "copy() delegates to __copy__", len(rets) == 1 and canon(rets[0].value) == canon(parse("self.__copy__()")), "copy() returns `%s`" % (A.unparse(rets[0].value) if rets else None), key="copy()", nontrivial=False)
    ln = ctx.prog.func(DT, "RVData.__len__", R)
    rets = [s for s in A.walk_local(ln) if isinstance(s, ast.Return)]
    ctx.check(R, ln, "len = number of stored velocities", len(rets) == 1 and canon(rets[0].value) in (canon(parse("len(self.rv.value)")), canon(parse("len(self.rv)"))), "len returns `%s`" % (A.unparse(rets[0].value) if rets else None), key="len", nontrivial=False)


def tref_preserved(v):
    """(forwards self.t_ref?, keeps a disabled epoch disabled?) for the t_ref argument of a reconstruction RVData(..., t_ref=v):
    the stored value None means "disabled" and must be handed over as False (None would select the earliest time)."""
    leaves = {}
    if v is not None:
        for terms, leaf in A.ifexp_terms(v):
            leaves[frozenset(A.term_strings(terms))] = leaf
    has = any(canon(l) == "self.t_ref" for l in leaves.values())
    okf = has and len(leaves) > 1 and all((A.const_value(l) is False) == ("+self.t_ref is None" in k) for k, l in leaves.items())
    return has, okf


def check_guess(ctx):
    R = "C15-GUESS"
    ctx.rule(R, "RVData.guess_from_table keeps the units supplied with the table: the fall-back rv_unit is attached to a column exactly when rv_unit is given and that column itself "
                "carries no unit (decided per column, on the column's own unit), for the velocity and the error column alike; t_ref is forwarded.")
    fn = ctx.prog.func(DT, "RVData.guess_from_table", R)
    rets = [s for s in A.walk_local(fn) if isinstance(s, ast.Return) and isinstance(s.value, ast.Call) and canon(s.value.func) in ("cls", "RVData")]
    if len(rets) != 1:
        ctx.undecided(R, fn, "constructor call", "expected one `return cls(time, rv, err, t_ref=...)`, found %d" % len(rets))
        return
    st = rets[0]
    v = st.value
    given = A.nnf_of_src("rv_unit is not None")
    always = A.path_condition(st, fn, inline=False)   # early-exit guards that hold for the rest of the function anyway

    def pc(s_):
        return [t for t in A.path_condition(s_, fn, inline=False) if t not in always]

    def times_unit(e):
        if isinstance(e, ast.BinOp) and isinstance(e.op, ast.Mult):
            if canon(e.right) == "rv_unit":
                return e.left
            if canon(e.left) == "rv_unit":
                return e.right
        return None
    n = 0
    for pos, kw, role in ((1, "rv", "velocity"), (2, "rv_err", "error")):
        a = A.get_arg(v, pos, kw)
        if a is None:
            ctx.violate(R, st, "%s column handed to the constructor" % role, "no %s argument" % kw, key=role + ":missing")
            continue
        # alternatives: (condition, value) - from conditional expressions in the argument and from conditional re-bindings `X = X * rv_unit` of the name passed
        alts = []
        names = set()
        for terms, leaf in A.ifexp_terms(a):
            f = times_unit(leaf)
            if f is not None:
                alts.append((A.conj(list(terms)), f, st))
            elif isinstance(leaf, ast.Name):
                names.add(leaf.id)
        for s_ in A.walk_local(fn):
            if isinstance(s_, ast.Assign) and len(s_.targets) == 1 and isinstance(s_.targets[0], ast.Name) and s_.targets[0].id in names:
                f = times_unit(s_.value)
                if f is not None and canon(f) == s_.targets[0].id:
                    alts.append((A.conj(pc(s_)), f, s_))
            elif isinstance(s_, ast.AugAssign) and isinstance(s_.target, ast.Name) and s_.target.id in names and isinstance(s_.op, ast.Mult) and canon(s_.value) == "rv_unit":
                alts.append((A.conj(pc(s_)), s_.target, s_))
        ctx.check(R, st, "%s: a unit-less column gets the fall-back rv_unit" % role, bool(alts), "rv_unit is never attached to the %s column" % role, key=role + ":fallback")
        for c, q, at in alts:
            n += 1
            nounit = A.nnf_of_src("(%s).unit is u.one" % A.unparse(q))
            notnone = A.nnf_of_src("(%s) is not None" % A.unparse(q))
            ok = A.nnf_implies(c, nounit) and A.nnf_implies(c, given)
            ctx.check(R, at, "%s: rv_unit attached only to a column without a unit of its own" % role, ok,
                      "under %s the %s column is multiplied by rv_unit although it may carry its own unit (the test must be on this column's unit)" % (A.term_strings([c]), role), key=role + ":attach")
            full = A.nnf_implies(A.conj([nounit, given, notnone]), c)
            ctx.check(R, at, "%s: the fall-back is applied whenever the column has no unit and rv_unit is given" % role, full,
                      "the fall-back for the %s column additionally requires %s" % (role, A.term_strings([c])), key=role + ":fallback-cond")
    tr = A.get_arg(v, 3, "t_ref")
    ctx.check(R, st, "t_ref forwarded to the constructor", tr is not None and canon(tr) == "t_ref", "t_ref=%s" % (A.unparse(tr)[:40] if tr is not None else "missing"), key="t_ref", nontrivial=False)
    ctx.floor(R, n, 2)


def check_io(ctx):
    R = "C15-IO"
    ctx.rule(R, "RVData.from_timeseries hands the columns it read to the constructor as read: the table is not re-ordered or filtered first (the constructor sorts rows AND, for "
                "a covariance, columns together; sorting the table rows alone separates them) and t_ref comes from the file's metadata.")
    fn = ctx.prog.func(DT, "RVData.from_timeseries", R)
    ws = A.storage_writes(fn, lambda e: isinstance(e, ast.Call) and (A.call_name(e) or "").split(".")[-1] == "read" and "TimeSeries" in (A.call_name(e) or ""))
    ctx.check(R, ws[0][0] if ws else fn, "the table read from the file is not modified before construction", not ws,
              (ws[0][1] if ws else "").replace("the input", "the table that was read"), key="ts-write")
    flow = A.Flow(fn)
    okc = False
    why = "no `cls(t=ts['time'], rv=ts['rv'], rv_err=ts['rv_err'], t_ref=...)` return"
    for v, s in flow.returns:
        if isinstance(v, ast.Call) and canon(v.func) in ("cls", "RVData"):
            got = {kw: A.get_arg(v, pos, kw) for pos, kw in ((0, "t"), (1, "rv"), (2, "rv_err"))}
            okc = all(g is not None and isinstance(g, ast.Subscript) and A.str_const(g.slice) == col and isinstance(g.value, ast.Call) and "TimeSeries" in (A.call_name(g.value) or "")
                      for (kw, g), col in zip(got.items(), ("time", "rv", "rv_err")))
            why = "constructor receives %s" % {k: A.unparse(g)[:40] if g is not None else None for k, g in got.items()}
    ctx.check(R, fn, "time, rv and rv_err columns go to the constructor unchanged", okc, why, key="ts-cols")


def run(ctx):
    check_io(ctx)
    check_guess(ctx)
    check_lock(ctx)
    check_ivar(ctx)
    check_tref(ctx)
    check_copy(ctx)
    ctx.assume("numpy boolean/integer indexing selects the same rows from each array it is applied to; argsort of the time array is a permutation")
