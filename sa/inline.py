"""Transparent helpers: inline functions that did not exist when the rules were written.

A refactoring that extracts a private helper (``self._apply_index(idx)``,
``_iterable_to_dict(data)``, ``_orbital_phase(sample, data)``) must not change
any verdict.  Every function that is *not* in the frozen inventory
(sa/inventory.json: the functions of the tree the rules were written for) is
treated as transparent: calls to it are replaced by its body, parameters bound
to the argument expressions and its locals renamed apart.

Supported call positions: expression statement, ``targets = f(...)``,
``return f(...)`` (the callee's statements are spliced in; it may only
``return`` in its last statement) and calls nested in expressions when the callee
is a single ``return <expr>`` (optionally preceded by simple assignments, which
are substituted).  Anything else is left as a call.
"""
import ast
import json
import os

from . import astutil as A
from .norm import dotted

_INV = None


def inventory():
    global _INV
    if _INV is None:
        with open(os.path.join(os.path.dirname(__file__), "inventory.json")) as f:
            _INV = {(m, q) for m, q in json.load(f)["functions"]}
    return _INV


def _docstring_free(body):
    if body and isinstance(body[0], ast.Expr) and isinstance(body[0].value, ast.Constant) and isinstance(body[0].value.value, str):
        return body[1:]
    return body


def _tail_return(body):
    """the single `return` in tail position (last statement, possibly inside `with` blocks that end the body)"""
    cur = body
    while cur:
        last = cur[-1]
        if isinstance(last, ast.Return):
            return last
        if isinstance(last, ast.With):
            cur = last.body
            continue
        return None
    return None


def _dead_after(fn, stmt):
    """caller names that are not read after ``stmt`` (document order; everything counts as read if the statement sits in a loop)"""
    for a in A.ancestors(stmt):
        if isinstance(a, (ast.For, ast.While, ast.AsyncFor)):
            return set()
        if isinstance(a, A.FUNC_TYPES):
            break
    seen = False
    later = set()
    names = set()

    def rec(n):
        nonlocal seen
        if n is stmt:
            seen = True
            names.update(x.id for x in ast.walk(n) if isinstance(x, ast.Name))
            return
        if isinstance(n, ast.Name):
            names.add(n.id)
            if seen and isinstance(n.ctx, ast.Load):
                later.add(n.id)
        for ch in ast.iter_child_nodes(n):
            rec(ch)
    for b in fn.body:
        rec(b)
    return names - later if seen else set()


def single_exit(stmts, rname):
    """structured single-exit form of a statement list: every `return E` becomes `rname = E` and the statements it would have skipped move into the
    complementary branch.  Returns the new list, or None when a return sits where that is not possible (inside a loop, in the middle of a try ...)."""
    def has_ret(x):
        return any(isinstance(n, ast.Return) for n in A.walk_local(x)) or isinstance(x, ast.Return)

    def rec(lst):
        out = []
        for i, s in enumerate(lst):
            rest = lst[i + 1:]
            if isinstance(s, ast.Return):
                out.append(ast.copy_location(ast.Assign(targets=[ast.Name(id=rname, ctx=ast.Store())], value=s.value if s.value is not None else ast.Constant(value=None)), s))
                return out
            if not has_ret(s):
                out.append(s)
                continue
            if isinstance(s, ast.If):
                b_term, o_term = A.terminates(s.body), bool(s.orelse) and A.terminates(s.orelse)
                body = rec(s.body)
                orelse = rec(s.orelse) if s.orelse else []
                if body is None or orelse is None:
                    return None
                if rest:
                    r = rec(rest)
                    if r is None:
                        return None
                    if b_term and not o_term:
                        orelse = orelse + r
                    elif o_term and not b_term:
                        body = body + r
                    elif b_term and o_term:
                        pass   # rest unreachable
                    else:
                        return None   # a return on some path of a branch that can also fall through
                else:
                    if (has_ret_list(s.body) and not b_term) or (s.orelse and has_ret_list(s.orelse) and not o_term):
                        # conditional return followed by nothing: falling through returns None, which the caller handles (ret initialised to None)
                        pass
                new = ast.copy_location(ast.If(test=s.test, body=body or [ast.Pass()], orelse=orelse), s)
                out.append(new)
                return out
            if isinstance(s, ast.With):
                if rest and has_ret(s):
                    if not A.terminates(s.body):
                        return None
                body = rec(s.body)
                if body is None:
                    return None
                out.append(ast.copy_location(ast.With(items=s.items, body=body), s))
                if rest and not A.terminates(s.body):
                    r = rec(rest)
                    if r is None:
                        return None
                    out.extend(r)
                return out
            if isinstance(s, ast.Try):
                if rest:
                    return None
                if s.finalbody and any(has_ret(x) for x in s.finalbody):
                    return None
                body = rec(s.body)
                orelse = rec(s.orelse) if s.orelse else []
                if body is None or orelse is None:
                    return None
                # a return in the try body skips the else block: only allowed when there is no else block
                if has_ret_list(s.body) and s.orelse:
                    return None
                handlers = []
                for h in s.handlers:
                    hb = rec(h.body)
                    if hb is None:
                        return None
                    handlers.append(ast.copy_location(ast.ExceptHandler(type=h.type, name=h.name, body=hb), h))
                out.append(ast.copy_location(ast.Try(body=body, handlers=handlers, orelse=orelse, finalbody=s.finalbody), s))
                return out
            return None   # return inside a loop or another compound statement
        return out

    def has_ret_list(lst):
        return any(has_ret(x) for x in lst)
    return rec(list(stmts))


def _own_nodes(fn):
    """nodes of fn's own scope; nested function / class definitions are yielded but not entered"""
    todo = list(reversed(list(ast.iter_child_nodes(fn))))
    while todo:
        n = todo.pop()
        yield n
        if isinstance(n, A.FUNC_TYPES + (ast.ClassDef, ast.Lambda)):
            continue
        todo.extend(reversed(list(ast.iter_child_nodes(n))))


def _is_partial(v):
    return isinstance(v, ast.Call) and (dotted(v.func) or "") in ("partial", "functools.partial") and len(v.args) >= 1


def _apply_partial(call, pcall):
    """name(x, k=v) with name = partial(g, a, kw=w)  ->  g(a, x, kw=w, k=v)   (call-site keywords override the captured ones)"""
    over = {k.arg for k in call.keywords if k.arg}
    kws = [ast.keyword(arg=k.arg, value=A.clone(k.value)) for k in pcall.keywords if k.arg not in over] + list(call.keywords)
    return ast.copy_location(ast.Call(func=A.clone(pcall.args[0]), args=[A.clone(a) for a in pcall.args[1:]] + list(call.args), keywords=kws), call)


def _returns_only_last(body):
    rets = [n for s in body for n in A.walk_local(s) if isinstance(n, ast.Return)]
    if not rets:
        return True
    return len(rets) == 1 and body and _tail_return(body) is rets[0]


class Inliner:
    def __init__(self, prog):
        self.prog = prog
        self.inv = inventory()
        self.counter = 0
        self.used = {}
        self.local = {}
        self.absorbed_local = set()
        self._mod_partials = {}
        # helper table: name -> [(mod, qual, fn)] for functions not in the inventory
        self.helpers = {}
        self.cm_helpers = {}
        for mn, m in prog.modules.items():
            for q, lst in m.all_functions.items():
                # a decorator changes what a call does (lru_cache, contextmanager, ...): decorated helpers are never transparent
                plain = all((dotted(d) or "") in ("staticmethod",) for d in lst[0].decorator_list) if len(lst) == 1 else False
                short = q.split(".")[-1]
                dunder = short.startswith("__") and short.endswith("__")   # special methods are called implicitly: never transparent
                if (mn, q) not in self.inv and len(lst) == 1 and "<locals>" not in q and plain and not dunder:
                    self.helpers.setdefault(q.split(".")[-1], []).append((mn, q, lst[0]))
                cm = len(lst) == 1 and len(lst[0].decorator_list) == 1 and (dotted(lst[0].decorator_list[0]) or "") in ("contextmanager", "contextlib.contextmanager")
                if cm and (mn, q) not in self.inv and "." not in q:
                    self.cm_helpers[q] = (mn, q, lst[0])

    def module_partials(self, mn):
        if mn not in self._mod_partials:
            out = {}
            m = self.prog.modules[mn]
            cnt = {}
            for st in m.tree.body:
                if isinstance(st, ast.Assign):
                    for t in st.targets:
                        if isinstance(t, ast.Name):
                            cnt[t.id] = cnt.get(t.id, 0) + 1
            for st in m.tree.body:
                if isinstance(st, ast.Assign) and len(st.targets) == 1 and isinstance(st.targets[0], ast.Name) and _is_partial(st.value) and cnt.get(st.targets[0].id) == 1 \
                        and not any(isinstance(x, (ast.Starred, ast.Lambda, ast.Call)) for a in list(st.value.args[1:]) + [k.value for k in st.value.keywords] for x in ast.walk(a)) \
                        and all(k.arg for k in st.value.keywords):
                    out[st.targets[0].id] = st.value
            self._mod_partials[mn] = out
        return self._mod_partials[mn]

    def any_helpers(self):
        return True   # local callables (closures, lambdas, partial objects) can occur in any function

    # ---- local callables: nested defs, named lambdas and functools.partial objects that are only ever called
    def _local_callables(self, fn, outer_q=None):
        """{name: FunctionDef} for nested functions / named lambdas of ``fn`` that are defined once, never rebound, used in call position only, take
        constant defaults and neither yield nor declare nonlocal / global names.  A closure reads its free variables when it is CALLED, so replacing the
        call by the body (parameters bound, locals renamed apart) is exact."""
        defs = {}
        stores = {}
        for n in _own_nodes(fn):
            if isinstance(n, ast.FunctionDef) and n is not fn:
                defs.setdefault(n.name, []).append(n)
            elif isinstance(n, ast.Name) and isinstance(n.ctx, (ast.Store, ast.Del)):
                stores[n.id] = stores.get(n.id, 0) + 1
        for n in A.walk_local(fn):
            if isinstance(n, ast.Assign) and len(n.targets) == 1 and isinstance(n.targets[0], ast.Name) and isinstance(n.value, ast.Lambda):
                lam = n.value
                f = ast.FunctionDef(name=n.targets[0].id, args=lam.args, body=[ast.Return(value=lam.body)], decorator_list=[], returns=None, type_comment=None, lineno=n.lineno, col_offset=n.col_offset)
                ast.fix_missing_locations(f)
                f._from_stmt = n
                defs.setdefault(f.name, []).append(f)
        out = {}
        outer_q = outer_q or A.qualname(fn)
        for name, lst in defs.items():
            if len(lst) != 1:
                continue
            f = lst[0]
            f._qualname = outer_q + "." + name
            n_store = stores.get(name, 0)
            if n_store != (1 if hasattr(f, "_from_stmt") else 0) or name in A.param_names(fn):
                continue
            if f.decorator_list:
                continue
            if any(not isinstance(d, ast.Constant) for d in list(f.args.defaults) + [d for d in f.args.kw_defaults if d is not None]):
                continue
            bad = False
            for x in ast.walk(f):
                if isinstance(x, (ast.Nonlocal, ast.Global, ast.Await)):
                    bad = True
                if isinstance(x, ast.Name) and x.id == name and x is not f:
                    bad = True   # recursive
            # every use in the enclosing function is a call
            for x in ast.walk(fn):
                if isinstance(x, ast.Name) and x.id == name and isinstance(x.ctx, ast.Load):
                    par = getattr(x, "_parent", None)
                    if not (isinstance(par, ast.Call) and par.func is x):
                        bad = True
            if not bad:
                out[name] = f
        return out

    def _local_partials(self, fn):
        """{name: partial(...) call} for `name = partial(g, ...)` bound once in ``fn``, only ever called, whose captured arguments are names that are never
        re-bound (partial captures values when it is created)."""
        stores = {}
        for n in A.walk_local(fn):
            if isinstance(n, ast.Name) and isinstance(n.ctx, (ast.Store, ast.Del)):
                stores[n.id] = stores.get(n.id, 0) + 1
        params = set(A.param_names(fn))
        out = {}
        for n in A.walk_local(fn):
            if isinstance(n, ast.Assign) and len(n.targets) == 1 and isinstance(n.targets[0], ast.Name) and _is_partial(n.value):
                name = n.targets[0].id
                if stores.get(name, 0) != 1 or name in params:
                    continue
                ok = not any(isinstance(a_, (ast.For, ast.While, ast.AsyncFor)) for a_ in A.ancestors(n) if not isinstance(a_, A.FUNC_TYPES)) or True
                in_loop = False
                for a_ in A.ancestors(n):
                    if isinstance(a_, A.FUNC_TYPES):
                        break
                    if isinstance(a_, (ast.For, ast.While, ast.AsyncFor)):
                        in_loop = True
                captured = {x.id for x in ast.walk(n.value) if isinstance(x, ast.Name) and isinstance(x.ctx, ast.Load)}
                # partial captures values when it is created: nothing it captured may be re-bound afterwards
                for x in A.walk_local(fn):
                    if isinstance(x, ast.Name) and isinstance(x.ctx, (ast.Store, ast.Del)) and x.id in captured and (in_loop or (getattr(x, "lineno", 0), getattr(x, "col_offset", 0)) > (n.lineno, n.col_offset)):
                        ok = False
                for x in ast.walk(n.value):
                    if isinstance(x, (ast.Starred, ast.Lambda)):
                        ok = False
                if any(k.arg is None for k in n.value.keywords):
                    ok = False
                for x in ast.walk(fn):
                    if isinstance(x, ast.Name) and x.id == name and isinstance(x.ctx, ast.Load):
                        par = getattr(x, "_parent", None)
                        if not (isinstance(par, ast.Call) and par.func is x):
                            ok = False
                if ok:
                    out[name] = (n.value, n)
        return out

    # ---- resolving a call to a helper
    def _callee(self, call, mn, cls):
        f = call.func
        name = None
        recv = None
        if isinstance(f, ast.Name):
            name = f.id
            if name in self.local:
                lf = self.local[name]
                return (mn, A.qualname(lf), lf), None
        elif isinstance(f, ast.Attribute):
            name = f.attr
            recv = f.value
        if name not in self.helpers:
            return None
        cands = self.helpers[name]
        if isinstance(f, ast.Name):
            c = [x for x in cands if "." not in x[1]]
        else:
            base = dotted(recv)
            if base in ("self", "cls") and cls:
                c = [x for x in cands if x[1] == cls + "." + name]
            elif base and base.split(".")[-1][:1].isupper():
                c = [x for x in cands if x[1].split(".")[0] == base.split(".")[-1]]
            else:
                c = [x for x in cands if "." in x[1]]
        if len(c) != 1:
            return None
        return c[0], recv

    def _bind(self, call, fn, recv):
        a = fn.args
        if a.vararg or a.kwarg or a.kwonlyargs and any(d is None for d in a.kw_defaults):
            pass
        params = [x.arg for x in a.posonlyargs + a.args]
        env = {}
        is_method = bool(params) and params[0] in ("self", "cls") and recv is not None
        is_static = any((dotted(d) or "") in ("staticmethod",) for d in fn.decorator_list)
        if is_method and not is_static:
            env[params[0]] = recv
            params = params[1:]
        if any(isinstance(x, ast.Starred) for x in call.args) or any(k.arg is None for k in call.keywords):
            return None
        if len(call.args) > len(params):
            if not a.vararg:
                return None
            env[a.vararg.arg] = ast.Tuple(elts=list(call.args[len(params):]), ctx=ast.Load())
        elif a.vararg:
            env[a.vararg.arg] = ast.Tuple(elts=[], ctx=ast.Load())
        for p, v in zip(params, call.args):
            env[p] = v
        extra_k, extra_v = [], []
        for k in call.keywords:
            if k.arg not in params and k.arg not in [x.arg for x in a.kwonlyargs]:
                if not a.kwarg:
                    return None
                extra_k.append(ast.Constant(value=k.arg))
                extra_v.append(k.value)
                continue
            if k.arg in env:
                return None
            env[k.arg] = k.value
        if a.kwarg:
            env[a.kwarg.arg] = ast.Dict(keys=extra_k, values=extra_v)
        defaults = dict(zip([x.arg for x in (a.posonlyargs + a.args)][-len(a.defaults):] if a.defaults else [], a.defaults))
        defaults.update({x.arg: d for x, d in zip(a.kwonlyargs, a.kw_defaults) if d is not None})
        for p in params + [x.arg for x in a.kwonlyargs]:
            if p not in env:
                if p in defaults:
                    d = defaults[p]
                    if isinstance(d, (ast.Dict, ast.List, ast.Set, ast.ListComp, ast.DictComp, ast.SetComp)) or (isinstance(d, ast.Call)):
                        # a default is evaluated ONCE, when the function is defined: a mutable default object is shared by all calls, which inlining
                        # (a fresh object per call site) would hide - such a callee is not transparent
                        return None
                    env[p] = d
                else:
                    return None
        return env

    def _instantiate(self, fn, env, dead_after=()):
        """clone of the callee body with parameters substituted and locals renamed apart.  ``dead_after``: caller names that are not read after the
        call - a parameter bound to such a name may simply keep using (and overwriting) it."""
        self.counter += 1
        tag = "__h%d_" % self.counter
        body = A.clone(_docstring_free(fn.body))
        assigned = set()
        for s in body:
            assigned |= A.assigned_names(s)
        # parameters that are re-assigned inside the callee become renamed locals initialised from the argument
        pre = []
        sub = {}
        keep = {}
        for p, v in env.items():
            if p in assigned and isinstance(v, ast.Name) and v.id in dead_after and v.id not in keep.values():
                keep[p] = v.id
                continue
            simple_display = isinstance(v, (ast.Dict, ast.Tuple)) and all(isinstance(x, (ast.Name, ast.Constant, ast.Attribute)) for x in (list(v.values) if isinstance(v, ast.Dict) else list(v.elts)))
            if p in assigned or not (isinstance(v, (ast.Name, ast.Constant)) or simple_display):
                # evaluate the argument once, before the callee's statements (call-by-value)
                pre.append(ast.Assign(targets=[ast.Name(id=tag + p, ctx=ast.Store())], value=A.clone(v), lineno=getattr(fn, "lineno", 0), col_offset=0))
            else:
                sub[p] = v
        ren = {n: tag + n for n in assigned}
        for p in env:
            if p not in sub:
                ren[p] = tag + p
        for p, x in keep.items():
            ren[p] = x

        class T(ast.NodeTransformer):
            def visit_Name(self, n):
                if n.id in ren:
                    return ast.copy_location(ast.Name(id=ren[n.id], ctx=n.ctx), n)
                if isinstance(n.ctx, ast.Load) and n.id in sub:
                    return A.clone(sub[n.id])
                return n

            def visit_Lambda(self, n):
                return n

            def visit_FunctionDef(self, n):
                return n
        out = [T().visit(s) for s in body]
        return pre + out

    def _expr_form(self, fn, env):
        """single-expression callee -> substituted expression (simple leading assignments are inlined)"""
        body = _docstring_free(fn.body)
        if not body or not isinstance(body[-1], ast.Return) or body[-1].value is None:
            return None
        if not all(isinstance(s, ast.Assign) and len(s.targets) == 1 and isinstance(s.targets[0], ast.Name) for s in body[:-1]):
            return None
        if any(p in A.assigned_names(ast.Module(body=list(body[:-1]), type_ignores=[])) for p in env):
            return None
        loc = {}
        for s in body[:-1]:
            loc[s.targets[0].id] = A._Subst(dict(loc), False).visit(A.clone(s.value))
        e = A._Subst(dict(loc), False).visit(A.clone(body[-1].value))
        return A._Subst({k: v for k, v in env.items()}, False).visit(e)

    # ---- transforming one function
    def inline_function(self, fn, mn, depth=3):
        q = A.qualname(fn)
        cls = q.rsplit(".", 1)[0] if "." in q else None
        new = A.clone(fn)
        _relink(new, getattr(fn, "_parent", None), getattr(fn, "_module", None))
        changed = False
        # partial objects (module level and local): calls are re-written to calls of the wrapped function
        parts = dict(self.module_partials(mn)) if getattr(self.prog.modules.get(mn), "tree", None) is not None else {}
        shadow = {n.id for n in A.walk_local(new) if isinstance(n, ast.Name) and isinstance(n.ctx, ast.Store)} | set(A.param_names(new))
        parts = {k: (v, None) for k, v in parts.items() if k not in shadow}
        parts.update(self._local_partials(new))
        if parts:
            done = set()
            for x in list(ast.walk(new)):
                if isinstance(x, ast.Call) and isinstance(x.func, ast.Name) and x.func.id in parts:
                    rep = _apply_partial(x, parts[x.func.id][0])
                    x.func, x.args, x.keywords = rep.func, rep.args, rep.keywords
                    done.add(x.func if False else None)
                    changed = True
            for name, (pc, st) in parts.items():
                if st is not None:
                    _remove_stmt(new, st)
            ast.fix_missing_locations(new)
            _relink(new, getattr(fn, "_parent", None), getattr(fn, "_module", None))
        self.local = self._local_callables(new, q)
        for _ in range(depth):
            c = self._pass(new, mn, cls)
            changed = changed or c
            if not c:
                break
        if self.local:
            still = {x.id for x in ast.walk(new) if isinstance(x, ast.Name) and isinstance(x.ctx, ast.Load)}
            for name, lf in self.local.items():
                if name not in still:
                    _remove_stmt(new, getattr(lf, "_from_stmt", lf))
                    self.absorbed_local.add((mn, A.qualname(lf)))
                    changed = True
        self.local = {}
        if not changed:
            return fn
        ast.fix_missing_locations(new)
        new._qualname = q
        _relink(new, getattr(fn, "_parent", None), getattr(fn, "_module", None))
        for n in ast.walk(new):
            if isinstance(n, (ast.FunctionDef, ast.ClassDef)) and not hasattr(n, "_qualname"):
                n._qualname = q + "." + n.name
        new._inlined = True
        return new

    def _pass(self, fn, mn, cls):
        changed = [False]
        me = self

        def do_block(stmts):
            out = []
            for s in stmts:
                rep = gen_hoist(s)
                if rep is None:
                    rep = cm_splice(s)
                if rep is not None:
                    out.extend(do_block(rep))
                    changed[0] = True
                    continue
                rep = try_stmt(s)
                if rep is not None:
                    out.extend(rep)
                    changed[0] = True
                    continue
                for f in A.BLOCK_FIELDS:
                    sub = getattr(s, f, None)
                    if isinstance(sub, list) and sub and isinstance(sub[0], ast.stmt):
                        setattr(s, f, do_block(sub))
                if isinstance(s, ast.Try):
                    for h in s.handlers:
                        h.body = do_block(h.body)
                expr_inline(s)
                out.append(s)
            return out

        def gen_hoist(s):
            """`list(g(a))`, `for T in g(a)`, `x.extend(g(a))` with g a transparent generator function (no `return`): the items are collected first
            (`__gN = []`, the generator's body with `yield E` -> `__gN.append(E)`), the call is replaced by `__gN`.  (Laziness is lost, the sequence of items is not.)"""
            if isinstance(s, ast.For):
                holders = [("iter", s)]
            elif isinstance(s, (ast.Assign, ast.Return, ast.Expr, ast.AugAssign)) and getattr(s, "value", None) is not None:
                holders = [("value", s)]
            else:
                return None
            root = getattr(s, holders[0][0])
            cands = []
            if isinstance(s, ast.For) and isinstance(root, ast.Call):
                cands.append(root)
            wrapper_of = {}
            for n in ast.walk(root):
                if isinstance(n, ast.Call) and ((isinstance(n.func, ast.Name) and n.func.id in ("list", "tuple", "sorted", "enumerate", "zip", "dict", "set", "frozenset", "sum", "any", "all", "max", "min")) or (isinstance(n.func, ast.Attribute) and n.func.attr == "extend")):
                    cands += [a for a in n.args if isinstance(a, ast.Call)]
                    if isinstance(n.func, ast.Name) and n.func.id == "list" and len(n.args) == 1 and not n.keywords and isinstance(n.args[0], ast.Call):
                        wrapper_of[id(n.args[0])] = n   # list(g(..)): the collected list itself
            for call in cands:
                r = me._callee(call, mn, cls)
                if r is None:
                    continue
                (cm_, cq, cfn), recv = r
                if A.qualname(cfn) == A.qualname(fn):
                    continue
                ys = [n for n in ast.walk(cfn) if isinstance(n, (ast.Yield, ast.YieldFrom))]
                if not ys or any(isinstance(n, ast.Return) for n in ast.walk(cfn)):
                    continue
                # `for T in g(...): BODY` with a single `yield E`: the generator's body with the yield replaced by `T = E; BODY` (exact, as long as BODY
                # neither leaves nor restarts the loop by itself)
                if isinstance(s, ast.For) and call is s.iter and len(ys) == 1 and isinstance(ys[0], ast.Yield) and not s.orelse \
                        and not any(isinstance(n, (ast.Break, ast.Continue, ast.Return)) for b in s.body for n in ast.walk(b)):
                    env = me._bind(call, cfn, recv)
                    if env is not None:
                        body = me._instantiate(cfn, env, dead_after=())
                        done = [False]

                        def splice(stmts):
                            out_ = []
                            for b in stmts:
                                if isinstance(b, ast.Expr) and isinstance(b.value, ast.Yield):
                                    out_.append(ast.copy_location(ast.Assign(targets=[s.target], value=b.value.value if b.value.value is not None else ast.Constant(value=None)), s))
                                    out_.extend(s.body)
                                    done[0] = True
                                    continue
                                for f_ in A.BLOCK_FIELDS:
                                    sub = getattr(b, f_, None)
                                    if isinstance(sub, list) and sub and isinstance(sub[0], ast.stmt):
                                        setattr(b, f_, splice(sub))
                                if isinstance(b, ast.Try):
                                    for h in b.handlers:
                                        h.body = splice(h.body)
                                out_.append(b)
                            return out_
                        res = splice(body)
                        if done[0]:
                            me.used[(cm_, cq)] = me.used.get((cm_, cq), 0) + 1
                            for x in res:
                                ast.fix_missing_locations(x)
                            return res
                if any(not isinstance(getattr(y, "_parent", None), ast.Expr) for y in ys if hasattr(y, "_parent")):
                    pass
                env = me._bind(call, cfn, recv)
                if env is None:
                    continue
                body = me._instantiate(cfn, env, dead_after=())
                acc = "__g%d" % me.counter

                class Y(ast.NodeTransformer):
                    ok = True

                    def visit_Expr(self, n):
                        v = n.value
                        if isinstance(v, ast.Yield):
                            return ast.copy_location(ast.Expr(value=ast.Call(func=ast.Attribute(value=ast.Name(id=acc, ctx=ast.Load()), attr="append", ctx=ast.Load()),
                                                                             args=[v.value if v.value is not None else ast.Constant(value=None)], keywords=[])), n)
                        if isinstance(v, ast.YieldFrom):
                            return ast.copy_location(ast.Expr(value=ast.Call(func=ast.Attribute(value=ast.Name(id=acc, ctx=ast.Load()), attr="extend", ctx=ast.Load()), args=[v.value], keywords=[])), n)
                        return n

                    def visit_Yield(self, n):
                        Y.ok = False   # a yield used as an expression (send protocol): not a plain producer
                        return n

                    def visit_FunctionDef(self, n):
                        return n
                body = [Y().visit(b) for b in body]
                if not Y.ok:
                    continue
                me.used[(cm_, cq)] = me.used.get((cm_, cq), 0) + 1
                init = ast.copy_location(ast.Assign(targets=[ast.Name(id=acc, ctx=ast.Store())], value=ast.List(elts=[], ctx=ast.Load())), s)
                call = wrapper_of.get(id(call), call)
                for k_ in ("func", "args", "keywords"):
                    delattr(call, k_)
                call.__class__ = ast.Name
                call.id, call.ctx = acc, ast.Load()
                pre = [init] + body
                for x in pre:
                    ast.fix_missing_locations(x)
                return pre + [s]
            return None

        def cm_splice(s):
            """`with cm(args) as v: BODY` with cm a transparent @contextmanager function that yields once: the function's body with `yield V` replaced by
            `v = V; BODY` (exactly what the context-manager protocol executes, including what its try/finally/except see)"""
            if not (isinstance(s, ast.With) and len(s.items) == 1 and isinstance(s.items[0].context_expr, ast.Call)):
                return None
            call = s.items[0].context_expr
            if not (isinstance(call.func, ast.Name) and call.func.id in me.cm_helpers):
                return None
            cm_, cq, cfn = me.cm_helpers[call.func.id]
            ys = [n for n in ast.walk(cfn) if isinstance(n, (ast.Yield, ast.YieldFrom))]
            if len(ys) != 1 or not isinstance(ys[0], ast.Yield) or any(isinstance(n, ast.Return) for n in ast.walk(cfn)):
                return None
            env = me._bind(call, cfn, None)
            if env is None:
                return None
            body = me._instantiate(cfn, env, dead_after=())
            var = s.items[0].optional_vars
            done = [False]

            def splice(stmts):
                out_ = []
                for b in stmts:
                    if isinstance(b, ast.Expr) and isinstance(b.value, ast.Yield):
                        if var is not None:
                            out_.append(ast.copy_location(ast.Assign(targets=[var], value=b.value.value if b.value.value is not None else ast.Constant(value=None)), s))
                        elif b.value.value is not None:
                            out_.append(ast.copy_location(ast.Expr(value=b.value.value), s))
                        out_.extend(s.body)
                        done[0] = True
                        continue
                    for f_ in A.BLOCK_FIELDS:
                        sub = getattr(b, f_, None)
                        if isinstance(sub, list) and sub and isinstance(sub[0], ast.stmt):
                            setattr(b, f_, splice(sub))
                    if isinstance(b, ast.Try):
                        for h in b.handlers:
                            h.body = splice(h.body)
                    out_.append(b)
                return out_
            res = splice(body)
            if not done[0]:
                return None
            me.used[(cm_, cq)] = me.used.get((cm_, cq), 0) + 1
            for x in res:
                ast.fix_missing_locations(x)
            return res

        def hoist(s):
            """a simple statement that calls a transparent helper / local callable inside a larger expression, where the callee is not a single
            expression: name the call result first (`__hcN = f(...)`), so that the statement-level splice applies"""
            if not isinstance(s, (ast.Expr, ast.Assign, ast.AugAssign, ast.Return)) or s.value is None:
                return None
            top = s.value
            found = []

            def rec(n, cond):
                if isinstance(n, (ast.Lambda, ast.ListComp, ast.SetComp, ast.DictComp, ast.GeneratorExp)):
                    return
                if isinstance(n, ast.Call) and n is not top and not cond:
                    r = me._callee(n, mn, cls)
                    if r is not None:
                        (cm, cq, cfn), recv = r
                        if A.qualname(cfn) != A.qualname(fn):
                            env = me._bind(n, cfn, recv)
                            if env is not None and me._expr_form(cfn, env) is None and not any(isinstance(x, (ast.Yield, ast.YieldFrom)) for x in ast.walk(cfn)):
                                found.append(n)
                for f_, v in ast.iter_fields(n):
                    c2 = cond or (isinstance(n, ast.IfExp) and f_ in ("body", "orelse")) or (isinstance(n, ast.BoolOp))
                    if isinstance(v, ast.AST):
                        rec(v, c2)
                    elif isinstance(v, list):
                        for x in v:
                            if isinstance(x, ast.AST):
                                rec(x, c2)
            rec(top, False)
            if not found:
                return None
            n = found[0]
            me.counter += 1
            nm = "__hc%d" % me.counter
            pre = ast.copy_location(ast.Assign(targets=[ast.Name(id=nm, ctx=ast.Store())], value=ast.Call(func=n.func, args=n.args, keywords=n.keywords)), s)
            ast.copy_location(pre.value, n)
            n.__class__ = ast.Name
            n.__dict__.clear() if False else None
            for k_ in ("func", "args", "keywords"):
                if hasattr(n, k_):
                    delattr(n, k_)
            n.id, n.ctx = nm, ast.Load()
            ast.fix_missing_locations(pre)
            return [pre, s]

        def try_stmt(s):
            h = hoist(s)
            if h is not None:
                return do_block(h)
            call = None
            kind = None
            if isinstance(s, ast.Expr) and isinstance(s.value, ast.Call):
                call, kind = s.value, "expr"
            elif isinstance(s, ast.Assign) and isinstance(s.value, ast.Call):
                call, kind = s.value, "assign"
            elif isinstance(s, ast.Return) and isinstance(s.value, ast.Call):
                call, kind = s.value, "return"
            if call is None:
                return None
            r = me._callee(call, mn, cls)
            if r is None:
                return None
            (cm, cq, cfn), recv = r
            if cfn is fn or A.qualname(cfn) == A.qualname(fn):
                return None
            body0 = _docstring_free(cfn.body)
            if any(isinstance(n, (ast.Yield, ast.YieldFrom)) for n in ast.walk(cfn)):
                return None
            multi = not _returns_only_last(body0)
            env = me._bind(call, cfn, recv)
            if env is None:
                return None
            body = me._instantiate(cfn, env, dead_after=_dead_after(fn, s))
            if multi:
                rname = "__h%d_ret" % me.counter
                se = single_exit(body, rname)
                if se is None:
                    return None
                body = [ast.Assign(targets=[ast.Name(id=rname, ctx=ast.Store())], value=ast.Constant(value=None), lineno=getattr(s, "lineno", 0), col_offset=0)] + se \
                    + [ast.Return(value=ast.Name(id=rname, ctx=ast.Load()))]
            me.used[(cm, cq)] = me.used.get((cm, cq), 0) + 1
            ret = None
            if body and isinstance(body[-1], ast.Return):
                ret = body[-1].value
                body = body[:-1]
            elif body and isinstance(body[-1], ast.With):
                tr = _tail_return(body)
                if tr is not None:
                    # `with ...: return E`  ->  `with ...: __ret = E`, result __ret
                    rname = "__h%d_ret" % me.counter
                    holder = body
                    while not isinstance(holder[-1], ast.Return):
                        holder = holder[-1].body
                    holder[-1] = ast.copy_location(ast.Assign(targets=[ast.Name(id=rname, ctx=ast.Store())], value=tr.value if tr.value is not None else ast.Constant(value=None)), tr)
                    ret = ast.Name(id=rname, ctx=ast.Load())
            if kind == "expr":
                return body or [ast.copy_location(ast.Pass(), s)]
            if ret is None:
                ret = ast.Constant(value=None)
            if kind == "assign":
                return body + [ast.copy_location(ast.Assign(targets=s.targets, value=ret), s)]
            return body + [ast.copy_location(ast.Return(value=ret), s)]

        def expr_inline(s):
            class T(ast.NodeTransformer):
                def visit_Call(self, n):
                    self.generic_visit(n)
                    r = me._callee(n, mn, cls)
                    if r is None:
                        return n
                    (cm, cq, cfn), recv = r
                    if A.qualname(cfn) == A.qualname(fn):
                        return n
                    env = me._bind(n, cfn, recv)
                    if env is None:
                        return n
                    e = me._expr_form(cfn, env)
                    if e is None:
                        return n
                    changed[0] = True
                    me.used[(cm, cq)] = me.used.get((cm, cq), 0) + 1
                    return ast.copy_location(e, n)

                def visit_FunctionDef(self, n):
                    return n

                def visit_Lambda(self, n):
                    return n
            # only the statement's own expressions (not nested blocks, handled by do_block)
            for f, v in ast.iter_fields(s):
                if f in A.BLOCK_FIELDS or f == "handlers":
                    continue
                if isinstance(v, ast.AST):
                    setattr(s, f, T().visit(v))
                elif isinstance(v, list):
                    setattr(s, f, [T().visit(x) if isinstance(x, ast.AST) else x for x in v])

        fn.body = do_block(fn.body)
        return changed[0]


def _remove_stmt(fn, st):
    for n in ast.walk(fn):
        for f in A.BLOCK_FIELDS:
            sub = getattr(n, f, None)
            if isinstance(sub, list) and any(x is st for x in sub):
                sub[:] = [x for x in sub if x is not st] or [ast.copy_location(ast.Pass(), st)]
                return True
    return False


def _relink(node, parent, module):
    node._parent = parent
    if module is not None:
        node._module = module
    for ch in ast.iter_child_nodes(node):
        _relink(ch, node, module)
