"""Source set -> Module objects (ast with parent links, digests, function table).

Nothing under the repository is imported or executed.  ``overlay`` maps a
repository-relative path to replacement text (used by the self-test to analyse
in-memory variants).
"""
import ast
import hashlib
import os

from . import pyxfront

PKG = "thejoker"
EXCLUDE_FILES = {"_version.py"}


class AnalysisIncomplete(Exception):
    """An anchor vanished or a construct is outside what a rule understands."""

    def __init__(self, rule, site, reason):
        super().__init__("%s @ %s: %s" % (rule, site, reason))
        self.rule, self.site, self.reason = rule, site, reason


def repo_root():
    return os.environ.get("THEJOKER_REPO", "/repo")


class Module:
    def __init__(self, name, relpath, text, tree, pyx=None):
        self.name = name
        self.relpath = relpath
        self.text = text
        self.lines = text.split("\n")
        self.tree = tree
        self.pyx = pyx  # PyxInfo or None
        self.digest = hashlib.sha256(text.encode()).hexdigest()
        self.functions = {}  # qualname -> FunctionDef (first definition)
        self.all_functions = {}  # qualname -> [FunctionDef, ...] (conditional duplicates)
        self.classes = {}    # name -> ClassDef
        _link(tree, None)
        self._index(tree, "")
        for node in ast.walk(tree):
            node._module = self

    def _index(self, node, prefix):
        for ch in ast.iter_child_nodes(node):
            if isinstance(ch, (ast.FunctionDef, ast.AsyncFunctionDef)):
                q = prefix + ch.name
                # first definition wins for conditional duplicates; keep all in list
                self.functions.setdefault(q, ch)
                self.all_functions.setdefault(q, []).append(ch)
                ch._qualname = q
                self._index(ch, q + ".")
            elif isinstance(ch, ast.ClassDef):
                q = prefix + ch.name
                self.classes.setdefault(q, ch)
                ch._qualname = q
                self._index(ch, q + ".")
            else:
                self._index(ch, prefix)

    def src(self, node):
        return ast.get_source_segment(self.text, node)


def _norm(tree, pyx=False):
    from .idioms import normalize
    return normalize(tree)


def _link(node, parent):
    node._parent = parent
    for ch in ast.iter_child_nodes(node):
        _link(ch, node)


class Program:
    def __init__(self, root=None, overlay=None):
        self.root = root or repo_root()
        self.overlay = overlay or {}
        self.modules = {}   # dotted name -> Module
        self.by_path = {}
        self._load()

    def _load(self):
        pkgdir = os.path.join(self.root, PKG)
        if not os.path.isdir(pkgdir):
            raise AnalysisIncomplete("LOAD", pkgdir, "package directory missing")
        paths = []
        for dp, dns, fns in os.walk(pkgdir):
            dns[:] = sorted(d for d in dns if d not in ("tests", "__pycache__"))
            for fn in sorted(fns):
                if fn in EXCLUDE_FILES:
                    continue
                if fn.endswith(".py") or fn.endswith(".pyx"):
                    paths.append(os.path.relpath(os.path.join(dp, fn), self.root))
        raw = []
        for rel in paths:
            if rel in self.overlay:
                text = self.overlay[rel]
            else:
                with open(os.path.join(self.root, rel), encoding="utf-8") as f:
                    text = f.read()
            name = rel[:-3] if rel.endswith(".py") else rel[:-4]
            name = name.replace(os.sep, ".")
            if name.endswith(".__init__"):
                name = name[: -len(".__init__")]
            info = None
            if rel.endswith(".pyx"):
                try:
                    _, tree, info = pyxfront.desugar(text, rel)
                except pyxfront.PyxError as e:
                    raise AnalysisIncomplete("PYXFRONT", rel, str(e))
            else:
                try:
                    tree = ast.parse(text, filename=rel)
                except SyntaxError as e:
                    raise AnalysisIncomplete("PARSE", rel, "syntax error line %s: %s" % (e.lineno, e.msg))
            raw.append((name, rel, text, tree, info))
        # package-level normalisations (sa/prenorm.py): named constants, one spelling per call with a known signature
        from . import prenorm
        trees = {name: tree for name, rel, text, tree, info in raw}
        if not os.environ.get("SA_NO_PRENORM"):
            for name, rel, text, tree, info in raw:
                if info is None:
                    prenorm.canonical_imports(tree, rel)
                    prenorm.column_accessors(tree)
            prenorm.propagate_constants({n: t for n, t in trees.items()})
            prenorm.REGISTRY = prenorm.build_registry(trees)
            prenorm.NAMEDTUPLES = prenorm.collect_namedtuples(trees)
            for t in trees.values():
                prenorm.normalize_calls(t)
        from .idioms import normalize_loops
        for name, rel, text, tree, info in raw:
            if info is None:
                for n in ast.walk(tree):
                    if isinstance(n, (ast.FunctionDef, ast.AsyncFunctionDef)):
                        normalize_loops(n)
            mod = Module(name, rel, text, _norm(tree, pyx=info is not None), pyx=info)
            self.modules[name] = mod
            self.by_path[rel] = mod
        self._inline_new_helpers()
        self._tempfree()

    def _tempfree(self):
        """forward-substitute pure local temporaries (sa/tempfree.py) so that local names and temporaries are irrelevant to the rules"""
        if os.environ.get("SA_NO_TEMPFREE"):
            return
        from .tempfree import normalize_function
        self.tempfree = []
        for mn, m in self.modules.items():
            if m.pyx is not None:
                continue
            for q, lst in m.all_functions.items():
                for fn in lst:
                    from . import prenorm as _pn
                    if _pn.lower_namedtuples(fn):
                        from .inline import _relink as _rl
                        _rl(fn, getattr(fn, "_parent", None), m)
                    from .tempfree import _coalesce_copies
                    for _round in range(4):
                        if not normalize_function(fn):
                            break
                        if _round == 0:
                            self.tempfree.append("%s.%s" % (mn, q))
                        # substitution can expose idioms (x = np.unique(ids); x.size): normalise again
                        from .idioms import normalize, _flatten, normalize_loops
                        from .inline import _relink
                        from .prenorm import normalize_calls
                        normalize_loops(fn)
                        fn.body = _flatten([normalize(normalize_calls(st)) for st in fn.body])
                        _relink(fn, getattr(fn, "_parent", None), m)
                        # ... and copies that only became visible now (n = (a, b)[1] -> n = b)
                        _coalesce_copies(fn)
                        _relink(fn, getattr(fn, "_parent", None), m)
                        # (next round: the re-normalised body may offer new single-use temporaries - a loop that became a comprehension, an unrolled table)

    def _inline_new_helpers(self):
        """functions that are not in the frozen inventory are transparent: inline them into their callers (sa/inline.py)"""
        from .inline import Inliner, _relink
        inl = Inliner(self)
        self.inlined = []
        self.absorbed = set()
        if not inl.any_helpers():
            return
        inv = inl.inv
        for mn, m in self.modules.items():
            for q, lst in m.all_functions.items():
                for fn in lst:
                    new = inl.inline_function(fn, mn)
                    if new is not fn:
                        from .idioms import normalize, normalize_loops, _flatten
                        from .prenorm import normalize_calls
                        fn.body = new.body
                        normalize_loops(fn)
                        fn.body = _flatten([normalize(normalize_calls(st)) for st in fn.body])
                        _relink(fn, getattr(fn, "_parent", None), m)
                        self.inlined.append("%s.%s" % (mn, q))
        # a helper whose every call site was inlined is analysed in the context of its callers only
        helpers = {(hm, hq): hf for lst in inl.helpers.values() for hm, hq, hf in lst}
        remaining = set()
        for mn, m in self.modules.items():
            for q, lst in m.all_functions.items():
                for fn in lst:
                    for n in ast.walk(fn):
                        if isinstance(n, ast.Call):
                            f = n.func
                            nm = f.id if isinstance(f, ast.Name) else f.attr if isinstance(f, ast.Attribute) else None
                            if nm in inl.helpers and not ((mn, q) in helpers and q.split(".")[-1] == nm):
                                remaining.add(nm)
                        elif isinstance(n, ast.Name) and n.id in inl.helpers and isinstance(n.ctx, ast.Load):
                            par = getattr(n, "_parent", None)
                            if not (isinstance(par, ast.Call) and par.func is n):
                                remaining.add(n.id)   # passed around as a value
        for (hm, hq), hf in helpers.items():
            if inl.used.get((hm, hq), 0) > 0 and hq.split(".")[-1] not in remaining:
                self.absorbed.add((hm, hq))
        self.absorbed |= inl.absorbed_local
        # @contextmanager helpers spliced in at every `with`: analysed in the context of their users only
        for name, (hm, hq, hf) in inl.cm_helpers.items():
            if inl.used.get((hm, hq), 0) > 0:
                left = False
                for mn, m in self.modules.items():
                    for q, lst in m.all_functions.items():
                        for fn in lst:
                            if fn is hf:
                                continue
                            if any(isinstance(n, ast.Name) and n.id == name and isinstance(n.ctx, ast.Load) for n in ast.walk(fn)):
                                left = True
                if not left:
                    self.absorbed.add((hm, hq))

    def module(self, name):
        if name not in self.modules:
            raise AnalysisIncomplete("ANCHOR", name, "module not found in source set")
        return self.modules[name]

    def func(self, modname, qualname, rule="ANCHOR"):
        m = self.module(modname)
        if qualname not in m.functions:
            raise AnalysisIncomplete(rule, "%s.%s" % (modname, qualname), "function not found")
        return m.functions[qualname]

    def has_func(self, modname, qualname):
        return modname in self.modules and qualname in self.modules[modname].functions

    def digest(self, modnames=None):
        h = hashlib.sha256()
        for n in sorted(modnames or self.modules):
            if n in self.modules:
                h.update(n.encode())
                h.update(self.modules[n].digest.encode())
        return h.hexdigest()

    def all_functions(self):
        for mn, m in sorted(self.modules.items()):
            for q, f in sorted(m.functions.items()):
                if (mn, q) in getattr(self, "absorbed", ()):
                    continue   # transparent helper, analysed inlined at every one of its call sites
                yield mn, q, f
