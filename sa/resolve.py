"""Name-based call resolution and reachability over the package.

Callees: plain names (module functions, imported package functions, classes ->
__init__), self.m / cls.m (same class), Class.m, and ``obj.m`` for any package
method called m when the receiver is not an external-library alias.  Function
references passed as arguments (``run_worker(worker_fn, ...)``) are edges too,
and a decorated function is reached through its decorator's inner wrapper.
The graph over-approximates (it never misses an internal edge it can name).
"""
import ast

from . import astutil as A
from .norm import dotted

EXTERNAL_ROOTS = {"np", "numpy", "u", "pm", "pt", "tb", "h5py", "os", "warnings", "logger", "plt", "inspect", "copy",
                  "meta", "metadata", "serialize", "fits", "pytensor", "tt", "xu", "math", "contextlib", "logging", "Time", "Table", "QTable"}


class CallGraph:
    def __init__(self, prog):
        self.prog = prog
        self.funcs = {}       # (mod, qual) -> fn
        self.by_short = {}    # short name -> [(mod, qual)]
        self.classes = {}     # class name -> (mod, ClassDef)
        for mn, m in prog.modules.items():
            for q, lst in m.all_functions.items():
                self.funcs[(mn, q)] = lst[0]
                self.by_short.setdefault(q.split(".")[-1], []).append((mn, q))
            for cn, c in m.classes.items():
                self.classes.setdefault(cn.split(".")[-1], (mn, c))
        self.edges = {k: set() for k in self.funcs}
        self.unresolved = 0
        self.resolved = 0
        self.external = 0
        self.decorated = {}   # (mod, qual) -> decorator short names
        for key, fn in self.funcs.items():
            self.decorated[key] = [(dotted(d) or dotted(getattr(d, "func", None)) or "").split(".")[-1] for d in fn.decorator_list]
        for key, fn in self.funcs.items():
            self._scan(key, fn)
        # decorator wrappers: calling a decorated function runs the decorator's nested functions, which call it back
        for key, decs in self.decorated.items():
            for d in decs:
                for dk in self.by_short.get(d, []):
                    for k2 in self.funcs:
                        if k2[0] == dk[0] and k2[1].startswith(dk[1] + "."):
                            for caller, tg in self.edges.items():
                                if key in tg:
                                    tg.add(k2)
                            self.edges[k2].add(key)

    def _imports(self, fn, mn):
        """names imported from package modules visible in fn (module level + local)."""
        m = self.prog.modules[mn]
        out = {}
        for node in list(ast.iter_child_nodes(m.tree)) + list(A.walk_local(fn)):
            if isinstance(node, ast.ImportFrom):
                for a in node.names:
                    out[a.asname or a.name] = a.name
        return out

    def _scan(self, key, fn):
        mn, q = key
        cls = q.rsplit(".", 1)[0] if "." in q else None
        for node in A.walk_local(fn):
            if isinstance(node, ast.Call):
                tg = self._resolve_call(node, mn, cls)
                if tg:
                    self.resolved += 1
                    self.edges[key] |= tg
            elif isinstance(node, ast.Name) and isinstance(node.ctx, ast.Load) and node.id in self.by_short:
                # a package function used as a value (passed to a pool / partial, bound to a local and called later): it may be called from here
                par = A.parent(node)
                if isinstance(par, ast.Call) and par.func is node:
                    continue
                for t in self.by_short.get(node.id, []):
                    if "." not in t[1]:
                        self.edges[key].add(t)

    def _resolve_call(self, call, mn, cls):
        f = call.func
        out = set()
        if isinstance(f, ast.Name):
            nm = f.id
            if (mn, nm) in self.funcs:
                out.add((mn, nm))
            elif nm in self.classes:
                cm, c = self.classes[nm]
                for t in self.by_short.get("__init__", []):
                    if t == (cm, c._qualname + ".__init__"):
                        out.add(t)
            else:
                for t in self.by_short.get(nm, []):
                    if "." not in t[1]:
                        out.add(t)
            if not out:
                self.external += 1
            return out
        if isinstance(f, ast.Attribute):
            root = f
            while isinstance(root, (ast.Attribute, ast.Subscript, ast.Call)):
                root = root.value if not isinstance(root, ast.Call) else root.func
            rootname = root.id if isinstance(root, ast.Name) else None
            base = dotted(f.value)
            if isinstance(f.value, ast.Call) and isinstance(f.value.func, ast.Name) and f.value.func.id == "super":
                # super().m(...): the method of a base class defined in the package, otherwise external
                if cls and cls.split(".")[-1] in self.classes:
                    cm, c = self.classes[cls.split(".")[-1]]
                    for b in c.bases:
                        bn = (dotted(b) or "").split(".")[-1]
                        if bn in self.classes:
                            bm, bc = self.classes[bn]
                            if (bm, bc._qualname + "." + f.attr) in self.funcs:
                                out.add((bm, bc._qualname + "." + f.attr))
                if not out:
                    self.external += 1
                return out
            if base in ("self", "cls") and cls:
                if (mn, cls + "." + f.attr) in self.funcs:
                    return {(mn, cls + "." + f.attr)}
            if base and base.split(".")[-1] in self.classes:
                cm, c = self.classes[base.split(".")[-1]]
                if (cm, c._qualname + "." + f.attr) in self.funcs:
                    return {(cm, c._qualname + "." + f.attr)}
            if rootname in EXTERNAL_ROOTS and base != "self":
                self.external += 1
                return out
            for t in self.by_short.get(f.attr, []):
                if "." in t[1]:
                    out.add(t)
            if not out:
                self.external += 1
        return out

    def reachable(self, roots):
        seen = set()
        todo = [r for r in roots if r in self.funcs]
        while todo:
            k = todo.pop()
            if k in seen:
                continue
            seen.add(k)
            todo.extend(self.edges.get(k, ()))
        return seen

    def callers_of(self, key):
        return [k for k, tg in self.edges.items() if key in tg]
