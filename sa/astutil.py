"""AST helpers: navigation, structural dominance, forward substitution."""
import ast
import copy

from .norm import dotted, canon, short_fn  # noqa: F401

FUNC_TYPES = (ast.FunctionDef, ast.AsyncFunctionDef, ast.Lambda)


def clone(node):
    """Deep copy of an AST following syntactic fields only (never the
    _parent / _module back links); keeps _module and positions for reporting."""
    if isinstance(node, list):
        return [clone(x) for x in node]
    if not isinstance(node, ast.AST):
        return node
    new = node.__class__()
    for f in node._fields:
        if hasattr(node, f):
            setattr(new, f, clone(getattr(node, f)))
    for a in ("lineno", "col_offset", "end_lineno", "end_col_offset"):
        if hasattr(node, a):
            setattr(new, a, getattr(node, a))
    m = getattr(node, "_module", None)
    if m is not None:
        new._module = m
    return new


def unparse(node):
    try:
        return ast.unparse(node)
    except Exception:
        return ast.dump(node)


def walk_local(node, include_self=True):
    """Walk without descending into nested function / class definitions."""
    todo = [node]
    first = True
    while todo:
        n = todo.pop()
        if not first and isinstance(n, FUNC_TYPES + (ast.ClassDef,)):
            continue
        if first:
            first = False
            if include_self:
                yield n
        else:
            yield n
        todo.extend(reversed(list(ast.iter_child_nodes(n))))


def calls_in(node, local=True):
    it = walk_local(node) if local else ast.walk(node)
    return [n for n in it if isinstance(n, ast.Call)]


def call_name(call):
    return dotted(call.func)


def get_arg(call, pos=None, kw=None, with_default=False):
    """argument by keyword, else by position (no *args expansion)."""
    if kw is not None:
        for k in call.keywords:
            if k.arg == kw:
                return k.value
    if pos is not None and pos < len(call.args) and not any(isinstance(a, ast.Starred) for a in call.args[: pos + 1]):
        return call.args[pos]
    # calls with a known signature are kept in one canonical spelling (prenorm.py): find the parameter whichever way it is passed
    from . import prenorm
    sg = prenorm.lookup(call)
    if sg is not None:
        b = prenorm.bind(call, sg)
        if b is not None:
            if kw is not None and kw in b:
                return b[kw]
            if pos is not None and pos < len(sg[0]) and sg[0][pos] in b:
                return b[sg[0][pos]]
            if with_default:
                nm = kw if kw is not None else (sg[0][pos] if pos is not None and pos < len(sg[0]) else None)
                if nm in sg[1]:
                    return sg[1][nm]
    return None


def has_star_kwargs(call):
    return any(k.arg is None for k in call.keywords)


def parent(node):
    return getattr(node, "_parent", None)


def enclosing(node, types):
    n = parent(node)
    while n is not None and not isinstance(n, types):
        n = parent(n)
    return n


def enclosing_function(node):
    return enclosing(node, (ast.FunctionDef, ast.AsyncFunctionDef))


def enclosing_stmt(node):
    n = node
    while n is not None and not isinstance(n, ast.stmt):
        n = parent(n)
    return n


def qualname(fn):
    return getattr(fn, "_qualname", getattr(fn, "name", "?"))


def where(node):
    m = getattr(node, "_module", None)
    path = m.relpath if m else "?"
    return "%s:%s" % (path, getattr(node, "lineno", "?"))


BLOCK_FIELDS = ("body", "orelse", "finalbody")


def block_of(stmt):
    """(parent node, field name, list, index) of a statement."""
    p = parent(stmt)
    if p is None:
        return None
    for f in BLOCK_FIELDS + ("handlers",):
        lst = getattr(p, f, None)
        if isinstance(lst, list):
            for i, s in enumerate(lst):
                if s is stmt:
                    return p, f, lst, i
    return None


def ancestors(node):
    n = parent(node)
    while n is not None:
        yield n
        n = parent(n)


def is_ancestor(a, node):
    return any(x is a for x in ancestors(node))


def terminates(stmts):
    """Does this statement list always leave the enclosing block abnormally
    (raise / return / break / continue on every path)?"""
    for s in stmts:
        if isinstance(s, (ast.Raise, ast.Return, ast.Break, ast.Continue)):
            return True
        if isinstance(s, ast.If) and s.orelse and terminates(s.body) and terminates(s.orelse):
            return True
        if isinstance(s, ast.With) and terminates(s.body):
            return True
        if isinstance(s, ast.Try):
            if s.finalbody and terminates(s.finalbody):
                return True
            if terminates(s.body) and all(terminates(h.body) for h in s.handlers):
                return True
    return False


def always_raises(stmts):
    """Every path through the list ends in ``raise`` (before any return/break)."""
    for s in stmts:
        if isinstance(s, ast.Raise):
            return True
        if isinstance(s, (ast.Return, ast.Break, ast.Continue)):
            return False
        if isinstance(s, ast.If) and s.orelse and always_raises(s.body) and always_raises(s.orelse):
            return True
        if isinstance(s, ast.With) and always_raises(s.body):
            return True
    return False


def dominates(a, b):
    """Structural dominance: statement ``a`` is executed on every path that
    reaches node ``b`` (within one function).  ``with`` bodies are transparent;
    ``try`` bodies are transparent only towards later statements of the same
    try body (a handler may have skipped the rest)."""
    if a is b:
        return True
    sb = enclosing_stmt(b) if not isinstance(b, ast.stmt) else b
    # chain of statements containing b, outermost first
    chain = [sb]
    for x in ancestors(sb):
        if isinstance(x, ast.stmt):
            chain.append(x)
        if isinstance(x, FUNC_TYPES):
            break
    # lift a through transparent wrappers (with bodies)
    cur = a
    while True:
        blk = block_of(cur)
        if blk is None:
            return False
        p, f, lst, i = blk
        for c in chain:
            cb = block_of(c)
            if cb and cb[2] is lst:
                return i < cb[3] or (c is cur)
        if isinstance(p, (ast.With, ast.AsyncWith)) and f == "body":
            cur = p
            continue
        if isinstance(p, ast.Try) and f == "finalbody":
            cur = p
            continue
        if isinstance(p, ast.Try) and f in ("body", "orelse") and all(terminates(h.body) for h in p.handlers):
            # every handler leaves: whatever comes after the try (and its else-branch, for the body) is only reached when body and else-branch completed
            if any(c is p for c in chain):
                # b sits inside the same try statement: only its else-branch (for a in the body) is behind a
                in_else = any(any(c is s_ for s_ in p.orelse) for c in chain)
                in_final = any(any(c is s_ for s_ in p.finalbody) for c in chain)
                return f == "body" and in_else and not in_final
            cur = p
            continue
        return False


def guards_of(node, stop=None):
    """[(test expr, polarity)] of the enclosing if / while / ifexp branches."""
    out = []
    child = node
    for p in ancestors(node):
        if p is stop or isinstance(p, FUNC_TYPES):
            break
        if isinstance(p, (ast.If, ast.While)):
            if any(child is s for s in p.body):
                out.append((p.test, True))
            elif any(child is s for s in p.orelse):
                out.append((p.test, False))
        elif isinstance(p, ast.IfExp):
            if child is p.body:
                out.append((p.test, True))
            elif child is p.orelse:
                out.append((p.test, False))
        child = p
    return list(reversed(out))


def exit_guards_before(stmt):
    """Tests ``c`` of preceding ``if c: <always leaves>`` statements in the
    enclosing blocks of ``stmt`` - i.e. facts ``not c`` that hold at stmt."""
    out = []
    cur = stmt
    while cur is not None and not isinstance(cur, FUNC_TYPES):
        blk = block_of(cur)
        if blk:
            p, f, lst, i = blk
            for s in lst[:i]:
                if isinstance(s, ast.If) and terminates(s.body) and not s.orelse:
                    out.append(s)
                elif isinstance(s, ast.If) and s.orelse:
                    # if c: leave  elif d: leave  else: fallthrough
                    # (`not d` holds afterwards only if every earlier member of the chain left as well: after `if a: x = 1 elif d: raise`, a true `a` says nothing about d)
                    t = s
                    while isinstance(t, ast.If):
                        if terminates(t.body):
                            out.append(t)
                        else:
                            break
                        if len(t.orelse) == 1 and isinstance(t.orelse[0], ast.If):
                            t = t.orelse[0]
                        else:
                            break
        cur = parent(cur)
    return out


def assigned_names(node):
    out = set()
    for n in walk_local(node):
        if isinstance(n, ast.Name) and isinstance(n.ctx, (ast.Store, ast.Del)):
            out.add(n.id)
    return out


def names_in(node):
    return {n.id for n in ast.walk(node) if isinstance(n, ast.Name)}


def str_const(node):
    if isinstance(node, ast.Constant) and isinstance(node.value, str):
        return node.value
    return None


def const_value(node):
    if isinstance(node, ast.Constant):
        return node.value
    if isinstance(node, ast.UnaryOp) and isinstance(node.op, ast.USub) and isinstance(node.operand, ast.Constant):
        return -node.operand.value
    return None


# ----------------------------------------------------------------------------
# Forward substitution (def-use inlining over the structured statement tree)
# ----------------------------------------------------------------------------

def _renorm(e):
    """substitution can expose idioms (`k = d.keys(); list(k)`): bring the resolved expression back to the normal form"""
    if e is None or not isinstance(e, ast.expr):
        return e
    try:
        from .idioms import normalize
        from .prenorm import normalize_calls
        w = ast.Expression(body=e)
        w = normalize(normalize_calls(w))
        return w.body
    except Exception:
        return e


class _Subst(ast.NodeTransformer):
    def __init__(self, env, track_self):
        self.env = env
        self.track_self = track_self

    def visit_Name(self, node):
        if isinstance(node.ctx, ast.Load) and node.id in self.env:
            return clone(self.env[node.id])
        return node

    def visit_Attribute(self, node):
        if self.track_self and isinstance(node.ctx, ast.Load):
            d = dotted(node)
            if d and d in self.env:
                return clone(self.env[d])
        self.generic_visit(node)
        return node

    def visit_Lambda(self, node):
        return node

    def visit_ListComp(self, node):
        return self._comp(node)

    visit_SetComp = visit_DictComp = visit_GeneratorExp = visit_ListComp

    def _comp(self, node):
        bound = set()
        for g in node.generators:
            bound |= {n.id for n in ast.walk(g.target) if isinstance(n, ast.Name)}
        saved = {k: self.env[k] for k in bound if k in self.env}
        for k in saved:
            del self.env[k]
        self.generic_visit(node)
        self.env.update(saved)
        return node


def opaque(name):
    return ast.Name(id=name, ctx=ast.Load())


class Flow:
    """Forward substitution of local definitions.

    ``env_at[stmt]`` is the environment (name -> resolved expression) holding
    just before ``stmt``; ``resolve(expr)`` rewrites an expression found inside
    the function with the environment of its enclosing statement.  At joins,
    differing values merge to ``ast.IfExp(test, a, b)``; names (re)assigned in a
    loop body that are read before being written there become opaque
    ``name@loop<line>`` symbols at loop entry, and the post-loop environment is
    that of the end of one pass over the body.
    """

    def __init__(self, fn, track_self=False, max_size=4000, body=None):
        self.fn = fn
        self.track_self = track_self
        self.env_at = {}
        self.env_after = {}
        self.stores = []     # (target ast (resolved), value ast (resolved), stmt)
        self.returns = []    # (resolved value or None, stmt)
        self.max_size = max_size
        # ``body``: analyse only this statement list (a suffix of fn.body), names defined before it stay symbolic
        self.final_env = self._block(fn.body if body is None else body, {})

    # -- public
    def resolve(self, expr, at=None):
        stmt = at or enclosing_stmt(expr)
        env = self.env_at.get(stmt)
        if env is None:
            # expression inside a nested statement header we did not index
            env = {}
        return self._res(expr, env)

    def value_after(self, stmt, name):
        env = self.env_after.get(stmt, {})
        return env.get(name)

    # -- internals
    def _res(self, expr, env):
        if expr is None:
            return None
        new = _Subst(dict(env), self.track_self).visit(clone(expr))
        ast.fix_missing_locations(new)
        return _renorm(new)

    def _key(self, target):
        if isinstance(target, ast.Name):
            return target.id
        if self.track_self and isinstance(target, ast.Attribute):
            return dotted(target)
        return None

    def _assign(self, target, value, env, stmt):
        k = self._key(target)
        if k is not None:
            if value is not None and len(ast.dump(value)) > self.max_size * 10:
                value = opaque("%s@big%d" % (k, stmt.lineno))
            env[k] = value
            return
        if isinstance(target, (ast.Tuple, ast.List)):
            if isinstance(value, (ast.Tuple, ast.List)) and len(value.elts) == len(target.elts) and not any(
                isinstance(e, ast.Starred) for e in list(target.elts) + list(value.elts)
            ):
                for t, v in zip(target.elts, value.elts):
                    self._assign(t, v, env, stmt)
            else:
                for i, t in enumerate(target.elts):
                    if isinstance(t, ast.Starred):
                        self._assign(t.value, opaque("%s@star%d" % (unparse(t.value), stmt.lineno)), env, stmt)
                    else:
                        sub = ast.Subscript(value=clone(value), slice=ast.Constant(value=i), ctx=ast.Load())
                        self._assign(t, sub, env, stmt)
            return
        # subscript / attribute store
        self.stores.append((self._res(target, env) if not isinstance(target, ast.Name) else target, value, stmt))
        # a store through a tracked base invalidates nothing (arrays are not modelled)

    def _merge(self, test, e1, e2, base):
        out = {}
        for k in set(e1) | set(e2):
            v1 = e1.get(k)
            v2 = e2.get(k)
            if v1 is None:
                v1 = opaque(k) if k not in base else base[k]
            if v2 is None:
                v2 = opaque(k) if k not in base else base[k]
            if ast.dump(v1) == ast.dump(v2):
                out[k] = v1
            else:
                out[k] = ast.IfExp(test=clone(test), body=v1, orelse=v2)
        return out

    def _block(self, stmts, env):
        env = dict(env)
        for s in stmts:
            self.env_at[s] = dict(env)
            env = self._stmt(s, env)
            self.env_after[s] = dict(env)
        return env

    def _stmt(self, s, env):
        if isinstance(s, ast.Assign):
            val = self._res(s.value, env)
            for t in s.targets:
                self._assign(t, val, env, s)
        elif isinstance(s, ast.AnnAssign):
            if s.value is not None:
                self._assign(s.target, self._res(s.value, env), env, s)
        elif isinstance(s, ast.AugAssign):
            k = self._key(s.target)
            val = self._res(s.value, env)
            if k is not None:
                cur = env.get(k, opaque(k))
                env[k] = ast.BinOp(left=clone(cur), op=s.op, right=val)
            else:
                tgt = self._res(s.target, env)
                self.stores.append((tgt, ast.BinOp(left=clone(tgt), op=s.op, right=val), s))
        elif isinstance(s, ast.If):
            test = self._res(s.test, env)
            e1 = self._block(s.body, env)
            e2 = self._block(s.orelse, env)
            t1, t2 = terminates(s.body), terminates(s.orelse) if s.orelse else False
            if t1 and not t2:
                env = e2
            elif t2 and not t1:
                env = e1
            else:
                env = self._merge(test, e1, e2, env)
        elif isinstance(s, (ast.For, ast.AsyncFor, ast.While)):
            body_assigned = set()
            for b in s.body:
                body_assigned |= assigned_names(b)
            if self.track_self:
                for b in s.body:
                    for n in walk_local(b):
                        if isinstance(n, ast.Attribute) and isinstance(n.ctx, ast.Store):
                            d = dotted(n)
                            if d:
                                body_assigned.add(d)
            loop_env = dict(env)
            for k in body_assigned:
                loop_env[k] = opaque("%s@loop%d" % (k, s.lineno))
            if isinstance(s, (ast.For, ast.AsyncFor)):
                it = self._res(s.iter, env)
                s._iter_resolved = it
                for n in ast.walk(s.target):
                    if isinstance(n, ast.Name):
                        loop_env[n.id] = opaque(n.id)
            self.env_at[s] = dict(env)
            e_body = self._block(s.body, loop_env)
            e_else = self._block(s.orelse, e_body) if s.orelse else e_body
            env = dict(env)
            for k in body_assigned:
                if k in e_body:
                    env[k] = e_body[k]
            if s.orelse and not terminates(s.orelse):
                for k, v in e_else.items():
                    if k not in env:
                        env[k] = v
        elif isinstance(s, (ast.With, ast.AsyncWith)):
            for it in s.items:
                ctx = self._res(it.context_expr, env)
                if it.optional_vars is not None:
                    self._assign(it.optional_vars, ctx, env, s)
            env = self._block(s.body, env)
        elif isinstance(s, ast.Try):
            e_body = self._block(s.body, env)
            envs = [] if terminates(s.body) else [e_body]
            for h in s.handlers:
                he = dict(env)
                if h.name:
                    he[h.name] = opaque(h.name)
                eh = self._block(h.body, he)
                if not terminates(h.body):
                    envs.append(eh)
            if s.orelse:
                e_body = self._block(s.orelse, e_body)
                if envs and not terminates(s.body):
                    envs[0] = e_body
            cur = envs[0] if envs else e_body
            for other in envs[1:]:
                cur = self._merge(ast.Name(id="@exc", ctx=ast.Load()), cur, other, env)
            env = self._block(s.finalbody, cur) if s.finalbody else cur
        elif isinstance(s, ast.Return):
            self.returns.append((self._res(s.value, env), s))
        elif isinstance(s, (ast.FunctionDef, ast.AsyncFunctionDef, ast.ClassDef)):
            env[s.name] = opaque(s.name)
        elif isinstance(s, (ast.Import, ast.ImportFrom)):
            for a in s.names:
                nm = (a.asname or a.name).split(".")[0]
                env.pop(nm, None)
        elif isinstance(s, ast.Delete):
            for t in s.targets:
                k = self._key(t)
                if k:
                    env.pop(k, None)
        return env


def strip_ifexp(node, prefer=None):
    """Collect the leaves of nested IfExp merges."""
    if isinstance(node, ast.IfExp):
        return strip_ifexp(node.body) + strip_ifexp(node.orelse)
    return [node]


def ifexp_cases(node, limit=64):
    """Expand every IfExp inside ``node``: [(conds, expr)] with conds a tuple of
    (canonical test string, polarity)."""
    node = clone(node)

    def find(n):
        for x in ast.walk(n):
            if isinstance(x, ast.IfExp):
                return x
        return None

    out = []
    todo = [((), node)]
    while todo:
        conds, n = todo.pop()
        x = find(n)
        if x is None:
            out.append((conds, n))
            continue
        if len(out) + len(todo) > limit:
            raise ValueError("too many cases")
        key = canon(x.test)
        known = dict(conds)
        for pol, branch in ((True, x.body), (False, x.orelse)):
            if key in known and known[key] != pol:
                continue
            n2 = _replace(clone(n), x, branch)
            c2 = conds if key in known else conds + ((key, pol),)
            todo.append((c2, n2))
    return out


def _replace(root, target_like, repl):
    """Replace the first node in root structurally equal to target_like."""
    dump = ast.dump(target_like)
    done = [False]

    class R(ast.NodeTransformer):
        def visit(self, n):
            if not done[0] and isinstance(n, ast.IfExp) and ast.dump(n) == dump:
                done[0] = True
                return clone(repl)
            return self.generic_visit(n)

    if isinstance(root, ast.IfExp) and ast.dump(root) == dump:
        return clone(repl)
    return R().visit(root)


def find_calls(node, name_pred, local=True):
    """Calls whose dotted callee satisfies name_pred (str -> bool) or equals it."""
    out = []
    for c in calls_in(node, local):
        d = call_name(c)
        if d is None:
            continue
        if (callable(name_pred) and name_pred(d)) or (not callable(name_pred) and d == name_pred):
            out.append(c)
    return out


def last_attr(call):
    f = call.func
    if isinstance(f, ast.Attribute):
        return f.attr
    if isinstance(f, ast.Name):
        return f.id
    return None


def param_names(fn):
    a = fn.args
    return [x.arg for x in a.posonlyargs + a.args] + ([a.vararg.arg] if a.vararg else []) + [x.arg for x in a.kwonlyargs] + (
        [a.kwarg.arg] if a.kwarg else [])


def param_default(fn, name):
    a = fn.args
    pos = a.posonlyargs + a.args
    defaults = [None] * (len(pos) - len(a.defaults)) + list(a.defaults)
    for p, d in zip(pos, defaults):
        if p.arg == name:
            return d
    for p, d in zip(a.kwonlyargs, a.kw_defaults):
        if p.arg == name:
            return d
    return None


def bind_call(call, fn, skip_self=False, partial=False):
    """Map callee parameter name -> argument expr for a resolved call site.
    Returns None if *args/**kwargs make the binding unknown (with partial=True the
    explicit bindings are returned and '*' / '**' map to the starred expressions)."""
    a = fn.args
    pos = [x.arg for x in a.posonlyargs + a.args]
    if skip_self and pos and pos[0] in ("self", "cls"):
        pos = pos[1:]
    out = {}
    for i, arg in enumerate(call.args):
        if isinstance(arg, ast.Starred):
            if not partial:
                return None
            out["*"] = arg.value
            break
        if i < len(pos):
            out[pos[i]] = arg
        elif not a.vararg:
            return None
    for k in call.keywords:
        if k.arg is None:
            if not partial:
                return None
            out["**"] = k.value
            continue
        out[k.arg] = k.value
    return out


CAST_METHODS = {"astype", "copy", "view"}
CAST_FUNCS = {"asarray", "array", "ascontiguousarray", "asanyarray", "atleast_1d", "float64"}


def strip_casts(node, any_astype=False):
    """Remove value-preserving array casts/copies and collapse IfExp whose
    branches became identical: x.astype(f8) if c else x  ->  x."""

    class T(ast.NodeTransformer):
        def visit_Call(self, n):
            self.generic_visit(n)
            if isinstance(n.func, ast.Attribute) and n.func.attr in CAST_METHODS and not (dotted(n.func.value) or "").split(".")[0] in ("np", "numpy", "copy"):
                if n.func.attr == "astype":
                    # only a cast to double precision is value-preserving for the packed float64 arrays
                    a = n.args[0] if n.args else None
                    ok = a is not None and (canon(a) in ("np.float64", "numpy.float64", "float", "np.double") or str_const(a) in ("f8", "float64", "d", "<f8"))
                    if not ok and not any_astype:
                        return n
                return n.func.value
            d = dotted(n.func) or ""
            if d.split(".")[-1] in CAST_FUNCS and d.split(".")[0] in ("np", "numpy") and n.args:
                return n.args[0]
            return n

        def visit_IfExp(self, n):
            self.generic_visit(n)
            if ast.dump(n.body) == ast.dump(n.orelse):
                return n.body
            return n

    return T().visit(clone(node))


# ----------------------------------------------------------------------------
# Guard normal form (NNF over canonical literals)
# ----------------------------------------------------------------------------
_NEG_OPS = {ast.In: ast.NotIn, ast.NotIn: ast.In, ast.Is: ast.IsNot, ast.IsNot: ast.Is, ast.Eq: ast.NotEq, ast.NotEq: ast.Eq,
            ast.Lt: ast.GtE, ast.GtE: ast.Lt, ast.Gt: ast.LtE, ast.LtE: ast.Gt}
_POS_OPS = (ast.In, ast.Is, ast.Eq, ast.Lt, ast.LtE)   # canonical polarity: these are "positive" literals


def nnf(test, neg=False, rename=None):
    """Guard -> nested ('and'|'or', frozenset(children)) | ('lit', polarity, canonical atom).
    Negations are pushed inward; comparison operators are normalised so that
    `x not in y` == not `x in y`, `a != b` == not `a == b`, `a >= b` == not `a < b`."""
    if isinstance(test, ast.UnaryOp) and isinstance(test.op, (ast.Not, ast.Invert)):
        return nnf(test.operand, not neg, rename)
    if isinstance(test, ast.BinOp) and isinstance(test.op, (ast.BitAnd, ast.BitOr)):
        # elementwise & / | of masks and tensors: the same connectives
        test = ast.BoolOp(op=ast.And() if isinstance(test.op, ast.BitAnd) else ast.Or(), values=[test.left, test.right])
    if isinstance(test, ast.BoolOp):
        is_and = isinstance(test.op, ast.And)
        if neg:
            is_and = not is_and
        kids = frozenset(nnf(v, neg, rename) for v in test.values)
        flat = set()
        tag = "and" if is_and else "or"
        for k in kids:
            if k[0] == tag:
                flat |= set(k[1])
            else:
                flat.add(k)
        if len(flat) == 1:
            return next(iter(flat))
        return (tag, frozenset(flat))
    if isinstance(test, ast.Compare) and len(test.ops) == 1:
        op = type(test.ops[0])
        l, r = test.left, test.comparators[0]
        pol = True
        if op in (ast.Gt, ast.GtE):           # a > b  ->  b < a ; a >= b -> b <= a
            op = {ast.Gt: ast.Lt, ast.GtE: ast.LtE}[op]
            l, r = r, l
        if op not in _POS_OPS:
            op = _NEG_OPS[op]
            pol = False
        if op is ast.LtE:                      # a <= b  ==  not (b < a)
            op, l, r, pol = ast.Lt, r, l, not pol
        if neg:
            pol = not pol
        name = {ast.In: "in", ast.Is: "is", ast.Eq: "==", ast.Lt: "<"}[op]
        if name == "in" and isinstance(r, ast.Call) and isinstance(r.func, ast.Attribute) and r.func.attr == "keys" and not r.args and not r.keywords:
            r = r.func.value   # membership in a mapping's keys == membership in the mapping
        if name in ("==", "<"):
            try:
                from .norm import rat as _rat
                d = _rat(l) - _rat(r)
                if name == "==":
                    c1, c2 = d.canon(), (-d).canon()
                    return ("lit", pol, "%s == 0" % _rn(min(c1, c2), rename))
                return ("lit", pol, "%s < 0" % _rn(d.canon(), rename))
            except Exception:
                pass
        a, b = _rn(canon(l), rename), _rn(canon(r), rename)
        if name == "==":
            a, b = sorted([a, b])
        return ("lit", pol, "%s %s %s" % (a, name, b))
    return ("lit", not neg, _rn(canon(test), rename))


def _rn(s, rename):
    if rename:
        import re
        for old, new in rename.items():
            s = re.sub(r"(?<![\w.])%s(?![\w])" % re.escape(old), new, s)
    return s


def _atoms(t, out):
    if t[0] == "lit":
        out.add(t[2])
    else:
        for k in t[1]:
            _atoms(k, out)
    return out


def _ev(t, env):
    if t[0] == "lit":
        return env[t[2]] == t[1]
    if t[0] == "and":
        return all(_ev(k, env) for k in t[1])
    return any(_ev(k, env) for k in t[1])


def nnf_implies(spec, guard):
    """spec => guard (whenever spec holds the guard fires), for NNF terms: decided by the truth table over the atoms of both
    (atoms are treated as independent propositions, which can only make the implication harder to establish)."""
    if spec == guard:
        return True
    atoms = sorted(_atoms(spec, set()) | _atoms(guard, set()))
    if len(atoms) > 14:
        return _nnf_implies_structural(spec, guard)
    for bits in range(1 << len(atoms)):
        env = {a: bool(bits >> i & 1) for i, a in enumerate(atoms)}
        if _ev(spec, env) and not _ev(guard, env):
            return False
    return True


def nnf_sat(t):
    """is the NNF term satisfiable (atoms independent)?"""
    atoms = sorted(_atoms(t, set()))
    if len(atoms) > 16:
        return True
    for bits in range(1 << len(atoms)):
        if _ev(t, {a: bool(bits >> i & 1) for i, a in enumerate(atoms)}):
            return True
    return False


def nnf_not(t):
    if t[0] == "lit":
        return ("lit", not t[1], t[2])
    return ("or" if t[0] == "and" else "and", frozenset(nnf_not(k) for k in t[1]))


def nnf_equiv(a, b):
    return nnf_implies(a, b) and nnf_implies(b, a)


def _nnf_implies_structural(spec, guard):
    if spec == guard:
        return True
    if guard[0] == "or":
        if spec[0] == "or":
            return all(any(_nnf_implies_structural(s, g) for g in guard[1]) for s in spec[1])
        return any(_nnf_implies_structural(spec, g) for g in guard[1])
    if guard[0] == "and":
        return all(_nnf_implies_structural(spec, g) for g in guard[1])
    if spec[0] == "and":
        return any(_nnf_implies_structural(s, guard) for s in spec[1])
    return False


def membership(elt, E, neg=False):
    """NNF of `elt in E` with the set algebra of E unfolded: set(X) / list(X) / X.keys() -> `elt in X`; A | B, A.union(B) -> or;
    A & B -> and; (A if c else B) -> c and elt in A or not c and elt in B."""
    def mk(tag, kids):
        flat = set()
        for k in kids:
            if k[0] == tag:
                flat |= set(k[1])
            else:
                flat.add(k)
        return next(iter(flat)) if len(flat) == 1 else (tag, frozenset(flat))
    if isinstance(E, ast.Call):
        cn = call_name(E)
        if cn in ("set", "list", "tuple", "frozenset", "sorted") and len(E.args) == 1 and not E.keywords:
            return membership(elt, E.args[0], neg)
        if isinstance(E.func, ast.Attribute) and E.func.attr == "keys" and not E.args:
            return membership(elt, E.func.value, neg)
        if isinstance(E.func, ast.Attribute) and E.func.attr == "union" and E.args:
            return mk("and" if neg else "or", [membership(elt, x, neg) for x in [E.func.value] + list(E.args)])
    if isinstance(E, ast.BinOp) and isinstance(E.op, (ast.BitOr, ast.BitAnd)):
        is_or = isinstance(E.op, ast.BitOr)
        if neg:
            is_or = not is_or
        return mk("or" if is_or else "and", [membership(elt, E.left, neg), membership(elt, E.right, neg)])
    if isinstance(E, ast.IfExp):
        a = mk("and", [nnf(E.test), membership(elt, E.body)])
        b = mk("and", [nnf(E.test, True), membership(elt, E.orelse)])
        if not neg:
            return mk("or", [a, b])
        a = mk("or", [nnf(E.test, True), membership(elt, E.body, True)])
        b = mk("or", [nnf(E.test), membership(elt, E.orelse, True)])
        return mk("and", [a, b])
    from .norm import canon as _c
    return ("lit", not neg, "%s in %s" % (_c(elt), _c(E)))


def nnf_of_src(src, rename=None):
    from .norm import parse as _p
    return nnf(_p(src), False, rename)


def raw_reaching_def_stmt(name, stmt):
    """The unique straight-line `name = value` statement that reaches ``stmt`` (scanning the
    enclosing blocks backwards); None if a compound statement in between may rebind it."""
    cur = stmt
    while cur is not None and not isinstance(cur, FUNC_TYPES):
        blk = block_of(cur)
        if blk:
            p, f, lst, i = blk
            for s in reversed(lst[:i]):
                if isinstance(s, ast.Assign) and len(s.targets) == 1 and isinstance(s.targets[0], ast.Name) and s.targets[0].id == name:
                    return s
                if name in assigned_names(s):
                    return _last_def_in_with(name, s)
            if isinstance(p, (ast.For, ast.AsyncFor)) and name in {x.id for x in ast.walk(p.target) if isinstance(x, ast.Name)}:
                return None
            if isinstance(p, (ast.For, ast.AsyncFor, ast.While)) and f in ("body", "orelse") and name in assigned_names(p):
                return None   # (re)bound somewhere in the loop: the value may come from an earlier iteration
            if isinstance(p, ast.ExceptHandler) or (isinstance(p, ast.Try) and f in ("finalbody", "orelse")):
                tr = p if isinstance(p, ast.Try) else parent(p)
                if tr is not None and any(name in assigned_names(x) for x in tr.body):
                    return None   # the try body may or may not have rebound it
        cur = parent(cur)
    return None


def _last_def_in_with(name, s):
    """a `with` body always runs: the last straight-line definition inside it reaches the statements after it"""
    if not isinstance(s, ast.With) or any(name in assigned_names(i.optional_vars) for i in s.items if i.optional_vars is not None):
        return None
    for x in reversed(s.body):
        if isinstance(x, ast.Assign) and len(x.targets) == 1 and isinstance(x.targets[0], ast.Name) and x.targets[0].id == name:
            return x
        if name in assigned_names(x):
            return _last_def_in_with(name, x)
    return None


def unpack_source(name, stmt):
    """``name`` bound by ``a, name, ... = f(...)``: returns (call, position) or None"""
    ds = reaching_binding_stmt(name, stmt)
    if ds is None or not isinstance(ds.value, ast.Call) or not isinstance(ds.targets[0], ast.Tuple):
        return None
    pos = [i for i, e in enumerate(ds.targets[0].elts) if isinstance(e, ast.Name) and e.id == name]
    return (ds.value, pos[0]) if len(pos) == 1 else None


def effective_kwargs(call, fn, flow):
    """{keyword: [(path terms, value expr, statement at which the value is evaluated)]} of a call, looking through ``**D`` when D is a dict display,
    a conditional choice of dict displays, or a local dict (display assignments, possibly per branch) extended by constant-key stores
    (``D["k"] = v`` under conditions).  None if some ``**`` cannot be read."""
    out = {}
    st = enclosing_stmt(call)
    pending = []
    for k in call.keywords:
        if k.arg is not None:
            out.setdefault(k.arg, []).append(([], k.value, st))
        else:
            pending.append(k.value)
    while pending:
        D = pending.pop(0)
        # a | b and {**a, **b, "k": v}: the union of their entries (later entries win at run time; here every alternative is listed)
        if isinstance(D, ast.BinOp) and isinstance(D.op, ast.BitOr):
            pending[:0] = [D.left, D.right]
            continue
        if isinstance(D, ast.Dict) and any(x is None for x in D.keys):
            for kk, v in zip(D.keys, D.values):
                if kk is None:
                    pending.append(v)
                elif str_const(kk):
                    out.setdefault(str_const(kk), []).append(([], v, st))
                else:
                    return None
            continue
        if isinstance(D, ast.Name):
            name = D.id
            found = False
            for s_ in walk_local(fn):
                if not (isinstance(s_, ast.Assign) and len(s_.targets) == 1 and dominates_or_before(s_, st)):
                    continue
                tgt = s_.targets[0]
                if isinstance(tgt, ast.Name) and tgt.id == name:
                    leafs = ifexp_terms(s_.value)
                    for terms, leaf in leafs:
                        if not (isinstance(leaf, ast.Dict) and all(x is not None and str_const(x) for x in leaf.keys)):
                            return None
                        found = True
                        for kk, v in zip(leaf.keys, leaf.values):
                            out.setdefault(str_const(kk), []).append((path_condition(s_, fn, inline=False) + terms, v, s_))
                elif isinstance(tgt, ast.Subscript) and isinstance(tgt.value, ast.Name) and tgt.value.id == name and str_const(tgt.slice):
                    out.setdefault(str_const(tgt.slice), []).append((path_condition(s_, fn, inline=False), s_.value, s_))
            if not found:
                return None
            continue
        for terms, leaf in ifexp_terms(D):
            if not (isinstance(leaf, ast.Dict) and all(x is not None and str_const(x) for x in leaf.keys)):
                return None
            for kk, v in zip(leaf.keys, leaf.values):
                out.setdefault(str_const(kk), []).append((terms, v, st))
    return out


def dominates_or_before(a, b):
    """statement a is executed (possibly conditionally) before statement b on the straight-line order of the function"""
    fa = enclosing_function(a)
    order = {}

    def rec(n):
        if isinstance(n, ast.stmt):
            order[id(n)] = len(order)
        for ch in ast.iter_child_nodes(n):
            if isinstance(ch, FUNC_TYPES) or isinstance(ch, ast.ClassDef):
                continue
            rec(ch)
    if fa is None:
        return True
    for s_ in fa.body:
        rec(s_)
    return order.get(id(a), 0) < order.get(id(b), 0)


def loop_roles(target, it):
    """{loop variable: ('index', None) | ('elem', iterable)} for the headers
         for v in S / for i, v in enumerate(S) / for a, b in zip(S, T) / for i, (a, b) in enumerate(zip(S, T)) /
         for i, a, b in zip(range(len(X)), S, T) / for i in range(len(S))
    'index' is the 0-based position of the iteration (enumerate without start, or a leading range(len(..)) / range(n) member of a zip)."""
    out = {}

    def is_pos_range(e):
        return isinstance(e, ast.Call) and call_name(e) == "range" and len(e.args) == 1

    def rec(tg, itr):
        if isinstance(tg, ast.Name):
            if is_pos_range(itr):
                out[tg.id] = ("index", None)
            else:
                out[tg.id] = ("elem", itr)
            return
        if isinstance(tg, (ast.Tuple, ast.List)) and isinstance(itr, ast.Call):
            cn = call_name(itr)
            if cn == "enumerate" and len(tg.elts) == 2 and itr.args and get_arg(itr, 1, "start") is None:
                if isinstance(tg.elts[0], ast.Name):
                    out[tg.elts[0].id] = ("index", None)
                rec(tg.elts[1], itr.args[0])
                return
            if cn == "zip" and len(tg.elts) == len(itr.args):
                for t, a in zip(tg.elts, itr.args):
                    rec(t, a)
                return
        for n in ast.walk(tg):
            if isinstance(n, ast.Name):
                out[n.id] = ("unknown", itr)
    rec(target, it)
    return out


def expand_star_kwargs(call):
    """[(terms, call')] where `f(a, **(D1 if c else D2))` (dict displays with constant keys, possibly nested conditionals) is split into
    `f(a, k=v, ...)` per alternative; a call without such ** is returned unchanged."""
    stars = [k for k in call.keywords if k.arg is None]
    if len(stars) != 1:
        return [([], call)]
    out = []
    for terms, leaf in ifexp_terms(stars[0].value):
        if not (isinstance(leaf, ast.Dict) and all(x is not None and str_const(x) and str_const(x).isidentifier() for x in leaf.keys)):
            return [([], call)]
        c2 = clone(call)
        c2.keywords = [k for k in c2.keywords if k.arg is not None] + [ast.keyword(arg=str_const(kk), value=clone(v)) for kk, v in zip(leaf.keys, leaf.values)]
        ast.fix_missing_locations(c2)
        out.append((terms, c2))
    return out


def top_ifexp_terms(v):
    """like ifexp_terms, but only conditional expressions at the top of ``v`` are split (conditionals nested inside calls stay)"""
    if isinstance(v, ast.IfExp):
        out = []
        for pol, br in ((False, v.body), (True, v.orelse)):
            t = nnf(v.test, pol)
            for terms, leaf in top_ifexp_terms(br):
                out.append(([t] + terms, leaf))
        return out
    return [([], v)]


def ellipsis_2d(e):
    """clone of e in which `X[..., k]` is written `X[:, k]` - the same selection on a two-dimensional array (use only where X is known to be 2-D)"""
    e = clone(e)
    for n in ast.walk(e):
        if isinstance(n, ast.Subscript) and isinstance(n.slice, ast.Tuple) and len(n.slice.elts) == 2 and isinstance(n.slice.elts[0], ast.Constant) and n.slice.elts[0].value is Ellipsis:
            n.slice.elts[0] = ast.Slice(lower=None, upper=None, step=None)
    ast.fix_missing_locations(e)
    return e


def assume_none(expr, names):
    """``expr`` specialised to the call in which the parameters ``names`` are None: the names become the constant None and
    `c is None` / `c is not None` tests on constants and conditional expressions with a constant test are folded."""
    e = _Subst({n: ast.Constant(value=None) for n in names}, False).visit(clone(expr))

    class F(ast.NodeTransformer):
        def visit_Compare(self, n):
            self.generic_visit(n)
            if len(n.ops) == 1 and isinstance(n.ops[0], (ast.Is, ast.IsNot)) and isinstance(n.left, ast.Constant) and isinstance(n.comparators[0], ast.Constant) \
                    and (n.left.value is None or n.comparators[0].value is None):
                same = n.left.value is None and n.comparators[0].value is None
                return ast.copy_location(ast.Constant(value=same if isinstance(n.ops[0], ast.Is) else not same), n)
            return n

        def visit_UnaryOp(self, n):
            self.generic_visit(n)
            if isinstance(n.op, ast.Not) and isinstance(n.operand, ast.Constant) and isinstance(n.operand.value, bool):
                return ast.copy_location(ast.Constant(value=not n.operand.value), n)
            return n

        def visit_IfExp(self, n):
            self.generic_visit(n)
            if isinstance(n.test, ast.Constant) and isinstance(n.test.value, bool):
                return n.body if n.test.value else n.orelse
            return n
    for _ in range(6):
        before = ast.dump(e)
        e = F().visit(e)
        if ast.dump(e) == before:
            break
    ast.fix_missing_locations(e)
    return e


def elementwise(node):
    """clone of ``node`` (a node of the analysed tree) in which every name bound by an enclosing comprehension / for loop that iterates
    a sequence S (directly, or as a member of zip / enumerate) is replaced by ``S[$k]`` - "the current element of S"."""
    binds = {}

    def rec(tgt, it):
        if isinstance(tgt, ast.Name):
            if not (isinstance(it, ast.Call) and call_name(it) in ("range", "zip", "enumerate")):
                binds.setdefault(tgt.id, ast.Subscript(value=clone(it), slice=ast.Name(id="$k", ctx=ast.Load()), ctx=ast.Load()))
        elif isinstance(tgt, (ast.Tuple, ast.List)) and isinstance(it, ast.Call):
            cn = call_name(it)
            if cn == "enumerate" and len(tgt.elts) == 2 and it.args:
                rec(tgt.elts[1], it.args[0])
            elif cn == "zip" and len(tgt.elts) == len(it.args):
                for t, a in zip(tgt.elts, it.args):
                    rec(t, a)
    cur = node
    while cur is not None and not isinstance(cur, FUNC_TYPES):
        p = parent(cur)
        if isinstance(p, (ast.ListComp, ast.SetComp, ast.GeneratorExp, ast.DictComp)):
            for g in p.generators:
                rec(g.target, g.iter)
        elif isinstance(p, (ast.For, ast.AsyncFor)) and cur in p.body:
            rec(p.target, p.iter)
        cur = p
    if not binds:
        return node
    return _Subst(binds, False).visit(clone(node))


def rename_bound(e):
    """clone with the variables bound by comprehensions renamed canonically (so that [f(x) for x in L] == [f(y) for y in L])"""
    e = clone(e)
    comps = [n for n in ast.walk(e) if isinstance(n, (ast.ListComp, ast.SetComp, ast.GeneratorExp, ast.DictComp))]
    for k, c in enumerate(reversed(comps)):
        bound = []
        for g in c.generators:
            bound += [x.id for x in ast.walk(g.target) if isinstance(x, ast.Name)]
        ren = {b: "$b%d_%d" % (len(comps) - k, j) for j, b in enumerate(bound) if not b.startswith("$b")}
        for n in ast.walk(c):
            if isinstance(n, ast.Name) and n.id in ren:
                n.id = ren[n.id]
    return e


def reaching_binding_stmt(name, stmt):
    """like raw_reaching_def_stmt but also returns a tuple-unpacking assignment that binds ``name``"""
    cur = stmt
    while cur is not None and not isinstance(cur, FUNC_TYPES):
        blk = block_of(cur)
        if blk:
            p, f, lst, i = blk
            for s in reversed(lst[:i]):
                if name in assigned_names(s):
                    return s if isinstance(s, ast.Assign) and len(s.targets) == 1 else None
            if isinstance(p, (ast.For, ast.AsyncFor, ast.While)) and name in assigned_names(p):
                return None
            if isinstance(p, ast.ExceptHandler) or (isinstance(p, ast.Try) and f in ("finalbody", "orelse")):
                return None
        cur = parent(cur)
    return None


def raw_reaching_def(name, stmt):
    s = raw_reaching_def_stmt(name, stmt)
    return s.value if s is not None else None


def inline_temporaries(expr, stmt, fn, depth=4, only=None, exclude=()):
    """Substitute local single-reaching-definition temporaries (not parameters) into expr, position-aware
    (names inside a substituted definition are resolved at that definition), a few levels deep;
    restricted to the names in ``only`` when given."""
    params = set(param_names(fn))

    def rec(e, at, d):
        if d <= 0:
            return clone(e)

        class T(ast.NodeTransformer):
            def visit_Name(self, n):
                if isinstance(n.ctx, ast.Load) and n.id not in params and n.id not in exclude and n.id not in self.bound and (only is None or n.id in only):
                    ds = raw_reaching_def_stmt(n.id, at)
                    if ds is not None:
                        if isinstance(ds.value, (ast.List, ast.Dict, ast.Set)) and not getattr(ds.value, "elts", getattr(ds.value, "keys", None)):
                            return n   # an empty mutable container is an accumulator filled later: keep its name
                        return rec(ds.value, ds, d - 1)
                return n

            def visit_Lambda(self, n):
                return n

            def _comp(self, n):
                # names bound by the comprehension are its own: not temporaries of the function
                bound = set()
                for g in n.generators:
                    bound |= {x.id for x in ast.walk(g.target) if isinstance(x, ast.Name)}
                saved = self.bound
                self.bound = saved | bound
                self.generic_visit(n)
                self.bound = saved
                return n

            visit_ListComp = visit_SetComp = visit_DictComp = visit_GeneratorExp = _comp

        t = T()
        t.bound = frozenset()
        return t.visit(clone(e))

    return _renorm(rec(expr, stmt, depth))


def forwarding_gaps(caller_fn, callee_name, names, as_received=False):
    """For every call of ``callee_name`` in caller_fn: which of ``names`` are NOT passed as name=name (or positionally as
    the bare name)?  Returns [(call, missing names, wrong {name: expr})]."""
    out = []
    flow = None
    for c in calls_in(caller_fn):
        if last_attr(c) != callee_name:
            continue
        passed = {k.arg: k.value for k in c.keywords if k.arg}
        pos = {canon(a): a for a in c.args}
        missing, wrong = [], {}
        for n in names:
            v = None
            if n in passed:
                v = passed[n]
                if canon(v) not in (n, "self." + n):
                    wrong[n] = v
                    continue
            elif n in pos or ("self." + n) in pos:
                v = pos.get(n, pos.get("self." + n))
            else:
                missing.append(n)
                continue
            # the name must still hold what the caller received: a re-binding of the option before the call (a default
            # resolved early, a clamp) forwards something else under the same name
            if as_received and isinstance(v, ast.Name) and v.id in param_names(caller_fn):
                if flow is None:
                    flow = Flow(caller_fn)
                r = flow.resolve(v, at=enclosing_stmt(c))
                if canon(r) != n:
                    wrong[n] = r
        out.append((c, missing, wrong))
    return out


# ----------------------------------------------------------------------------
# Path-condition summaries (refactoring-robust views of branch structure)
# ----------------------------------------------------------------------------

def path_condition(stmt, fn, inline=True):
    """NNF terms that hold when ``stmt`` executes: tests of enclosing if/elif branches (with polarity) and the
    negated tests of earlier sibling `if`s whose body always leaves the block (early return / raise / continue)."""
    terms = []

    def T(test, at):
        e = inline_temporaries(test, at, fn) if inline else test
        return e

    for t, pol in guards_of(stmt):
        owner = enclosing_stmt(t)
        terms.append(nnf(T(t, owner if owner is not None else stmt), not pol))
    for g in exit_guards_before(stmt):
        terms.append(nnf(T(g.test, g), True))
    return terms


def conj(terms):
    flat = set()
    for t in terms:
        if t[0] == "and":
            flat |= set(t[1])
        else:
            flat.add(t)
    if not flat:
        return ("and", frozenset())
    if len(flat) == 1:
        return next(iter(flat))
    return ("and", frozenset(flat))


def find_raising_guard(fn, spec, rename=None, want_loop_iter=None):
    """An `if` whose body always raises and whose firing condition (path condition AND own test, local temporaries
    inlined) is implied by ``spec`` (an NNF term).  Returns the If node or None."""
    partial = []
    for s in walk_local(fn):
        if not isinstance(s, ast.If):
            continue
        for body, pol in ((s.body, True), (s.orelse, False)):
            if not body or not always_raises(body):
                continue
            if not pol and len(s.orelse) == 1 and isinstance(s.orelse[0], ast.If):
                continue
            for inl in (False, True):
                own = nnf(inline_temporaries(s.test, s, fn) if inl else s.test, not pol)
                # firing condition = own test AND the tests of the enclosing branches.  Earlier sibling guards that leave the
                # function (raise, or the early return of a separate input form) are not part of it: if they fired, this
                # input was already rejected / handled by its own path.
                # (the `else` of a branch that always leaves - `if bad1: raise ... elif bad2: raise` - is such a sibling in disguise)
                pcs = [nnf(inline_temporaries(t, enclosing_stmt(t) or s, fn) if inl else t, not p_) for t, p_ in guards_of(s)
                       if not (not p_ and isinstance(parent(t), ast.If) and parent(t).test is t and terminates(parent(t).body))]
                firing = conj([own] + pcs)
                if rename:
                    firing = _rename_term(firing, rename)
                if nnf_implies(spec, firing):
                    return s
                if inl and _atoms(firing, set()) & _atoms(spec, set()):
                    partial.append((s, firing))
    # a compound condition may be rejected by several guards, one per alternative (`if a: raise` ... `if b: raise` for `a or b`): the rejections together
    # must cover the specification
    if len(partial) > 1:
        union = ("or", frozenset(f for _, f in partial))
        if nnf_implies(spec, union):
            return partial[0][0]
    return None


def _from_raising_exit(term, stmt, fn, inl=True):
    for g in exit_guards_before(stmt):
        if always_raises(g.body) and nnf(inline_temporaries(g.test, g, fn) if inl else g.test, True) == term:
            return True
    return False


def _rename_term(term, rename):
    if term[0] == "lit":
        return ("lit", term[1], _rn(term[2], rename))
    return (term[0], frozenset(_rename_term(k, rename) for k in term[1]))


def terminal_events(fn, flow=None):
    """[(kind 'return'|'raise', path-condition terms, leaf value expr | None, node)].
    Returned values are resolved with ``flow`` (if given) and conditional expressions are split into cases."""
    out = []
    for s in walk_local(fn):
        if isinstance(s, ast.Raise):
            out.append(("raise", path_condition(s, fn), s.exc, s))
        elif isinstance(s, ast.Return):
            pc = path_condition(s, fn)
            v = s.value
            if v is not None and flow is not None:
                v = flow.resolve(v, at=s)
            if v is None:
                out.append(("return", pc, None, s))
                continue
            for terms, leaf in ifexp_terms(v):
                out.append(("return", pc + terms, leaf, s))
    return out


def ifexp_terms(v, limit=64):
    """Split nested conditional expressions: [(NNF terms of the taken branches, leaf expr)]."""
    out = []
    todo = [([], v)]
    while todo:
        terms, n = todo.pop()
        x = None
        for y in ast.walk(n):
            if isinstance(y, ast.IfExp):
                x = y
                break
        if x is None or len(out) + len(todo) > limit:
            out.append((terms, n))
            continue
        for pol, branch in ((True, x.body), (False, x.orelse)):
            t = nnf(x.test, not pol)
            if any(_contradicts(t, u) for u in terms):
                continue
            n2 = _replace(clone(n), x, branch)
            todo.append((terms + [t], n2))
    return out


def _contradicts(a, b):
    return a[0] == "lit" and b[0] == "lit" and a[2] == b[2] and a[1] != b[1]


def term_strings(terms):
    """canonical literal strings ('+lit' / '-lit') of a list of NNF terms (conjunction flattened)"""
    out = set()
    c = conj(terms)
    lits = c[1] if c[0] == "and" else [c]
    for l in lits:
        if l[0] == "lit":
            out.add(("+" if l[1] else "-") + l[2])
        else:
            out.add(str(l))
    return out


# ----------------------------------------------------------------------------
# Writes into storage shared with given root objects (flow-insensitive may-alias over views)
# ----------------------------------------------------------------------------

_VIEW_CALLS = {"to_value", "asarray", "asanyarray", "atleast_1d", "atleast_2d", "ravel", "reshape", "squeeze", "view", "transpose", "swapaxes", "diagonal", "broadcast_to", "expand_dims"}
_VIEW_ATTRS = {"T", "value", "real", "imag", "flat", "data", "base", "columns", "tbl"}
_MUTATING_METHODS = {"sort", "fill", "resize", "put", "itemset", "setfield", "partition", "append", "extend", "insert", "pop", "remove", "clear", "update",
                     "setdefault", "add_column", "add_columns", "remove_column", "remove_columns", "rename_column", "replace_column", "add_row", "remove_row",
                     "remove_rows", "reverse", "popitem", "keep_columns", "setflags"}
_MUTATING_FUNCS = {"shuffle": 0, "copyto": 0, "put": 0, "place": 0, "putmask": 0, "fill_diagonal": 0, "put_along_axis": 0}


def storage_writes(fn, is_root):
    """Statements / calls of ``fn`` that may write into storage shared with a root object.  ``is_root(expr)`` decides for Name / Attribute / Call nodes
    whether the expression IS a root object.  Views are followed through plain bindings, subscripts (not by an integer constant: that yields a scalar),
    view attributes (.T, .value, ...), view calls (np.asarray, .reshape, ...), conditional expressions and loop targets.  Anything produced by another call or
    by arithmetic is fresh.  Returns [(node, text)]."""
    binds = {}
    for s in walk_local(fn):
        if isinstance(s, ast.Assign):
            for t in s.targets:
                if isinstance(t, ast.Name):
                    binds.setdefault(t.id, []).append(s.value)
                elif isinstance(t, (ast.Tuple, ast.List)) and isinstance(s.value, (ast.Tuple, ast.List)) and len(t.elts) == len(s.value.elts):
                    for a, b in zip(t.elts, s.value.elts):
                        if isinstance(a, ast.Name):
                            binds.setdefault(a.id, []).append(b)
                elif isinstance(t, (ast.Tuple, ast.List)):
                    # a, b, c = f(...): each name holds a component of the result
                    for a in t.elts:
                        a = a.value if isinstance(a, ast.Starred) else a
                        if isinstance(a, ast.Name):
                            binds.setdefault(a.id, []).append(ast.Subscript(value=s.value, slice=ast.Name(id="@elem", ctx=ast.Load()), ctx=ast.Load()))
        elif isinstance(s, (ast.AnnAssign, ast.NamedExpr)) and isinstance(s.target, ast.Name) and s.value is not None:
            binds.setdefault(s.target.id, []).append(s.value)
        elif isinstance(s, ast.For) and isinstance(s.target, ast.Name):
            binds.setdefault(s.target.id, []).append(ast.Subscript(value=s.iter, slice=ast.Name(id="@elem", ctx=ast.Load()), ctx=ast.Load()))
    seen = {}

    def alias(e, depth=0):
        if depth > 12:
            return False
        if is_root(e):
            return True
        if isinstance(e, ast.Name):
            if e.id in seen:
                return seen[e.id]
            seen[e.id] = False
            r = any(alias(v, depth + 1) for v in binds.get(e.id, []))
            seen[e.id] = r
            return r
        if isinstance(e, ast.Subscript):
            if isinstance(e.slice, ast.Constant) and isinstance(e.slice.value, int):
                return False
            return alias(e.value, depth + 1)
        if isinstance(e, ast.Attribute):
            return e.attr in _VIEW_ATTRS and alias(e.value, depth + 1)
        if isinstance(e, ast.IfExp):
            return alias(e.body, depth + 1) or alias(e.orelse, depth + 1)
        if isinstance(e, ast.Starred):
            return alias(e.value, depth + 1)
        if isinstance(e, ast.Call):
            nm = e.func.attr if isinstance(e.func, ast.Attribute) else e.func.id if isinstance(e.func, ast.Name) else ""
            if nm in _VIEW_CALLS:
                if isinstance(e.func, ast.Attribute) and alias(e.func.value, depth + 1):
                    return True
                return bool(e.args) and alias(e.args[0], depth + 1)
        return False

    out = []
    for s in walk_local(fn):
        if isinstance(s, ast.AugAssign):
            t = s.target
            if isinstance(t, ast.Name) and alias(t):
                out.append((s, "`%s` updates in place an array that is a view of the input" % unparse(s)[:60]))
            elif isinstance(t, (ast.Subscript, ast.Attribute)) and alias(t.value):
                out.append((s, "`%s` writes into the input" % unparse(s)[:60]))
        elif isinstance(s, ast.Assign):
            for t in s.targets:
                for tt in (t.elts if isinstance(t, (ast.Tuple, ast.List)) else [t]):
                    if isinstance(tt, (ast.Subscript, ast.Attribute)) and alias(tt.value):
                        out.append((s, "`%s` writes into the input" % unparse(s)[:60]))
        elif isinstance(s, ast.Delete):
            for t in s.targets:
                if isinstance(t, (ast.Subscript, ast.Attribute)) and alias(t.value):
                    out.append((s, "`%s` deletes from the input" % unparse(s)[:60]))
        elif isinstance(s, ast.Call):
            for k in s.keywords:
                if k.arg == "out" and alias(k.value):
                    out.append((s, "`%s` writes its result into the input (out=)" % unparse(s)[:70]))
            if isinstance(s.func, ast.Attribute) and s.func.attr in _MUTATING_METHODS and alias(s.func.value):
                out.append((s, "`%s` changes the input in place" % unparse(s)[:60]))
            nm = (call_name(s) or "").split(".")[-1]
            if nm in _MUTATING_FUNCS and len(s.args) > _MUTATING_FUNCS[nm] and alias(s.args[_MUTATING_FUNCS[nm]]):
                out.append((s, "`%s` changes the input in place" % unparse(s)[:60]))
    return out


# ----------------------------------------------------------------------------
# Facts that hold at a statement, as expressions (for arithmetic reasoning over guards)
# ----------------------------------------------------------------------------

_FLIP = {ast.Lt: ast.GtE, ast.GtE: ast.Lt, ast.Gt: ast.LtE, ast.LtE: ast.Gt, ast.Eq: ast.NotEq, ast.NotEq: ast.Eq, ast.Is: ast.IsNot, ast.IsNot: ast.Is, ast.In: ast.NotIn, ast.NotIn: ast.In}


def conjunct_exprs(test, pol=True):
    """Expressions that all hold when ``test`` has truth value ``pol``: conjunctions are split, negations pushed inward (De Morgan), negated
    single comparisons flipped.  A disjunction that must hold contributes itself (no conjunct can be extracted)."""
    if isinstance(test, ast.UnaryOp) and isinstance(test.op, ast.Not):
        return conjunct_exprs(test.operand, not pol)
    if isinstance(test, ast.BoolOp):
        is_and = isinstance(test.op, ast.And)
        if is_and == pol:   # (a and b) true  /  (a or b) false: every part holds with that polarity
            out = []
            for v in test.values:
                out += conjunct_exprs(v, pol)
            return out
        return [test if pol else ast.UnaryOp(op=ast.Not(), operand=test)]
    if isinstance(test, ast.Compare) and len(test.ops) > 1 and pol:
        out = []
        left = test.left
        for op, r in zip(test.ops, test.comparators):
            out.append(ast.Compare(left=left, ops=[op], comparators=[r]))
            left = r
        return out
    if pol:
        return [test]
    if isinstance(test, ast.Compare) and len(test.ops) == 1 and type(test.ops[0]) in _FLIP:
        return [ast.Compare(left=test.left, ops=[_FLIP[type(test.ops[0])]()], comparators=test.comparators)]
    return [ast.UnaryOp(op=ast.Not(), operand=test)]


def facts_at(stmt):
    """Expressions that hold whenever ``stmt`` executes: conjuncts of the enclosing branch tests (with polarity) and negated tests of earlier
    always-leaving guards."""
    out = []
    for t, pol in guards_of(stmt):
        out += conjunct_exprs(t, pol)
    for g in exit_guards_before(stmt):
        out += conjunct_exprs(g.test, False)
    return out


def doc_index(node):
    """position of the statement holding ``node`` in the document order of its (normalised) function body - use this, never line numbers, to order
    statements: spliced-in helper bodies keep the line numbers of the helper's source"""
    st = node if isinstance(node, ast.stmt) else enclosing_stmt(node)
    fn = enclosing_function(st) if st is not None else None
    if fn is None:
        return getattr(node, "lineno", 0)
    cache = getattr(fn, "_doc_index", None)
    if cache is None or id(st) not in cache:
        cache = {}

        def rec(n):
            if isinstance(n, ast.stmt):
                cache[id(n)] = len(cache)
            for ch in ast.iter_child_nodes(n):
                if isinstance(ch, FUNC_TYPES) or isinstance(ch, ast.ClassDef):
                    cache[id(ch)] = len(cache)
                    continue
                rec(ch)
        for s_ in fn.body:
            rec(s_)
        try:
            fn._doc_index = cache
        except Exception:
            pass
    return cache.get(id(st), 0)
