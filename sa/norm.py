"""Exact normal forms for arithmetic expressions.

Rational normal form: an expression over + - * / ** (rational constant
exponents), sqrt, unary minus is expanded to numerator / denominator
polynomials over *atoms* (canonical strings of non-arithmetic sub-terms) with
Fraction coefficients.  Two expressions are equal iff N1*D2 - N2*D1 expands to
the zero polynomial, so algebraic rewrites (factor order, temporaries,
x/(1+s^2 x) vs 1/(1/x+s^2)) neither hide a difference nor raise one.

No values, no solver: only polynomial expansion.
"""
import ast
from fractions import Fraction

SQRT_NAMES = {"sqrt"}
# module prefixes that are transparent for elementary function names
MATH_PREFIXES = ("np.", "numpy.", "pt.", "math.", "tt.", "pytensor.tensor.", "libc.math.")
CONST_ATOMS = {"np.pi": "pi", "numpy.pi": "pi", "math.pi": "pi", "pi": "pi"}


def dotted(node):
    parts = []
    while isinstance(node, ast.Attribute):
        parts.append(node.attr)
        node = node.value
    if isinstance(node, ast.Name):
        parts.append(node.id)
        return ".".join(reversed(parts))
    return None


def short_fn(name):
    if name is None:
        return None
    for p in MATH_PREFIXES:
        if name.startswith(p):
            return name[len(p):]
    return name


class Poly:
    """dict: monomial (tuple of (atom, Fraction exp) sorted) -> Fraction coeff"""

    __slots__ = ("t",)

    def __init__(self, t=None):
        self.t = {k: v for k, v in (t or {}).items() if v != 0}

    @staticmethod
    def const(c):
        return Poly({(): Fraction(c)})

    @staticmethod
    def atom(a, e=1):
        return Poly({((a, Fraction(e)),): Fraction(1)})

    def __add__(self, o):
        t = dict(self.t)
        for k, v in o.t.items():
            t[k] = t.get(k, 0) + v
        return Poly(t)

    def __neg__(self):
        return Poly({k: -v for k, v in self.t.items()})

    def __sub__(self, o):
        return self + (-o)

    def __mul__(self, o):
        t = {}
        for k1, v1 in self.t.items():
            for k2, v2 in o.t.items():
                k = _mono_mul(k1, k2)
                t[k] = t.get(k, 0) + v1 * v2
        return Poly(t)

    def is_zero(self):
        return not self.t

    def is_const(self):
        return all(k == () for k in self.t)

    def const_value(self):
        return self.t.get((), Fraction(0))

    def is_monomial(self):
        return len(self.t) == 1

    def key(self):
        return tuple(sorted((k, v) for k, v in self.t.items()))

    def __eq__(self, o):
        return isinstance(o, Poly) and self.t == o.t

    def __hash__(self):
        return hash(self.key())

    def atoms(self):
        s = set()
        for k in self.t:
            for a, _ in k:
                s.add(a)
        return s

    def __str__(self):
        if not self.t:
            return "0"
        out = []
        for k, v in sorted(self.t.items(), key=lambda kv: str(kv[0])):
            m = "*".join(a if e == 1 else "%s^(%s)" % (a, e) for a, e in k)
            if not m:
                out.append(str(v))
            elif v == 1:
                out.append(m)
            else:
                out.append("%s*%s" % (v, m))
        return " + ".join(out)


def _mono_mul(k1, k2):
    d = dict(k1)
    for a, e in k2:
        d[a] = d.get(a, 0) + e
    return tuple(sorted((a, e) for a, e in d.items() if e != 0))


class Rat:
    __slots__ = ("n", "d")

    def __init__(self, n, d=None):
        self.n = n
        self.d = d if d is not None else Poly.const(1)
        self._simplify()

    def _simplify(self):
        # cancel a monomial denominator into the numerator (negative exponents allowed)
        if self.d.is_monomial():
            (k, v), = self.d.t.items()
            inv = Poly({tuple((a, -e) for a, e in k): Fraction(1) / v})
            self.n = self.n * inv
            self.d = Poly.const(1)

    def __add__(self, o):
        return Rat(self.n * o.d + o.n * self.d, self.d * o.d)

    def __sub__(self, o):
        return Rat(self.n * o.d - o.n * self.d, self.d * o.d)

    def __neg__(self):
        return Rat(-self.n, self.d)

    def __mul__(self, o):
        return Rat(self.n * o.n, self.d * o.d)

    def __truediv__(self, o):
        if o.n.is_zero():
            raise ZeroDivisionError
        return Rat(self.n * o.d, self.d * o.n)

    def equals(self, o):
        a, b = self.expanded(), o.expanded()
        return (a.n * b.d - b.n * a.d).is_zero()

    def expanded(self):
        """Re-expand composite atoms (sums under a fractional power) whose
        exponent has become an integer, e.g. sqrt(1-e**2)**2 -> 1-e**2."""
        def needs(p):
            return any(a in COMPOSITE and e.denominator == 1 for k in p.t for a, e in k)
        if not (needs(self.n) or needs(self.d)):
            return self

        def conv(p):
            tot = Rat(Poly.const(0))
            for k, v in p.t.items():
                term = Rat(Poly.const(v))
                for a, e in k:
                    if a in COMPOSITE and e.denominator == 1:
                        term = term * COMPOSITE[a].pow(e)
                    else:
                        term = term * Rat(Poly.atom(a, e))
                tot = tot + term
            return tot
        return (conv(self.n) / conv(self.d)).expanded()

    def is_zero(self):
        return self.n.is_zero()

    def is_const(self):
        return self.n.is_const() and self.d.is_const()

    def const_value(self):
        return self.n.const_value() / self.d.const_value()

    def atoms(self):
        return self.n.atoms() | self.d.atoms()

    def canon(self):
        # canonical-ish string: normalise denominator's leading coefficient
        self = self.expanded()
        if self.d.is_const() and self.n.is_const():
            return str(self.n.const_value() / self.d.const_value())
        if self.d.is_const():
            c = self.d.const_value()
            n = Poly({k: v / c for k, v in self.n.t.items()})
            return "(%s)" % n
        lead = sorted(self.d.t.items(), key=lambda kv: str(kv[0]))[0][1]
        n = Poly({k: v / lead for k, v in self.n.t.items()})
        d = Poly({k: v / lead for k, v in self.d.t.items()})
        return "(%s)/(%s)" % (n, d)

    def __str__(self):
        return self.canon()

    def pow(self, e):
        e = Fraction(e)
        if e.denominator == 1:
            k = int(e)
            if k == 0:
                return Rat(Poly.const(1))
            base = self if k > 0 else Rat(Poly.const(1)) / self
            r = Rat(Poly.const(1))
            for _ in range(abs(k)):
                r = r * base
            return r
        # fractional exponent: distribute over monomials, else make an atom
        if self.d.is_const() and self.n.is_monomial():
            (k, v), = self.n.t.items()
            v = v / self.d.const_value()
            coeff = _frac_pow(v, e)
            if coeff is not None:
                return Rat(Poly({tuple((a, x * e) for a, x in k): coeff}))
            mono = Poly({tuple((a, x * e) for a, x in k): Fraction(1)})
            return Rat(mono * Poly.atom("(%s)" % v, e))
        key = self.canon()
        COMPOSITE[key] = self
        return Rat(Poly.atom(key, e))


COMPOSITE = {}


def _frac_pow(v, e):
    """v**e for rationals when the result is rational, else None."""
    if v == 1:
        return Fraction(1)
    if v <= 0:
        return None
    num = _int_root(v.numerator ** abs(e.numerator), e.denominator)
    den = _int_root(v.denominator ** abs(e.numerator), e.denominator)
    if num is None or den is None:
        return None
    r = Fraction(num, den)
    return r if e > 0 else 1 / r


def _int_root(n, k):
    r = round(n ** (1.0 / k))
    for c in (r - 1, r, r + 1):
        if c >= 0 and c ** k == n:
            return c
    return None


class NormError(Exception):
    pass


def to_fraction(value):
    if isinstance(value, bool):
        raise NormError("bool constant")
    if isinstance(value, int):
        return Fraction(value)
    if isinstance(value, float):
        if value != value or value in (float("inf"), float("-inf")):
            raise NormError("non-finite constant")
        return Fraction(str(value))
    raise NormError("non numeric constant %r" % (value,))


def rat(node, atomizer=None):
    """Rational normal form of an ast expression."""
    A = atomizer or default_atom
    if isinstance(node, ast.Constant):
        try:
            return Rat(Poly.const(to_fraction(node.value)))
        except NormError:
            return Rat(Poly.atom(A(node)))
    if isinstance(node, ast.UnaryOp):
        if isinstance(node.op, ast.USub):
            return -rat(node.operand, A)
        if isinstance(node.op, ast.UAdd):
            return rat(node.operand, A)
        return Rat(Poly.atom(A(node)))
    if isinstance(node, ast.BinOp):
        if isinstance(node.op, ast.Add):
            return rat(node.left, A) + rat(node.right, A)
        if isinstance(node.op, ast.Sub):
            return rat(node.left, A) - rat(node.right, A)
        if isinstance(node.op, ast.Mult):
            return rat(node.left, A) * rat(node.right, A)
        if isinstance(node.op, ast.Div):
            r = rat(node.right, A)
            if r.is_zero():
                return Rat(Poly.atom(A(node)))
            return rat(node.left, A) / r
        if isinstance(node.op, ast.Pow):
            e = rat(node.right, A)
            if e.is_const():
                return rat(node.left, A).pow(e.const_value())
            return Rat(Poly.atom(A(node)))
        return Rat(Poly.atom(A(node)))
    if isinstance(node, ast.Call):
        fn = short_fn(dotted(node.func))
        if fn in SQRT_NAMES and len(node.args) == 1 and not node.keywords:
            return rat(node.args[0], A).pow(Fraction(1, 2))
        if fn == "pow" and len(node.args) == 2 and not node.keywords:
            e = rat(node.args[1], A)
            if e.is_const():
                return rat(node.args[0], A).pow(e.const_value())
        if fn in ("square",) and len(node.args) == 1:
            return rat(node.args[0], A).pow(2)
        return Rat(Poly.atom(A(node)))
    d = dotted(node)
    if d in CONST_ATOMS:
        return Rat(Poly.atom(CONST_ATOMS[d]))
    return Rat(Poly.atom(A(node)))


def default_atom(node):
    """Canonical string of a non-arithmetic term (arguments normalised)."""
    if isinstance(node, ast.Call):
        fn = short_fn(dotted(node.func))
        if fn is None:
            fn = canon(node.func)
            # method call on an expression: keep receiver canonical
        args = [canon(a) for a in node.args]
        kws = sorted("%s=%s" % (k.arg, canon(k.value)) for k in node.keywords)
        return "%s(%s)" % (fn, ", ".join(args + kws))
    if isinstance(node, ast.Subscript):
        return "%s[%s]" % (canon(node.value), canon(node.slice))
    if isinstance(node, ast.Attribute):
        d = dotted(node)
        if d:
            return CONST_ATOMS.get(d, d)
        return "%s.%s" % (canon(node.value), node.attr)
    if isinstance(node, ast.Name):
        return CONST_ATOMS.get(node.id, node.id)
    if isinstance(node, ast.Tuple):
        return "(%s)" % ", ".join(canon(e) for e in node.elts)
    if isinstance(node, ast.Slice):
        return "%s:%s:%s" % tuple(canon(x) if x is not None else "" for x in (node.lower, node.upper, node.step))
    if isinstance(node, ast.Constant):
        return repr(node.value)
    if isinstance(node, ast.Compare) and len(node.ops) == 1:
        return cmp_canon(node)
    if isinstance(node, ast.IfExp):
        return "ite(%s, %s, %s)" % (canon(node.test), canon(node.body), canon(node.orelse))
    if isinstance(node, ast.UnaryOp) and isinstance(node.op, ast.Not):
        return "not(%s)" % canon(node.operand)
    if isinstance(node, ast.UnaryOp) and isinstance(node.op, ast.Invert):
        return "~(%s)" % canon(node.operand)
    if isinstance(node, ast.BoolOp):
        op = "and" if isinstance(node.op, ast.And) else "or"
        return "%s(%s)" % (op, ", ".join(sorted(canon(v) for v in node.values)))
    if isinstance(node, ast.BinOp) and isinstance(node.op, (ast.BitAnd, ast.BitOr)):
        op = "band" if isinstance(node.op, ast.BitAnd) else "bor"
        return "%s(%s)" % (op, ", ".join(sorted([canon(node.left), canon(node.right)])))
    if isinstance(node, ast.BinOp) and isinstance(node.op, (ast.Mod, ast.FloorDiv, ast.MatMult)):
        op = {ast.Mod: "mod", ast.FloorDiv: "floordiv", ast.MatMult: "matmul"}[type(node.op)]
        return "%s(%s, %s)" % (op, canon(node.left), canon(node.right))
    try:
        return ast.unparse(node)
    except Exception:
        return ast.dump(node)


def canon(node):
    """Canonical string of any expression (arithmetic parts normalised)."""
    if isinstance(node, (ast.BinOp, ast.UnaryOp, ast.Constant)) or (
        isinstance(node, ast.Call) and short_fn(dotted(node.func)) in SQRT_NAMES
    ):
        if isinstance(node, ast.Constant) and not isinstance(node.value, (int, float)) or isinstance(
            getattr(node, "value", None), bool
        ):
            return default_atom(node)
        if isinstance(node, ast.BinOp) and not isinstance(node.op, (ast.Add, ast.Sub, ast.Mult, ast.Div, ast.Pow)):
            return default_atom(node)
        if isinstance(node, ast.UnaryOp) and not isinstance(node.op, (ast.USub, ast.UAdd)):
            return default_atom(node)
        try:
            return rat(node).canon()
        except (ZeroDivisionError, NormError):
            return default_atom(node)
    return default_atom(node)


_FLIP = {ast.Gt: ast.Lt, ast.Lt: ast.Gt, ast.GtE: ast.LtE, ast.LtE: ast.GtE, ast.Eq: ast.Eq, ast.NotEq: ast.NotEq}
_OPNAME = {ast.Gt: ">", ast.Lt: "<", ast.GtE: ">=", ast.LtE: "<=", ast.Eq: "==", ast.NotEq: "!=",
           ast.Is: "is", ast.IsNot: "is not", ast.In: "in", ast.NotIn: "not in"}


def cmp_parts(node):
    """Compare -> (op, left, right) oriented so that op is one of > >= == != is in ...
    ('a < b' becomes ('>', b, a))."""
    if not (isinstance(node, ast.Compare) and len(node.ops) == 1):
        return None
    op, l, r = type(node.ops[0]), node.left, node.comparators[0]
    if op in (ast.Lt, ast.LtE):
        op, l, r = _FLIP[op], r, l
    return _OPNAME[op], l, r


def cmp_canon(node):
    op, l, r = cmp_parts(node)
    if op in (">", ">="):
        try:
            return "%s %s 0" % ((rat(l) - rat(r)).canon(), op)
        except (ZeroDivisionError, NormError):
            pass
    if op in ("==", "!="):
        a, b = sorted([canon(l), canon(r)])
        return "%s %s %s" % (a, op, b)
    return "%s %s %s" % (canon(l), op, canon(r))


def equal(a, b):
    """Are two ast expressions arithmetically identical?"""
    try:
        return rat(a).equals(rat(b))
    except (ZeroDivisionError, NormError):
        return canon(a) == canon(b)


def parse(s):
    from .idioms import normalize
    from .prenorm import normalize_calls
    return normalize(normalize_calls(ast.parse(s, mode="eval"))).body


def equal_src(node, src):
    return equal(node, parse(src))
