"""The acceptance corpus (DESIGN.md appendix A): mutants that must be reported
by the named rule and behaviour-preserving twins that must stay silent."""

CORPUS = []

UT = "thejoker/utils.py"
MP = "thejoker/multiproc_helpers.py"
LH = "thejoker/likelihood_helpers.py"
TJ = "thejoker/thejoker.py"
SM = "thejoker/samples.py"
SH = "thejoker/samples_helpers.py"
SA = "thejoker/samples_analysis.py"
DT = "thejoker/data.py"
DH = "thejoker/data_helpers.py"
PR = "thejoker/prior.py"
PH = "thejoker/prior_helpers.py"
DI = "thejoker/distributions.py"
PYX = "thejoker/src/fast_likelihood.pyx"
KO = "thejoker/_keplerian_orbit.py"
PL = "thejoker/plot.py"


def _edits(path, old, new):
    if isinstance(path, list):
        return path
    return [(path, old, new)]


def M(prop, rule, path, old=None, new=None, name=None):
    CORPUS.append({"kind": "M", "prop": prop, "rule": rule, "edits": _edits(path, old, new),
                   "name": name or "%s -> %s" % ((old or "")[:30].strip(), (new or "")[:30].strip())})


def T(prop, path, old=None, new=None, name=None):
    CORPUS.append({"kind": "T", "prop": prop, "rule": None, "edits": _edits(path, old, new),
                   "name": name or "%s -> %s" % ((old or "")[:30].strip(), (new or "")[:30].strip())})


# ---------------------------------------------------------------- C16
M("C16", "C16-P", UT, "            i1 = i2\n", "            i1 = i2 + 1\n", "cursor skips a row between batches")
M("C16", "C16-P", UT, "if i < rmdr:", "if i <= rmdr:", "remainder given to one batch too many")
M("C16", "C16-P", UT, "tasks.append([(i1, i2), i1] + args)", "tasks.append([(i1, i2), i] + args)", "task id is the batch number")
M("C16", "C16-P", UT, "if n_batches > 0 and n_tasks >= n_batches:", "if n_tasks > 0:", "guard no longer bounds n_batches")
M("C16", "C16-P", UT, "tasks.append([(start_idx, n_tasks + start_idx), start_idx] + args)", "tasks.append([(start_idx, n_tasks), start_idx] + args)", "fall-back range forgets start_idx")
M("C16", "C16-P", UT, "        i1 = start_idx\n", "        i1 = 0\n", "cursor ignores start_idx")
M("C16", "C16-P", UT, "tasks.append([arr[i1:i2], i1] + args)", "tasks.append([arr[i1:i2 - 1], i1] + args)", "array batches drop their last row")
M("C16", "C16-P", UT, "            i2 = i1 + base_batch_size\n", "            i2 = i1 + base_batch_size + 1\n", "batches overlap/grow by one")
M("C16", "C16-P", UT, "rmdr = n_tasks % n_batches", "rmdr = n_tasks % base_batch_size", "wrong remainder")
M("C16", "C16-P", UT, "tasks.append([arr[start_idx : n_tasks + start_idx], start_idx] + args)", "tasks.append([arr[start_idx:n_tasks], start_idx] + args)", "fall-back array slice forgets start_idx")
T("C16", UT, "if n_batches > 0 and n_tasks >= n_batches:", "if n_batches > 0 and n_tasks > n_batches:", "stronger guard only takes the fall-back more often")
T("C16", UT, "            i2 = i1 + base_batch_size\n", "            i2 = base_batch_size + i1\n", "commuted sum")
T("C16", UT, "            i2 = i1 + base_batch_size\n            if i < rmdr:\n                i2 += 1\n", "            i2 = i1 + base_batch_size + (1 if i < rmdr else 0)\n", "conditional expression")
T("C16", UT, "if n_batches > 0 and n_tasks >= n_batches:", "if n_batches >= 1 and n_batches <= n_tasks:", "equivalent guard")
M("C16", "C16-RUN", MP, "n_samples, n_batches=n_batches, arr=samples_idx, args=task_args", "n_samples, n_batches=n_batches, args=task_args", "samples_idx dropped")
M("C16", "C16-RUN", MP, "        n_samples = len(samples_idx)\n", "        n_samples = len(samples_idx) - 1\n", "last requested row dropped")
M("C16", "C16-RUN", MP, "        results.append(res)\n\n    return results", "        results.append(res)\n\n    return results[::-1]", "results reversed")
M("C16", "C16-RUN", MP, 'raise ValueError("Don\'t specify both n_prior_samples and samples_idx")', "pass", "both selectors accepted")
M("C16", "C16-TUPLE", MP, "    slice_or_idx, task_id, prior_samples_file, joker_helper = task\n", "    slice_or_idx, task_id, joker_helper, prior_samples_file = task\n", "worker unpack order swapped")
M("C16", "C16-TUPLE", MP, "    task_args = (prior_samples_file, joker_helper, n_linear_samples)\n", "    task_args = (prior_samples_file, joker_helper, n_linear_samples, pool)\n", "producer adds an element the worker does not unpack")

# ---------------------------------------------------------------- C10
M("C10", "C10-GLOBAL", LH, "    uu = rng.uniform(size=len(lls))\n", "    np.random.seed(42)\n    uu = rng.uniform(size=len(lls))\n", "np.random.seed added")
M("C10", "C10-GLOBAL", PR, "        samples_values = pm.draw(par_list, draws=size, random_seed=rng)\n",
  "        from .utils import rng_context\n        with rng_context(rng):\n            samples_values = pm.draw(par_list, draws=size, random_seed=rng)\n", "rng_context used in JokerPrior.sample")
M("C10", "C10-GLOBAL", LH, "    uu = rng.uniform(size=len(lls))\n", "    import random\n    uu = rng.uniform(size=len(lls)) * (1 - 1e-16 * random.random())\n", "stdlib random")
M("C10", "C10-GLOBAL", MP, "    uu = rng.uniform(size=len(lls))\n", "    uu = np.random.uniform(size=len(lls))\n", "acceptance uniforms from the global RNG")
M("C10", "C10-PROV", LH, "    uu = rng.uniform(size=len(lls))\n", "    uu = np.random.default_rng().uniform(size=len(lls))\n", "draw site switched to a fresh generator")
M("C10", "C10-F", MP, "        batch, n_linear_samples, rng\n", "        batch, n_linear_samples, np.random.default_rng(task_id)\n", "worker ignores its task generator (seeds by task id)")
M("C10", "C10-PROV", PR, "pm.draw(par_list, draws=size, random_seed=rng)", "pm.draw(par_list, draws=size)", "pm.draw without random_seed")
M("C10", "C10-FWD", TJ, "                size=N, return_logprobs=return_logprobs, rng=self.rng\n", "                size=N, return_logprobs=return_logprobs\n", "rng not forwarded to prior.sample (reverse of fix)")
M("C10", "C10-FWD", MP, "        samples_idx=samples_idx,\n        rng=rng,\n    )", "        samples_idx=samples_idx,\n    )", "make_full_samples does not hand rng to run_worker")
M("C10", "C10-FWD", TJ, "                prior_samples,\n                rng=self.rng,\n                ln_prior=ln_prior,\n                max_posterior_samples", "                prior_samples,\n                rng=np.random.default_rng(),\n                ln_prior=ln_prior,\n                max_posterior_samples", "in-memory rejection gets a fresh generator")
M("C10", "C10-FWD", UT, "            units=units,\n            rng=rng,\n        )", "            units=units,\n        )", "read_batch drops rng on the random branch")
M("C10", "C10-SPAWN", MP, "Generator(PCG64(sg[i]))", "Generator(PCG64(sg[0]))", "every batch gets child 0")
M("C10", "C10-SPAWN", MP, "_seed_seq.spawn(len(tasks))", "_seed_seq.spawn(1) * len(tasks)", "one child replicated")
M("C10", "C10-SPAWN", MP, "Generator(PCG64(sg[i]))", "Generator(PCG64())", "unseeded bit generator per task")
M("C10", "C10-SPAWN", MP, "Generator(PCG64(sg[i]))", "Generator(PCG64(i))", "task generators seeded by task number (same across calls)")
M("C10", "C10-SELFRNG", TJ, "        joker_helper = self._make_joker_helper(data)  # also validates data\n\n        if isinstance(prior_samples, int):",
  "        joker_helper = self._make_joker_helper(data)  # also validates data\n        self.rng = np.random.default_rng(0)\n\n        if isinstance(prior_samples, int):", "sampler reseeds itself on each call")
T("C10", MP, "    uu = rng.uniform(size=len(lls))\n", "    gen = rng\n    uu = gen.uniform(size=len(lls))\n", "generator alias")
T("C10", MP, "        sg = rng.bit_generator._seed_seq.spawn(len(tasks))\n", "        seed_seq = rng.bit_generator._seed_seq\n        sg = seed_seq.spawn(len(tasks))\n", "seed sequence temporary")

# ---------------------------------------------------------------- C13
M("C13", "C13-TMP", UT, "            except Exception as e:\n                raise e\n            finally:\n                os.unlink(f.name)\n", "            except Exception as e:\n                raise e\n            os.unlink(f.name)\n", "finally removed: unlink only on success")
M("C13", "C13-TMP", UT, "            finally:\n                os.unlink(f.name)\n", "            finally:\n                if func_return is not None:\n                    os.unlink(f.name)\n", "unlink guarded")
M("C13", "C13-TMP", UT, "            f.close()\n\n            try:\n                # write samples to tempfile and recursively call this method\n                prior_samples.write(f.name, overwrite=True)\n",
  "            f.close()\n            prior_samples.write(f.name, overwrite=True)\n\n            try:\n", "cache write hoisted out of the try")
M("C13", "C13-TMP", UT, "            except Exception as e:\n                raise e\n            finally:", "            except Exception as e:\n                func_return = None\n            finally:", "wrapper swallows the failure")
M("C13", "C13-SWALLOW", MP, "    results = []\n    for res in pool.map(worker, tasks):\n        results.append(res)\n",
  "    results = []\n    try:\n        for res in pool.map(worker, tasks):\n            results.append(res)\n    except Exception:\n        logger.warning('worker failed')\n", "pool failure logged, not raised")
M("C13", "C13-SWALLOW", UT, "        for i, name in enumerate(columns):\n            batch[:, i] = f.root[path].read_coordinates(idx, field=name)\n",
  "        for i, name in enumerate(columns):\n            try:\n                batch[:, i] = f.root[path].read_coordinates(idx, field=name)\n            except IndexError:\n                pass\n", "out-of-range rows silently left zero")
T("C13", UT, "            except Exception as e:\n                raise e\n", "            except Exception:\n                raise\n", "bare re-raise")
M("C13", "C13-RO", MP, '    with tb.open_file(prior_samples_file, mode="r") as f:\n        n_samples', '    with tb.open_file(prior_samples_file, mode="a") as f:\n        n_samples', "run_worker opens the library in append mode")
M("C13", "C13-RO", UT, '    with h5py.File(prior_samples_file, mode="r") as f:\n        table_units = table_header_to_units(f[meta_path(path)])\n\n    batch = None',
  '    with h5py.File(prior_samples_file, mode="r+") as f:\n        table_units = table_header_to_units(f[meta_path(path)])\n\n    batch = None', "slice reader opens r+")
M("C13", "C13-RO", UT, '    with tb.open_file(prior_samples_file, mode="r") as f:\n        idx = rng.choice(f.root[path].shape[0], size=size, replace=False)\n',
  '    f = tb.open_file(prior_samples_file, mode="r")\n    idx = rng.choice(f.root[path].shape[0], size=size, replace=False)\n    f.close()\n', "handle not context-managed")
M("C13", "C13-WRITE", MP, "    # compute likelihoods\n    lls = marginal_ln_likelihood_helper(**ll_kw)\n", "    # compute likelihoods\n    lls = marginal_ln_likelihood_helper(**ll_kw)\n    import os\n    os.remove(prior_samples_file)\n", "helper deletes the library it was given")
M("C13", "C13-WRITE", MP, "    task_args = (prior_samples_file, joker_helper)\n", "    task_args = (prior_samples_file, joker_helper)\n    joker_helper.prior.sample(size=1).write(prior_samples_file, append=True)\n", "helper appends to the user's file")
M("C13", "C13-STATE", TJ, "            samples = rejection_sample_inmem(", "            self._last_helper = joker_helper\n            samples = rejection_sample_inmem(", "sampler caches per-call state on self")
M("C13", "C13-POOL", MP, "    results = []\n    for res in pool.map(worker, tasks):\n        results.append(res)\n",
  "    try:\n        results = list(pool.map(worker, tasks))\n    except Exception:\n        pool.close()\n        raise\n", "pool closed on failure (seeded C13-B)")
T("C13", MP, "    results = []\n    for res in pool.map(worker, tasks):\n        results.append(res)\n", "    results = list(pool.map(worker, tasks))\n", "list(pool.map(...))")

# ---------------------------------------------------------------- C02
for _f, _p in ((LH, "    good_samples_idx = np.where(np.exp(lls - lls.max()) > uu)[0]\n"),):
    M("C02", "C02-ACC", _f, _p, _p.replace("lls.max()", "lls.mean()"), "max -> mean (inmem)")
    M("C02", "C02-ACC", _f, _p, _p.replace("> uu", "< uu"), "comparison inverted (inmem)")
    M("C02", "C02-ACC", _f, _p, _p.replace("> uu", ">= uu"), "non-strict comparison (inmem)")
    M("C02", "C02-ACC", _f, _p, _p.replace("lls.max()", "np.median(lls)"), "max -> median (inmem)")
    M("C02", "C02-ACC", _f, _p, _p.replace("lls.max()", "lls.max(initial=0.0)"), "max with initial=0 (inmem)")
    T("C02", _f, _p, "    good_samples_idx = np.where(uu < np.exp(lls - lls.max()))[0]\n", "mirrored comparison")
    T("C02", _f, _p, "    good_samples_idx = np.where(np.exp(lls - np.max(lls)) > uu)[0]\n", "np.max(lls)")
    T("C02", _f, _p, "    m = lls.max()\n    good_samples_idx = np.where(np.exp(-m + lls) > uu)[0]\n", "temporary for the maximum")
    T("C02", _f, _p, "    good_samples_idx = np.where(lls - lls.max() > np.log(uu))[0]\n", "log form")
M("C02", "C02-ACC", LH, "    uu = rng.uniform(size=len(lls))\n", "    uu = rng.uniform(0, 2, size=len(lls))\n", "uniform(0, 2)")
M("C02", "C02-ACC", LH, "    uu = rng.uniform(size=len(lls))\n", "    uu = rng.uniform(size=len(lls) - 1)\n", "one uniform short")
M("C02", "C02-ACC", LH, "    uu = rng.uniform(size=len(lls))\n", "    uu = np.random.Generator(np.random.PCG64(rng.bit_generator._seed_seq)).uniform(size=len(lls))\n", "uniforms from a re-seeded copy (seeded C02-B)")
M("C02", "C02-ACC", MP, "        aa = np.exp(all_marg_lls - all_marg_lls.max())\n", "        aa = np.exp(all_marg_lls - marg_lls.max())\n", "iterative: max over the last batch only")
M("C02", "C02-ACC", MP, "    good_samples_idx = np.where(np.exp(lls - lls.max()) > uu)[0]\n", "    good_samples_idx = np.where(np.exp(lls - lls.max()) >= uu)[0]\n", "non-strict (file path)")
M("C02", "C02-SIB", LH, "        aa = np.exp(all_marg_lls - all_marg_lls.max())\n        good_samples_idx = np.where(aa > uu)[0]\n", "        aa = np.exp(all_marg_lls - all_marg_lls.max())\n        good_samples_idx = np.where(aa >= uu)[0]\n", "one sibling non-strict")
M("C02", "C02-TRUNC", LH, "    good_samples_idx = good_samples_idx[:max_posterior_samples]\n", "    good_samples_idx = good_samples_idx[-max_posterior_samples:]\n", "suffix truncation")
M("C02", "C02-TRUNC", LH, "    good_samples_idx = good_samples_idx[:max_posterior_samples]\n", "    good_samples_idx = good_samples_idx[1:max_posterior_samples]\n", "first accepted dropped")
M("C02", "C02-TRUNC", MP, "    good_samples_idx = good_samples_idx[:max_posterior_samples]\n", "    good_samples_idx = good_samples_idx[:max_posterior_samples + 1]\n", "one too many")
M("C02", "C02-TRUNC", MP, "    good_samples_idx = good_samples_idx[:max_posterior_samples]\n", "", "truncation deleted (file path)")
M("C02", "C02-TRUNC", MP, "    good_samples_idx = good_samples_idx[:max_posterior_samples]\n", "    good_samples_idx = rng.permutation(good_samples_idx)[:max_posterior_samples]\n", "accepted rows shuffled before truncation")
M("C02", "C02-COPY", PYX, "                samples[n, j, 1] = e\n                samples[n, j, 2] = om\n", "                samples[n, j, 1] = om\n                samples[n, j, 2] = e\n", "kernel swaps e and omega on output")
M("C02", "C02-COPY", PYX, "                samples[n, j, 0] = P\n", "                samples[n, j, 0] = P * (1 + 1e-12)\n", "kernel perturbs P")
M("C02", "C02-COPY", LH, "        prior_samples_batch[good_samples_idx],\n        rng,\n        n_linear_samples=n_linear_samples,\n    )\n\n    if ln_prior is not None and ln_prior is not False:\n        samples[\"ln_prior\"] = ln_prior[good_samples_idx]",
  "        prior_samples_batch[np.arange(len(good_samples_idx))],\n        rng,\n        n_linear_samples=n_linear_samples,\n    )\n\n    if ln_prior is not None and ln_prior is not False:\n        samples[\"ln_prior\"] = ln_prior[good_samples_idx]", "first k rows instead of the accepted rows")
M("C02", "C02-COPY", MP, "    task_args = (prior_samples_file, joker_helper, n_linear_samples)\n", "    samples_idx = np.sort(samples_idx)\n    task_args = (prior_samples_file, joker_helper, n_linear_samples)\n", "make_full_samples sorts the accepted rows (seeded C02-A / C06-A)")
M("C02", "C02-NPRIOR", MP, "        idx = rng.choice(n_total_samples, size=n_prior_samples, replace=False)\n", "        idx = rng.choice(n_total_samples, size=n_prior_samples, replace=True)\n", "random order with repeats")
M("C02", "C02-NPRIOR", MP, "        ll_kw[\"n_prior_samples\"] = n_prior_samples\n", "        pass\n", "n_prior_samples not forwarded")

# ---------------------------------------------------------------- C06
M("C06", "C06-SPACE", MP, '        samples["ln_likelihood"] = lls[good_samples_idx]\n', '        samples["ln_likelihood"] = lls[full_samples_idx]\n', "ln_likelihood indexed with library rows")
M("C06", "C06-SPACE", MP, "            samples[\"ln_prior\"] = data.read_coordinates(\n                full_samples_idx, field=\"ln_prior\"\n            )\n\n    if return_all_logprobs:",
  "            samples[\"ln_prior\"] = data.read_coordinates(\n                good_samples_idx, field=\"ln_prior\"\n            )\n\n    if return_all_logprobs:", "ln_prior read at evaluation positions under randomize_prior_order")
M("C06", "C06-SPACE", MP, '        samples["ln_likelihood"] = all_marg_lls[good_samples_idx]\n', '        samples["ln_likelihood"] = marg_lls[good_samples_idx]\n', "iterative: last batch's likelihoods")
M("C06", "C06-SPACE", LH, "    good_samples_idx = good_samples_idx[:max_posterior_samples]\n\n    # generate linear parameters\n    samples = make_full_samples_inmem(\n        joker_helper,\n        prior_samples_batch[good_samples_idx],",
  "    all_good = good_samples_idx\n    good_samples_idx = good_samples_idx[:max_posterior_samples]\n\n    # generate linear parameters\n    samples = make_full_samples_inmem(\n        joker_helper,\n        prior_samples_batch[all_good],", "rows built from the untruncated index")
M("C06", "C06-SPACE", LH, '        samples["ln_prior"] = ln_prior[full_samples_idx]\n        samples["ln_likelihood"] = all_marg_lls[good_samples_idx]\n', '        samples["ln_prior"] = ln_prior[full_samples_idx]\n        samples["ln_likelihood"] = all_marg_lls[full_samples_idx[::-1]]\n', "reversed index")
T("C06", LH, '        samples["ln_prior"] = ln_prior[full_samples_idx]\n', '        samples["ln_prior"] = ln_prior[good_samples_idx]\n', "identity map: E == L in the in-memory iterative sampler")
M("C06", "C06-FIELD", MP, "            samples[\"ln_prior\"] = data.read_coordinates(\n                full_samples_idx, field=\"ln_prior\"\n            )\n\n    if return_all_logprobs:",
  "            samples[\"ln_prior\"] = data.read_coordinates(full_samples_idx)\n\n    if return_all_logprobs:", "field= dropped (reverse of fix)")
M("C06", "C06-FIELD", MP, "            samples[\"ln_prior\"] = data.read_coordinates(\n                full_samples_idx, field=\"ln_prior\"\n            )\n\n    return samples", "            samples[\"ln_prior\"] = data.read_coordinates(\n                full_samples_idx, field=\"ln_likelihood\"\n            )\n\n    return samples", "wrong field")
M("C06", "C06-ALL", LH, "        return samples, lls\n", "        return samples, lls[good_samples_idx]\n", "return_all_logprobs returns only the accepted values")
M("C06", "C06-API", TJ, "                if return_logprobs:\n                    ln_prior = prior_samples[\"ln_prior\"]\n\n                prior_samples, _ = prior_samples.pack(\n                    units=joker_helper.internal_units, names=joker_helper.packed_order\n                )\n            else:\n                ln_prior = return_logprobs\n\n            samples = rejection_sample_inmem(",
  "                if return_logprobs:\n                    ln_prior = prior_samples[\"ln_likelihood\"]\n\n                prior_samples, _ = prior_samples.pack(\n                    units=joker_helper.internal_units, names=joker_helper.packed_order\n                )\n            else:\n                ln_prior = return_logprobs\n\n            samples = rejection_sample_inmem(", "API takes the wrong column as ln_prior")

# ---------------------------------------------------------------- C14
M("C14", "C14-RAISE", LH, "            raise RuntimeError(\n                \"There are NaN", "            return RuntimeError(\n                \"There are NaN", "return RuntimeError (reverse of fix)")
M("C14", "C14-RAISE", LH, "        if n_process <= 0:\n            break\n", "        if n_process <= 0:\n            return None\n", "exhaustion returns None")
M("C14", "C14-TRUNC", LH, "    good_samples_idx = good_samples_idx[:n_requested_samples]\n", "", "truncation deleted (inmem)")
M("C14", "C14-TRUNC", MP, "    good_samples_idx = good_samples_idx[:n_requested_samples]\n", "    good_samples_idx = good_samples_idx[:n_requested_samples + 1]\n", "one more than requested")
M("C14", "C14-CHAIN", LH, "        start_idx += n_process\n\n        n_ll_evals = len(all_marg_lls)\n        n_need = n_requested_samples - n_good\n        n_process = int(safety_factor * n_need / n_good * n_ll_evals)\n",
  "        n_ll_evals = len(all_marg_lls)\n        n_need = n_requested_samples - n_good\n        n_process = int(safety_factor * n_need / n_good * n_ll_evals)\n        start_idx += n_process\n", "cursor advanced by the *next* size (seeded C06-B)")
M("C14", "C14-CHAIN", MP, "        if start_idx + n_process > max_prior_samples:\n            n_process = max_prior_samples - start_idx\n", "", "clamp deleted (file)")
M("C14", "C14-CHAIN", MP, "        if n_process <= 0:\n            break\n", "        if n_process < 0:\n            break\n", "<= 0 -> < 0")
M("C14", "C14-CHAIN", LH, "    if n_process > n_total_samples:\n        raise ValueError(", "    if False:\n        raise ValueError(", "pre-loop size check disabled")
M("C14", "C14-CHAIN", MP, "        all_idx = rng.choice(n_total_samples, size=max_prior_samples, replace=False)\n", "        all_idx = rng.choice(n_total_samples, size=max_prior_samples, replace=True)\n", "row order with repeats")
M("C14", "C14-CHAIN", LH, "        if start_idx + n_process > n_total_samples:\n            n_process = n_total_samples - start_idx\n", "        if start_idx + n_process > len(prior_samples_batch):\n            n_process = len(prior_samples_batch) - start_idx\n", "clamp to the array, not the budget (seeded C14-A)")
M("C14", "C14-CHAIN", MP, "            samples_idx=all_idx[start_idx : start_idx + n_process],\n", "            samples_idx=all_idx[start_idx : start_idx + n_process + 1],\n", "windows overlap by one row")
T("C14", LH, "        start_idx += n_process\n", "        start_idx = start_idx + n_process\n", "explicit sum")
M("C14", "C14-ACC", MP, "        aa = np.exp(all_marg_lls - all_marg_lls.max())\n", "        aa = np.exp(all_marg_lls - marg_lls.max())\n", "max over the last batch")
M("C14", "C14-ACC", MP, "        uu = rng.uniform(size=len(all_marg_lls))\n        aa = np.exp(all_marg_lls - all_marg_lls.max())\n", "        uu = rng.uniform(size=len(marg_lls))\n        aa = np.exp(marg_lls - all_marg_lls.max())\n", "only the new batch is tested")
M("C14", "C14-BUDGET", TJ, "                n_linear_samples=n_linear_samples,\n                max_prior_samples=max_prior_samples,\n            )\n", "                n_linear_samples=n_linear_samples,\n            )\n", "API drops the budget on the in-memory path (reverse of fix)")
M("C14", "C14-GUARD", MP, "        if len(good_samples_idx) == 0:\n            raise RuntimeError(\"Failed to find any good samples!\")\n\n        n_good = len(good_samples_idx)\n        logger.log(1, f\"{n_good} good samples after rejection sampling\")\n\n        if n_good >= n_requested_samples:\n            logger.log(1, \"Enough samples found!\")\n            break\n\n        start_idx += n_process\n\n        n_ll_evals = len(all_marg_lls)\n        n_need = n_requested_samples - n_good\n        n_process = int(safety_factor * n_need / n_good * n_ll_evals)\n\n        if start_idx + n_process > max_prior_samples:",
  "        n_good = max(1, len(good_samples_idx))\n        logger.log(1, f\"{n_good} good samples after rejection sampling\")\n\n        if n_good >= n_requested_samples:\n            logger.log(1, \"Enough samples found!\")\n            break\n\n        start_idx += n_process\n\n        n_ll_evals = len(all_marg_lls)\n        n_need = n_requested_samples - n_good\n        n_process = int(safety_factor * n_need / n_good * n_ll_evals)\n\n        if start_idx + n_process > max_prior_samples:", "empty accepted set no longer raises")
M("C06", "C06-ROWS", MP, "    task_args = (prior_samples_file, joker_helper, n_linear_samples)\n", "    samples_idx = np.sort(samples_idx)\n    task_args = (prior_samples_file, joker_helper, n_linear_samples)\n", "make_full_samples sorts the accepted rows (seeded C06-A)")
M("C06", "C06-CHAIN", LH, "        start_idx += n_process\n\n        n_ll_evals = len(all_marg_lls)\n        n_need = n_requested_samples - n_good\n        n_process = int(safety_factor * n_need / n_good * n_ll_evals)\n",
  "        n_ll_evals = len(all_marg_lls)\n        n_need = n_requested_samples - n_good\n        n_process = int(safety_factor * n_need / n_good * n_ll_evals)\n        start_idx += n_process\n", "cursor advanced by the next size (seeded C06-B)")

# ---------------------------------------------------------------- C18
M("C18", "C18-GUARD", PR, "                    \"distribution for all parameters.\"\n                )\n                raise ValueError(msg)\n", "                    \"distribution for all parameters.\"\n                )\n                logger.warning(msg)\n                continue\n", "missing parameter only warns")
M("C18", "C18-GUARD", PR, "            if not hasattr(pars[name], xu.UNIT_ATTR_NAME):\n", "            if name != 'e' and not hasattr(pars[name], xu.UNIT_ATTR_NAME):\n", "unit check exempts one parameter")
M("C18", "C18-GUARD", PR, "        for name in self.par_names:\n            if name not in pars:", "        for name in self._nonlinear_equiv_units:\n            if name not in pars:", "presence/unit loop over the nonlinear names only")
M("C18", "C18-GUARD", PR, "            if not getattr(pars[name], xu.UNIT_ATTR_NAME).is_equivalent(equiv_unit):\n", "            if False and not getattr(pars[name], xu.UNIT_ATTR_NAME).is_equivalent(equiv_unit):\n", "unit equivalence check disabled")
M("C18", "C18-GUARD", PR, "        for name in list(self._linear_equiv_units.keys()) + list(\n            self._v0_offsets_equiv_units.keys()\n        ):", "        for name in list(self._linear_equiv_units.keys()):", "offset priors escape the Normal-only check")
M("C18", "C18-", PR, "p.owner.op._print_name[0] not in [\"Normal\", \"FixedCompanionMass\"]", "p.owner.op._print_name[0] not in [\"Normal\", \"FixedCompanionMass\", \"Uniform\"]", "allow-list widened")
M("C18", "C18-GUARD", PR, "            ) or p.owner.op._print_name[0] not in [\"Normal\", \"FixedCompanionMass\"]:", "            ) or \"normal\" not in p.owner.op.name:", "substring match on the op name (seeded C18-A)")
M("C18", "C18-GUARD", PR, "        self._all_par_unit_equiv = {", "        self.pars = pars\n        self._all_par_unit_equiv = {", "pars stored before validation; then a failing validation leaves... (hoisted store)")
M("C18", "C18-GUARD", DH, "    if (len(np.unique(ids)) - 1) != n_offsets:", "    if (len(np.unique(ids)) - 1) < n_offsets:", "count mismatch only rejected one way")
M("C18", "C18-GUARD", DH, "        if d._has_cov:\n            raise NotImplementedError(", "        if d._has_cov and len(data) > 2:\n            raise NotImplementedError(", "covariance sources accepted for two surveys")
M("C18", "C18-GUARD", DH, "        if n_offsets != 0:\n            raise ValueError(", "        if n_offsets > 1:\n            raise ValueError(", "single source with one offset accepted")
M("C18", "C18-GUARD", TJ, "        elif not isinstance(rng, np.random.Generator):\n            msg = (", "        elif False:\n            msg = (", "rng type check disabled")
M("C18", "C18-GUARD", PH, "                raise ValueError(\n                    \"If specifying the standard-deviations", "                continue\n                raise ValueError(\n                    \"If specifying the standard-deviations", "sigma_v key check skipped")
M("C18", "C18-GUARD", PYX, "        if (trend_M.shape[0] != self.n_times\n                or trend_M.shape[1] != self.n_linear - 1):", "        if (trend_M.shape[0] != self.n_times):", "design matrix column count unchecked")
M("C18", "C18-TRY", PH, "    try:\n        n_offsets = int(n_offsets)\n    except Exception:\n        raise ValueError(", "    try:\n        n_offsets = int(n_offsets)\n    except Exception:\n        n_offsets = 0\n        ValueError(", "bad n_offsets silently becomes 0")
M("C18", "C18-ORDER", PR, "            list(self._nonlinear_equiv_units.keys())\n            + list(self._linear_equiv_units.keys())\n            + list(self._v0_offsets_equiv_units)", "            list(self._nonlinear_equiv_units.keys())\n            + list(self._v0_offsets_equiv_units)\n            + list(self._linear_equiv_units.keys())", "par_names order changed")
M("C18", "C18-COUNT", TJ, "            data, self.prior.poly_trend, self.prior.n_offsets\n        )\n        return CJokerHelper(all_data, self.prior, trend_M)", "            data, self.prior.poly_trend, 0 if not hasattr(data, 'keys') and not isinstance(data, (list, tuple)) else self.prior.n_offsets\n        )\n        return CJokerHelper(all_data, self.prior, trend_M)", "offset count not checked for single sources")
T("C18", PR, "                    f\"Missing prior for parameter '{name}': you must specify a prior \"", "                    f\"No prior for parameter '{name}': you must specify a prior \"", "message text changed")
T("C18", PR, "            if not isinstance(\n                p.owner.op, pt.random.op.RandomVariable\n            ) or p.owner.op._print_name[0] not in [\"Normal\", \"FixedCompanionMass\"]:", "            if not (isinstance(p.owner.op, pt.random.op.RandomVariable) and p.owner.op._print_name[0] in [\"Normal\", \"FixedCompanionMass\"]):", "De Morgan")
T("C18", DH, "    if (len(np.unique(ids)) - 1) != n_offsets:", "    if len(np.unique(ids)) != n_offsets + 1:", "rearranged count comparison")

# ---------------------------------------------------------------- C12
M("C12", "C12-DISPATCH", UT, "        idx = rng.choice(f.root[path].shape[0], size=size, replace=False)\n", "        idx = rng.choice(f.root[path].shape[0], size=size, replace=True)\n", "random batch with repeats")
M("C12", "C12-DISPATCH", UT, "            prior_samples_file, columns, slice(*slice_or_idx), units=units\n", "            prior_samples_file, columns, slice(slice_or_idx[0]), units=units\n", "tuple (a, b) read as [:a]")
M("C12", "C12-DISPATCH", UT, "    elif isinstance(slice_or_idx, np.ndarray):\n        # read a random batch of samples of size \"slice_or_idx\"\n        batch = read_batch_idx(prior_samples_file, columns, slice_or_idx, units=units)\n\n", "", "index-array branch deleted")
M("C12", "C12-DISPATCH", UT, "        batch = read_batch_slice(prior_samples_file, columns, slice_or_idx, units=units)\n", "        batch = read_batch_slice(prior_samples_file, columns, slice_or_idx)\n", "slice branch drops the unit conversion")
T("C12", UT, "    if isinstance(slice_or_idx, tuple):\n        # read a contiguous batch of prior samples\n        batch = read_batch(\n            prior_samples_file, columns, slice(*slice_or_idx), units=units\n        )\n\n    elif isinstance(slice_or_idx, slice):\n        # read a contiguous batch of prior samples\n        batch = read_batch_slice(prior_samples_file, columns, slice_or_idx, units=units)\n",
  "    if isinstance(slice_or_idx, slice):\n        # read a contiguous batch of prior samples\n        batch = read_batch_slice(prior_samples_file, columns, slice_or_idx, units=units)\n\n    elif isinstance(slice_or_idx, tuple):\n        # read a contiguous batch of prior samples\n        batch = read_batch(\n            prior_samples_file, columns, slice(*slice_or_idx), units=units\n        )\n", "branches reordered")
M("C12", "C12-COL", UT, "            batch[:, i] = f.root[path].read_coordinates(idx, field=name)\n", "            batch[:, i] = f.root[path].read_coordinates(idx, field=columns[0])\n", "every column filled from the first field")
M("C12", "C12-COL", UT, "            batch[:, i] = f.root[path].read_coordinates(idx, field=name)\n", "            batch[:, 0] = f.root[path].read_coordinates(idx, field=name)\n", "every field written to column 0")
M("C12", "C12-COL", UT, "            arr = f.root[path].read(slice.start, slice.stop, slice.step, field=name)\n", "            arr = f.root[path].read(slice.start, slice.stop, field=name)\n", "slice step dropped")
M("C12", "C12-COL", UT, "    batch = np.zeros((len(idx), len(columns)))\n    with tb.open_file(prior_samples_file, mode=\"r\") as f:\n        for i, name in enumerate(columns):\n            batch[:, i] = f.root[path].read_coordinates(idx, field=name)\n",
  "    batch = np.zeros((len(idx), len(columns)))\n    order = np.argsort(idx)\n    with tb.open_file(prior_samples_file, mode=\"r\") as f:\n        for i, name in enumerate(columns):\n            arr = f.root[path].read_coordinates(idx[order], field=name)\n            batch[:, i] = arr[order]\n", "sorted read restored with the wrong permutation (seeded C12-A / C05-A)")
M("C12", "C12-COL", UT, "            for i, name in enumerate(columns):\n                if name in units:\n                    batch[:, i] *= table_units[name].to(units[name])\n\n    return batch\n\n\ndef read_random_batch", "            for i, name in enumerate(columns):\n                if name in units:\n                    batch[:, i] *= units[name].to(table_units[name])\n\n    return batch\n\n\ndef read_random_batch", "conversion factor inverted (index reader)")
M("C12", "C12-COL", UT, "def table_header_to_units(header_dataset):", "import functools\n\n\n@functools.lru_cache(maxsize=8)\ndef table_header_to_units(header_dataset):", "header units memoised")
M("C12", "C12-REFUSE", SH, "        if not _custom_tbl_dtype_compare(\n            existing_header[\"datatype\"], this_header[\"datatype\"]\n        ):\n            raise ValueError(", "        if not _custom_tbl_dtype_compare(\n            existing_header[\"datatype\"], this_header[\"datatype\"]\n        ):\n            warnings.warn(", "dtype mismatch only warns")
M("C12", "C12-REFUSE", SH, "    metadata_conflicts=\"error\",\n    **create_dataset_kwargs,\n):", "    metadata_conflicts=\"warn\",\n    **create_dataset_kwargs,\n):", "conflict policy default 'warn' not forwarded by the recursion (seeded C12-B)")
M("C12", "C12-REFUSE", SH, "    if len(dtype1) != len(dtype2):\n        return False\n\n", "", "column-count comparison removed (reverse of fix)")
M("C12", "C12-REFUSE", SH, "        # If we got here, we can now try to append:\n        current_size = len(output_group[name])\n        output_group[name].resize((current_size + len(table),))\n", "", "resize removed / moved")
M("C12", "C12-REFUSE", SH, "        # Now compare datatype of this object and on disk\n        this_header", "        current_size0 = len(output_group[name])\n        output_group[name].resize((current_size0 + len(table),))\n        # Now compare datatype of this object and on disk\n        this_header", "dataset resized before the dtype check")
M("C12", "C12-PATHS", SM, "                serialize_meta=True,\n", "                serialize_meta=False,\n", "metadata not serialised")
M("C12", "C12-PATHS", SM, "                        tbl.meta[\"__t_ref_bmjd\"], format=\"mjd\", scale=\"tcb\"\n", "                        tbl.meta[\"__t_ref_bmjd\"], format=\"mjd\"\n", "FITS epoch read back without the TCB scale (seeded C04-B)")
M("C12", "C12-PATHS", SM, "        return cls(samples=tbl, **tbl.meta)", "        return cls(samples=tbl)", "read() drops table metadata kwargs")

# ---------------------------------------------------------------- C15
M("C15", "C15-LOCK", DT, "        self._t_bmjd = self._t_bmjd[idx]\n        self.rv = self.rv[idx]\n        if self._has_cov:\n            self.rv_err = self.rv_err[idx]\n            self.rv_err = self.rv_err[:, idx]\n        else:\n            self.rv_err = self.rv_err[idx]\n\n        if t_ref is False:",
  "        self._t_bmjd = self._t_bmjd[idx]\n        if self._has_cov:\n            self.rv_err = self.rv_err[idx]\n            self.rv_err = self.rv_err[:, idx]\n        else:\n            self.rv_err = self.rv_err[idx]\n\n        if t_ref is False:", "rv not sorted with the times")
M("C15", "C15-LOCK", DT, "        if self._has_cov:\n            self.rv_err = self.rv_err[idx]\n            self.rv_err = self.rv_err[:, idx]\n        else:\n            self.rv_err = self.rv_err[idx]\n\n        if t_ref is False:",
  "        if self._has_cov:\n            self.rv_err = self.rv_err[idx]\n        else:\n            self.rv_err = self.rv_err[idx]\n\n        if t_ref is False:", "covariance columns not sorted")
M("C15", "C15-LOCK", DT, "            idx = np.isfinite(self._t_bmjd) & np.isfinite(self.rv)\n\n            if self._has_cov:\n                idx &= np.isfinite(self.rv_err).all(axis=0)\n            else:\n                idx &= np.isfinite(self.rv_err)\n",
  "            idx = np.isfinite(self._t_bmjd) & np.isfinite(self.rv)\n", "mask ignores the errors")
M("C15", "C15-LOCK", DT, "        idx = self._t_bmjd.argsort()\n", "        idx = self.rv.argsort()\n", "sorted by velocity")
M("C15", "C15-LOCK", DT, "                rv_err=self.rv_err.copy()[slc][:, slc],\n", "                rv_err=self.rv_err[slc, slc].copy(),\n", "covariance fancy-indexed in one step (seeded C15-B)")
M("C15", "C15-LOCK", DT, "                rv=self.rv.copy()[slc],\n                rv_err=self.rv_err.copy()[slc],\n            )", "                rv=self.rv.copy(),\n                rv_err=self.rv_err.copy()[slc],\n            )", "slicing keeps all velocities")
T("C15", DT, "        self._t_bmjd = self._t_bmjd[idx]\n        self.rv = self.rv[idx]\n        if self._has_cov:\n            self.rv_err = self.rv_err[idx]\n            self.rv_err = self.rv_err[:, idx]\n        else:\n            self.rv_err = self.rv_err[idx]\n\n        if t_ref is False:",
  "        self.rv = self.rv[idx]\n        if self._has_cov:\n            self.rv_err = self.rv_err[:, idx]\n            self.rv_err = self.rv_err[idx]\n        else:\n            self.rv_err = self.rv_err[idx]\n        self._t_bmjd = self._t_bmjd[idx]\n\n        if t_ref is False:", "statements of the sort block reordered")
M("C15", "C15-IVAR", DT, "            return 1 / self.rv_err**2\n", "            return 1 / self.rv_err\n", "ivar = 1/err")
M("C15", "C15-IVAR", DT, "            return np.diag(self.rv_err.value**2) * self.rv_err.unit**2\n", "            return np.diag(self.rv_err.value) * self.rv_err.unit**2\n", "cov diagonal not squared")
M("C15", "C15-IVAR", DT, "            _t_bmjd = t.tcb.mjd\n", "            _t_bmjd = t.mjd\n", "Time input not converted to TCB")
M("C15", "C15-TREF", DT, "                t_ref = self.t.min()\n", "                t_ref = self.t.max()\n", "default epoch is the latest time")
M("C15", "C15-TREF", DT, "                t_ref = self.t.min()\n", "                t_ref = Time(np.nanmin(_t_bmjd), scale=\"tcb\", format=\"mjd\")\n", "default epoch from the raw input times (seeded C15-A)")
M("C15", "C15-COPY", DT, "            t_ref=False if self.t_ref is None else self.t_ref,\n", "", "t_ref dropped (reverse of fix)")
M("C15", "C15-COPY", DT, "            rv_err=self.rv_err.copy(),\n            t_ref", "            rv_err=self.rv.copy(),\n            t_ref", "copy passes velocities as errors")

# ---------------------------------------------------------------- C17
M("C17", "C17-WRAP", SM, "self.tbl[\"omega\"][mask] + np.pi * u.rad\n", "self.tbl[\"omega\"][mask] + np.pi / 2 * u.rad\n", "omega moved by pi/2")
M("C17", "C17-WRAP", SM, "            self.tbl[\"omega\"][mask] = self.tbl[\"omega\"][mask] % (2 * np.pi * u.rad)\n", "", "modulo deleted")
M("C17", "C17-WRAP", SM, "            self.tbl[\"omega\"][mask] = self.tbl[\"omega\"][mask] + np.pi * u.rad\n", "            self.tbl[\"omega\"] = self.tbl[\"omega\"] + np.pi * u.rad\n", "omega shifted on every row")
M("C17", "C17-WRAP", SM, "            self.tbl[\"omega\"][mask] = self.tbl[\"omega\"][mask] + np.pi * u.rad\n            self.tbl[\"omega\"][mask] = self.tbl[\"omega\"][mask] % (2 * np.pi * u.rad)\n",
  "            omega = self.tbl[\"omega\"]\n            self.tbl[\"omega\"][mask] = np.mod(omega[mask].value + np.pi, 2 * np.pi) * omega.unit\n", "omega's unit ignored (seeded C17-A)")
M("C17", "C17-WRAP", SM, "        mask = self.tbl[\"K\"] < 0\n", "        mask = self.tbl[\"K\"] <= 0\n", "mask includes K == 0")
T("C17", SM, "            self.tbl[\"omega\"][mask] = self.tbl[\"omega\"][mask] + np.pi * u.rad\n            self.tbl[\"omega\"][mask] = self.tbl[\"omega\"][mask] % (2 * np.pi * u.rad)\n",
  "            self.tbl[\"omega\"][mask] = (self.tbl[\"omega\"][mask] + np.pi * u.rad) % (2 * np.pi * u.rad)\n", "single statement")
M("C17", "C17-PHASE", SM, "        dt = (self[\"P\"] * self[\"M0\"] / (2 * np.pi)).to(u.day, u.dimensionless_angles())\n", "        dt = (self[\"P\"] * self[\"M0\"] / np.pi).to(u.day, u.dimensionless_angles())\n", "2 pi -> pi")
M("C17", "C17-PHASE", SM, "        t0 = t_ref + dt\n", "        t0 = t_ref - dt\n", "sign of the phase offset")
M("C17", "C17-PHASE", SM, "        dt = (self[\"P\"] * self[\"M0\"] / (2 * np.pi)).to(u.day, u.dimensionless_angles())\n        t0 = t_ref + dt\n",
  "        if \"t0\" not in self._cache:\n            dt = (self[\"P\"] * self[\"M0\"] / (2 * np.pi)).to(u.day, u.dimensionless_angles())\n            self._cache[\"t0\"] = t_ref + dt\n        t0 = self._cache[\"t0\"]\n", "t0 cached on the instance (seeded C17-B)")
T("C17", SM, "        dt = (self[\"P\"] * self[\"M0\"] / (2 * np.pi)).to(u.day, u.dimensionless_angles())\n", "        dt = (self[\"M0\"] / (2 * np.pi) * self[\"P\"]).to(u.day, u.dimensionless_angles())\n", "factors reordered")
M("C17", "C17-META", SM, "        return cls(samples=new_samples, **self.tbl.meta)\n", "        return cls(samples=new_samples)\n", "_apply drops metadata")
M("C17", "C17-META", SM, "        if isinstance(key, int):\n            return self.__class__(samples=self.tbl[key])\n", "        if isinstance(key, int):\n            return self.__class__(samples=dict(self.tbl[key]))\n", "row access through a dict loses metadata")
M("C17", "C17-META", SM, "        return self.__class__(self.tbl.copy(), t_ref=self.t_ref)\n", "        return self.__class__(dict(self.tbl), t_ref=self.t_ref)\n", "copy through a dict loses poly_trend / n_offsets")
M("C17", "C17-MEDIAN", SM, "        idx = np.argpartition(self[\"P\"], len(self[\"P\"]) // 2)[len(self[\"P\"]) // 2]\n        return self[idx]\n", "        return self._apply(np.median)\n", "median_period interpolates")
M("C17", "C17-MEDIAN", SM, "        idx = np.argpartition(self[\"P\"], len(self[\"P\"]) // 2)[len(self[\"P\"]) // 2]\n", "        idx = np.argpartition(self[\"K\"], len(self[\"P\"]) // 2)[len(self[\"P\"]) // 2]\n", "median over K")
M("C17", "C17-PACK", SM, "            arrs.append(self.tbl[name].to_value(unit))\n", "            arrs.append(self.tbl[name].value)\n", "pack strips without converting")
M("C17", "C17-PACK", SM, "            samples[k] = packed_samples[:, i] * unit\n", "            samples[k] = packed_samples[:, 0] * unit\n", "unpack reads column 0 for every name")
M("C17", "C17-PACK", SM, "        for i, k in enumerate(list(units.keys())[:npars]):\n", "        for i, k in enumerate(sorted(units.keys())[:npars]):\n", "unpack names columns in sorted order")

# ---------------------------------------------------------------- C19
M("C19", "C19-MAP", SA, "    ln_post = samples['ln_prior'] + samples['ln_likelihood']\n", "    ln_post = samples['ln_likelihood']\n", "argmax over the likelihood only")
M("C19", "C19-MAP", SA, "    idx = np.argmax(ln_post)\n", "    idx = np.argmin(ln_post)\n", "argmin")
M("C19", "C19-MAP", SA, "    ln_post = samples['ln_prior'] + samples['ln_likelihood']\n", "    ln_post = samples['ln_prior'] - samples['ln_likelihood']\n", "difference instead of sum")
M("C19", "C19-PERM", SA, "    phase = np.sort(data.phase(sample['P']))\n", "    phase = data.phase(sample['P'])\n", "sort deleted")
M("C19", "C19-WRAP", SA, "    phase = np.concatenate((phase, phase + 1))\n", "    phase = np.concatenate((phase, phase))\n", "second copy unshifted (reverse of fix)")
M("C19", "C19-WRAP", SA, "    phase = np.concatenate((phase, phase + 1))\n    return (phase[1:] - phase[:-1]).max()\n", "    return np.diff(phase, append=1.).max()\n", "append=1 assumes the first phase is 0 (seeded C19-A)")
M("C19", "C19-WRAP", SA, "    phase = np.concatenate((phase, phase + 1))\n", "    phase = np.concatenate((phase, phase + 2))\n", "copy shifted by two periods")
T("C19", SA, "    phase = np.concatenate((phase, phase + 1))\n    return (phase[1:] - phase[:-1]).max()\n", "    return np.diff(np.concatenate((phase, phase[:1] + 1))).max()\n", "only the first phase appended, np.diff")
T("C19", SA, "    phase = np.concatenate((phase, phase + 1))\n    return (phase[1:] - phase[:-1]).max()\n", "    return np.diff(phase, append=phase[0] + 1).max()\n", "np.diff with append=first+1")
M("C19", "C19-FORM", SA, "    return (H > 0).sum() / n_bins\n", "    return (H > 0).sum() / (n_bins + 1)\n", "coverage divided by n_bins + 1")
M("C19", "C19-FORM", SA, "                        bins=np.linspace(0, 1, n_bins+1))\n", "                        bins=np.linspace(0, 1, n_bins))\n", "one bin short")
M("C19", "C19-FORM", SA, "    return T / P.to_value(u.day)\n", "    return P.to_value(u.day) / T\n", "inverse")
M("C19", "C19-FORM", SA, "    return T / P.to_value(u.day)\n", "    return T / P.value\n", "period unit ignored (seeded C19-B)")
M("C19", "C19-FORM", SA, "    return (H > 0).sum() / n_bins\n", "    return (H > 1).sum() / n_bins\n", "bins with one observation not counted")

# ---------------------------------------------------------------- C08
M("C08", "C08-LOCK", DH, "        ids.append([k] * len(d))\n", "        if len(d) > 1:\n            ids.append([k] * len(d))\n", "ids append made conditional")
M("C08", "C08-LOCK", DH, "        rv.append(d.rv.to_value(rv_unit))\n", "        rv.append(d.rv.to_value(d.rv.unit))\n", "velocities stripped in each source's own unit")
M("C08", "C08-LOCK", DH, "        if rv_unit is None:\n            rv_unit = d.rv.unit\n", "        rv_unit = d.rv.unit\n", "common unit overwritten by every source (seeded C07-A)")
M("C08", "C08-LOCK", DH, "        err.append(d.rv_err.to_value(rv_unit))\n", "        err.append(d.rv.to_value(rv_unit))\n", "errors taken from the velocities")
M("C08", "C08-LOCK", DH, "        ids.append([k] * len(d))\n", "        ids.append([k] * len(data))\n", "id block has the wrong length")
M("C08", "C08-LOCK", DH, "            for i, d in enumerate(data):\n                _d[i] = d\n", "            for i, d in enumerate(data):\n                _d[len(data) - i] = d\n", "list sources keyed in reverse: last source becomes the reference")
M("C08", "C08-COL", LH, "        constant_part[ids == id_, j + 1] = 1.0\n", "        constant_part[ids == id_, j] = 1.0\n", "indicator written to column j")
M("C08", "C08-COL", LH, "    for j, id_ in enumerate(unq_ids[1:]):\n", "    for j, id_ in enumerate(unq_ids[:-1]):\n", "last survey becomes the reference")
M("C08", "C08-COL", LH, "    unq_ids = np.unique(ids)\n    constant_part = np.zeros((len(data), len(unq_ids)))\n\n    constant_part[:, 0] = 1.0\n    for j, id_ in enumerate(unq_ids[1:]):\n        constant_part[ids == id_, j + 1] = 1.0\n",
  "    unq_ids, counts = np.unique(ids, return_counts=True)\n    constant_part = np.zeros((len(data), len(unq_ids)))\n\n    constant_part[:, 0] = 1.0\n    stops = np.cumsum(counts)\n    for j, id_ in enumerate(unq_ids[1:]):\n        constant_part[stops[j]:stops[j + 1], j + 1] = 1.0\n", "offset columns filled by position (seeded C08-B)")
M("C08", "C08-COL", DH, "    if (len(np.unique(ids)) - 1) != n_offsets:\n        raise ValueError(", "    if False:\n        raise ValueError(", "count check deleted")
M("C08", "C08-COL", LH, "    dt = data._t_bmjd - data._t_ref_bmjd\n", "    dt = data._t_bmjd - data._t_bmjd[0]\n", "trend measured from the first epoch (seeded C04-A)")
M("C08", "C08-COL", LH, "    trend_M = np.vander(dt, N=poly_trend, increasing=True)[:, 1:]\n", "    trend_M = np.vander(dt, N=poly_trend)[:, :-1]\n", "trend columns in decreasing power order")
M("C08", "C08-COL", PR, "        self.v0_offsets = v0_offsets\n", "        self.v0_offsets = sorted(v0_offsets, key=lambda p: p.name)\n", "offset priors sorted by name (seeded C08-A / C01-A)")
M("C08", "C08-ORDER", DH, "    trend_M = get_trend_design_matrix(all_data, ids, poly_trend)\n\n    return all_data, ids, trend_M", "    ids = ids[np.argsort(np.concatenate(rv) if False else rv.value)]\n    trend_M = get_trend_design_matrix(all_data, ids, poly_trend)\n\n    return all_data, ids, trend_M", "ids re-sorted by the wrong key")
T("C08", DH, "    ids = np.concatenate(ids)\n", "    ids = np.concatenate(ids)\n    ids = ids[np.argsort(t)]\n", "repaired tree: ids re-aligned with the time argsort (known finding disappears)")

# ---------------------------------------------------------------- C05
M("C05", "C05-CARRY", PYX, "        # Zero-out array:\n        for i in range(self.n_linear):\n            for j in range(self.n_linear):\n                self.Ainv[i, j] = 0.\n", "", "zero-fill of Ainv deleted")
M("C05", "C05-CARRY", PYX, "            self.b[n] = 0.\n", "", "b[n] = 0 deleted")
M("C05", "C05-CARRY", PYX, "            M0 = chunk[n, 3]\n\n            c_rv_from_elements(&self.t[0], &self.M_T[0, 0], self.n_times,\n                               P, 1., e, om, M0, self.t0,\n                               anomaly_tol, anomaly_maxiter)\n\n            # Note: jitter must be in same units as the data RV's / ivar\n            get_ivar(self.ivar, chunk[n, 4], self.s_ivar)\n\n            # TODO: this is a continuation of the massive hack introduced above.\n            if self.fixed_K_prior == 0:\n                self.Lambda[0] = (self.sigma_K0**2 / (1 - e**2)\n                                  * (P / self.P0)**(-2/3.))\n                self.Lambda[0] = min(self.max_K**2, self.Lambda[0])\n\n            # compute likelihood, but also generate a, Ainv",
  "            M0 = chunk[n, 3]\n\n            # Note: jitter must be in same units as the data RV's / ivar\n            get_ivar(self.ivar, chunk[n, 4], self.s_ivar)\n\n            # TODO: this is a continuation of the massive hack introduced above.\n            if self.fixed_K_prior == 0:\n                self.Lambda[0] = (self.sigma_K0**2 / (1 - e**2)\n                                  * (P / self.P0)**(-2/3.))\n                self.Lambda[0] = min(self.max_K**2, self.Lambda[0])\n\n            # compute likelihood, but also generate a, Ainv", "Kepler column not recomputed on the posterior path")
M("C05", "C05-CARRY", PYX, "            get_ivar(self.ivar, chunk[n, 4], self.s_ivar)\n\n            # TODO: this is a continuation of the massive hack introduced above.\n            if self.fixed_K_prior == 0:\n                self.Lambda[0] = (self.sigma_K0**2 / (1 - e**2)\n                                  * (P / self.P0)**(-2/3.))\n                self.Lambda[0] = min(self.max_K**2, self.Lambda[0])\n\n            # compute things needed for the ln(likelihood)",
  "            if n == 0:\n                get_ivar(self.ivar, chunk[n, 4], self.s_ivar)\n\n            # TODO: this is a continuation of the massive hack introduced above.\n            if self.fixed_K_prior == 0:\n                self.Lambda[0] = (self.sigma_K0**2 / (1 - e**2)\n                                  * (P / self.P0)**(-2/3.))\n                self.Lambda[0] = min(self.max_K**2, self.Lambda[0])\n\n            # compute things needed for the ln(likelihood)", "jitter fold only for the first sample of a batch")
M("C05", "C05-CARRY", PYX, "            _ll = self.likelihood_worker(1)  # the 1 is \"True\"\n", "            _ll = self.likelihood_worker(0)\n", "posterior path does not refresh a / Ainv (stale a from the last call)")
M("C05", "C05-CARRY", PYX, "            for m in range(self.n_times):\n                self.Binv[n, m] = 0.\n", "            for m in range(self.n_times):\n                pass\n", "Binv not cleared before the Woodbury accumulation")
M("C05", "C05-FRESH", PYX, "        return (CJokerHelper, (self.data, self.prior, np.array(self.trend_M)))", "        return (CJokerHelper, (self.prior, self.data, np.array(self.trend_M)))", "__reduce__ argument order swapped")
M("C05", "C05-FRESH", PYX, "        self.prior = prior\n        self.data = data\n", "        self.prior = prior\n        self.data = data[:len(data)]\n", "__init__ stores a derived data object")
M("C05", "C05-FRESH", UT, "def table_header_to_units(header_dataset):", "import functools\n\n\n@functools.lru_cache(maxsize=8)\ndef table_header_to_units(header_dataset):", "header units memoised")
M("C05", "C05-FRESH", UT, "    return (mu * in_unit).to_value(out_unit), (std * in_unit).to_value(out_unit)\n", "    if not hasattr(dist, '_mean_std'):\n        dist._mean_std = ((mu * in_unit).to_value(out_unit), (std * in_unit).to_value(out_unit))\n    return dist._mean_std\n", "mean/std memoised on the pymc variable (seeded C07-B)")
M("C05", "C05-FRESH", UT, "def read_batch_slice(prior_samples_file, columns, slice, units=None):", "_UNITS = {}\n\n\ndef read_batch_slice(prior_samples_file, columns, slice, units=None):\n    _UNITS[prior_samples_file] = units", "module-level dictionary written on a read path")
M("C05", "C05-FEED", TJ, "                prior_samples, _ = prior_samples.pack(\n                    units=joker_helper.internal_units, names=joker_helper.packed_order\n                )\n            return marginal_ln_likelihood_inmem(joker_helper, prior_samples)", "                prior_samples, _ = prior_samples.pack(\n                    names=joker_helper.packed_order\n                )\n            return marginal_ln_likelihood_inmem(joker_helper, prior_samples)", "in-memory likelihood packs without the internal units")
M("C05", "C05-FEED", MP, "        joker_helper.packed_order,\n        slice_or_idx,\n        units=joker_helper.internal_units,\n    )", "        joker_helper.packed_order,\n        slice_or_idx,\n    )", "file path reads without unit conversion")
M("C05", "C05-FEED", MP, "        columns=joker_helper.packed_order,\n", "        columns=['P', 'e', 'M0', 'omega', 's'],\n", "literal column order differs from the packed order")
M("C05", "C05-SEQ", LH, "    # get indices of samples that pass rejection step\n    uu = rng.uniform(size=len(lls))\n    good_samples_idx = np.where(np.exp(lls - lls.max()) > uu)[0]\n    good_samples_idx = good_samples_idx[:max_posterior_samples]\n", "    # get indices of samples that pass rejection step\n    _ = rng.random()\n    uu = rng.uniform(size=len(lls))\n    good_samples_idx = np.where(np.exp(lls - lls.max()) > uu)[0]\n    good_samples_idx = good_samples_idx[:max_posterior_samples]\n", "extra draw before the uniforms on the in-memory path only")
M("C05", "C05-ORDER", MP, "    return np.concatenate(results)\n", "    return np.concatenate(sorted(results, key=len))\n", "results sorted by batch length")
T("C05", PYX, "        # Zero-out array:\n        for i in range(self.n_linear):\n            for j in range(self.n_linear):\n                self.Ainv[i, j] = 0.\n", "        # Zero-out array:\n        for j in range(self.n_linear):\n            for i in range(self.n_linear):\n                self.Ainv[i, j] = 0.\n", "zero-fill loops interchanged")
M("C05", "C05-ROWS", UT, "    batch = np.zeros((len(idx), len(columns)))\n    with tb.open_file(prior_samples_file, mode=\"r\") as f:\n        for i, name in enumerate(columns):\n            batch[:, i] = f.root[path].read_coordinates(idx, field=name)\n",
  "    batch = np.zeros((len(idx), len(columns)))\n    order = np.argsort(idx)\n    with tb.open_file(prior_samples_file, mode=\"r\") as f:\n        for i, name in enumerate(columns):\n            arr = f.root[path].read_coordinates(idx[order], field=name)\n            batch[:, i] = arr[order]\n", "sorted read restored with the wrong permutation (seeded C05-A)")

# ---------------------------------------------------------------- C09
_LOGP_OLD = "            res = pt.switch(\n                (value >= a) & (value <= b),\n                -pt.log(value) - pt.log(_fac),\n                -np.inf,\n            )\n            return check_parameters(\n                res,\n                (a > 0) & (a < b),\n                msg=\"a > 0 and a < b\",\n            )\n\nelse:"
M("C09", "C09-FORM", DI, _LOGP_OLD, _LOGP_OLD.replace("-pt.log(value) - pt.log(_fac)", "-value - pt.log(_fac)"), "logp subtracts the value (reverse of fix, variant 1)")
M("C09", "C09-FORM", DI, _LOGP_OLD, _LOGP_OLD.replace("-pt.log(value) - pt.log(_fac)", "-pt.log(value) + pt.log(_fac)"), "sign of the normalisation")
M("C09", "C09-SUPP", DI, _LOGP_OLD, _LOGP_OLD.replace("            res = pt.switch(\n                (value >= a) & (value <= b),\n                -pt.log(value) - pt.log(_fac),\n                -np.inf,\n            )\n", "            res = -pt.log(value) - pt.log(_fac)\n"), "support switch deleted (reverse of fix)")
M("C09", "C09-SUPP", DI, _LOGP_OLD, _LOGP_OLD.replace("(value >= a) & (value <= b)", "(value >= a)"), "only the lower bound tested")
M("C09", "C09-SUPP", DI, _LOGP_OLD, _LOGP_OLD.replace("(value >= a) & (value <= b)", "(value >= a) | (value <= b)"), "bounds joined with or")
T("C09", DI, _LOGP_OLD, _LOGP_OLD.replace("-pt.log(value) - pt.log(_fac)", "-pt.log(value) - pt.log(pt.log(b / a))"), "log(b/a) written as one logarithm")
M("C09", "C09-FORM", DI, "            return np.exp(uu * _fac + np.log(a))\n\n    uniformlog = UniformLogRV()\n\n    class UniformLog(pm.Continuous):\n        rv_op = uniformlog\n\n        @classmethod\n        def dist(cls, a, b, **kwargs):\n            a = pt.as_tensor_variable(a)\n            b = pt.as_tensor_variable(b)\n            return super().dist([a, b], **kwargs)\n\n        def support_point(rv, size, a, b):\n            a, b = pt.broadcast_arrays(a, b)\n            return 0.5 * (a + b)\n\n        def logp",
  "            return uu * _fac + np.log(a)\n\n    uniformlog = UniformLogRV()\n\n    class UniformLog(pm.Continuous):\n        rv_op = uniformlog\n\n        @classmethod\n        def dist(cls, a, b, **kwargs):\n            a = pt.as_tensor_variable(a)\n            b = pt.as_tensor_variable(b)\n            return super().dist([a, b], **kwargs)\n\n        def support_point(rv, size, a, b):\n            a, b = pt.broadcast_arrays(a, b)\n            return 0.5 * (a + b)\n\n        def logp", "rng_fn forgets the exponential")
M("C09", "C09-FCM", DI, "** (-1 / 3) / np.sqrt(1 - e**2),", "** (-1 / 2) / np.sqrt(1 - e**2),", "period exponent -1/2")
M("C09", "C09-FCM", DI, "** (-1 / 3) / np.sqrt(1 - e**2),", "** (-1 / 3) / (1 - e**2),", "eccentricity factor without the square root")
M("C09", "C09-FCM", DI, "        sigma = pt.clip(\n            sigma_K0.value * (P / P0.value) ** (-1 / 3) / np.sqrt(1 - e**2),\n            0.0,\n            max_K.value,\n        )\n", "        sigma = sigma_K0.value * (P / P0.value) ** (-1 / 3) / np.sqrt(1 - e**2)\n", "cap at max_K dropped")
M("C09", "C09-FCM", DI, "        if K_unit is not None:\n            sigma_K0 = sigma_K0.to_value(K_unit)\n        max_K = max_K.to(sigma_K0.unit)\n", "        if K_unit is not None:\n            sigma_K0 = sigma_K0.to_value(K_unit)\n            max_K = max_K.to(K_unit)\n", "max_K only converted on the K_unit path (seeded C09-A)")
M("C09", "C09-FCM", DI, "            P0 = P0.to(getattr(P, UNIT_ATTR_NAME))\n", "            pass\n", "P0 not converted to the period unit")
M("C09", "C09-KIP", DI, "alpha=0.867, beta=3.03", "alpha=0.867, beta=3.3", "Kipping global beta 3.3")
M("C09", "C09-WIRE", PR, "UniformLog(\"P\", P_min.value, P_max.to_value(P_min.unit)), P_min.unit", "UniformLog(\"P\", P_min.value, P_max.value), P_min.unit", "P_max stripped in its own unit")
M("C09", "C09-WIRE", PR, "out_pars[\"e\"] = xu.with_unit(Kipping13Global(\"e\"), u.one)", "out_pars[\"e\"] = xu.with_unit(Kipping13Short(\"e\"), u.one)", "eccentricity default switched to the short-period fit")
M("C09", "C09-WIRE", PR, "pm.Normal(name, 0.0, sigma_v[name].value), sigma_v[name].unit", "pm.Normal(name, 0.0, sigma_v[name].value), sigma_v['v0'].unit", "trend terms labelled with v0's unit")
M("C09", "C09-SUM", PR, "                    _logp = pm.logp(par, raw_samples[par.name]).eval()\n", "                    _logp = pm.logp(par, raw_samples['P']).eval()\n", "every term evaluated on the P column")
M("C09", "C09-SUM", PR, "            log_prior = np.sum(logp, axis=0)\n", "            log_prior = np.max(logp, axis=0)\n", "sum -> max")
M("C09", "C09-SUM", PR, "            for par in sub_pars.values():\n                try:\n", "            for par in sub_pars.values():\n                if par.name in ('omega', 'M0', 's'):\n                    continue\n                try:\n", "constant-looking variables skipped up front (seeded C09-B)")
M("C09", "C09-SUM", PR, "            prior_samples[name] = np.atleast_1d(raw_samples[name]) * unit\n", "            prior_samples[name] = np.atleast_1d(raw_samples[par_names[0]]) * unit\n", "every column filled with the first variable's draws")

# ---------------------------------------------------------------- C11
M("C11", "C11-PHASE", TJ, "pm.Deterministic(\"t_peri\", p[\"P\"] * p[\"M0\"] / (2 * np.pi))", "pm.Deterministic(\"t_peri\", p[\"P\"] * p[\"M0\"] / np.pi)", "t_peri: 2 pi -> pi")
M("C11", "C11-PHASE", TJ, "                t_periastron=model.named_vars[\"t_peri\"],\n", "                t0=model.named_vars[\"t_peri\"],\n", "t_peri passed as t0")
M("C11", "C11-PHASE", TJ, "        x = data._t_bmjd - data._t_ref_bmjd\n", "        x = data._t_bmjd - data._t_bmjd.min()\n", "times relative to the first observation (seeded C11-A)")
M("C11", "C11-PHASE", TJ, "        x = data._t_bmjd - data._t_ref_bmjd\n", "        x = data._t_bmjd\n", "reference epoch not subtracted")
M("C11", "C11-PHASE", KO, "        M = (self._warp_times(t, _pad=_pad) - self.tref) * self.n\n", "        M = (self._warp_times(t, _pad=_pad) + self.tref) * self.n\n", "library: sign of tref")
M("C11", "C11-PHASE", KO, "                    - self.sin_omega * sinf\n                    + self.ecc * self.cos_omega\n", "                    + self.sin_omega * sinf\n                    + self.ecc * self.cos_omega\n", "library: cos(omega - f)")
T("C11", TJ, "pm.Deterministic(\"t_peri\", p[\"P\"] * p[\"M0\"] / (2 * np.pi))", "pm.Deterministic(\"t_peri\", (p[\"M0\"] / (2 * np.pi)) * p[\"P\"])", "t_peri factors reordered")
M("C11", "C11-TREND", TJ, "                [p[\"v0\"]]\n                + [p[name] for name in offset_names]\n                + [p[name] for name in vtrend_names[1:]]\n", "                [p[name] for name in offset_names]\n                + [p[\"v0\"]]\n                + [p[name] for name in vtrend_names[1:]]\n", "offsets placed before v0")
M("C11", "C11-TREND", TJ, "                + [p[name] for name in vtrend_names[1:]]\n", "                + [p[name] for name in vtrend_names]\n", "v0 counted twice")
M("C11", "C11-TREND", TJ, "            rv_model = orbit.get_radial_velocity(x, K=p[\"K\"]) + trend\n", "            rv_model = orbit.get_radial_velocity(x, K=p[\"K\"]) - trend\n", "trend subtracted")
M("C11", "C11-SIGMA", TJ, "            err = pt.sqrt(err**2 + p[\"s\"] ** 2)\n", "            err = pt.sqrt(err**2 + p[\"s\"])\n", "jitter not squared")
M("C11", "C11-SIGMA", TJ, "            dist = pm.Normal.dist(model.model_rv, err)\n", "            dist = pm.Normal.dist(model.model_rv, data.rv_err.value)\n", "diagnostic sigma without jitter (reverse of fix)")
M("C11", "C11-SIGMA", TJ, "            err = pt.sqrt(err**2 + p[\"s\"] ** 2)\n            pm.Normal(\"obs\", mu=rv_model, sigma=err, observed=y)\n", "            sigma = pt.sqrt(err**2 + p[\"s\"] ** 2)\n            pm.Normal(\"obs\", mu=rv_model, sigma=sigma, observed=y)\n", "sigma rebound, diagnostic keeps the raw errors (seeded C11-B)")
M("C11", "C11-SIGMA", TJ, "            pm.Deterministic(\"ln_prior\", model.logp() - lnlike)\n", "            pm.Deterministic(\"ln_prior\", model.logp() + lnlike)\n", "ln_prior sign")
M("C11", "C11-UNIT", TJ, "            \"P\": xu.to_unit(self.prior.pars[\"P\"], u.day),\n", "            \"P\": self.prior.pars[\"P\"],\n", "period used in the prior's unit (reverse of fix)")
M("C11", "C11-UNIT", TJ, "            p[name] = xu.to_unit(self.prior.pars[name], rv_unit / u.day**i)\n", "            p[name] = xu.to_unit(self.prior.pars[name], rv_unit)\n", "trend coefficients converted to a velocity")
M("C11", "C11-SIGMA", TJ, "        err = data.rv_err.to_value(data.rv.unit)\n", "        err = data.rv_err.value\n", "errors stripped in their own unit")
M("C11", "C11-INIT", TJ, "            mcmc_init[name] = MAP_sample[name].to_value(unit)\n", "            mcmc_init[name] = MAP_sample[name].value\n", "initial point not converted to the prior's units")
M("C11", "C11-INIT", TJ, "            MAP_sample = joker_samples.median_period()\n", "            MAP_sample = joker_samples[0]\n", "first sample instead of the median-period sample")

# ---------------------------------------------------------------- C07
M("C07", "C07-KERNEL", PYX, "                self.P0 = dist._P0.to_value(self.internal_units['P'])", "                self.P0 = dist._P0.to_value(getattr(prior.pars['P'],\n                                                    xu.UNIT_ATTR_NAME))", "P0 stripped in the prior's period unit (reverse of fix)")
M("C07", "C07-KERNEL", PYX, "                self.sigma_K0 = dist._sigma_K0.to_value(to_unit)\n", "                self.sigma_K0 = dist._sigma_K0.value\n", "sigma_K0 stripped in its own unit")
M("C07", "C07-KERNEL", PYX, "            data.ivar.to_value(1 / self.data.rv.unit**2), dtype='f8')", "            data.ivar.value, dtype='f8')", "ivar stripped in its own unit")
M("C07", "C07-KERNEL", PYX, "            self.internal_units[name] = self.data.rv.unit / u.day ** i\n", "            self.internal_units[name] = self.data.rv.unit\n", "trend coefficients declared as plain velocities")
M("C07", "C07-KERNEL", PYX, "            _unit = getattr(prior.model[name], xu.UNIT_ATTR_NAME)\n            to_unit = self.internal_units[name]\n\n            dist = prior.model[name]\n", "            _unit = getattr(prior.model['v0'], xu.UNIT_ATTR_NAME)\n            to_unit = self.internal_units[name]\n\n            dist = prior.model[name]\n", "every linear prior converted from v0's unit")
M("C07", "C07-MEANSTD", UT, "    return (mu * in_unit).to_value(out_unit), (std * in_unit).to_value(out_unit)\n", "    return (mu * in_unit).to_value(out_unit), (std * out_unit).to_value(in_unit)\n", "std converted in the wrong direction")
M("C07", "C07-MEANSTD", UT, "    return (mu * in_unit).to_value(out_unit), (std * in_unit).to_value(out_unit)\n", "    if not hasattr(dist, '_mean_std'):\n        dist._mean_std = ((mu * in_unit).to_value(out_unit), (std * in_unit).to_value(out_unit))\n    return dist._mean_std\n", "converted numbers memoised on the variable (seeded C07-B)")
M("C07", "C07-TOUNIT", "thejoker/units.py", "    return obj * base.to(target)\n", "    return obj * target.to(base)\n", "to_unit inverted")
M("C07", "C07-PRIOR", PR, "UniformLog(\"P\", P_min.value, P_max.to_value(P_min.unit)), P_min.unit", "UniformLog(\"P\", P_min.value, P_max.value), P_min.unit", "P_max stripped in its own unit")
M("C07", "C07-PRIOR", PR, "pm.Normal(name, 0.0, sigma_v[name].value), sigma_v[name].unit", "pm.Normal(name, 0.0, sigma_v[name].value), u.km / u.s", "literal unit for the trend priors")
M("C07", "C07-PRIOR", DI, "        if K_unit is not None:\n            sigma_K0 = sigma_K0.to_value(K_unit)\n        max_K = max_K.to(sigma_K0.unit)\n", "        if K_unit is not None:\n            sigma_K0 = sigma_K0.to_value(K_unit)\n            max_K = max_K.to(K_unit)\n", "cap only converted on the K_unit path (seeded C09-A)")
M("C07", "C07-PACK", SM, "            arrs.append(self.tbl[name].to_value(unit))\n", "            arrs.append(self.tbl[name].value)\n", "pack strips without converting")
M("C07", "C07-READ", UT, "            for i, name in enumerate(columns):\n                if name in units:\n                    batch[:, i] *= table_units[name].to(units[name])\n\n    return batch\n\n\ndef read_random_batch", "            for i, name in enumerate(columns):\n                if name in units:\n                    batch[:, i] *= units[name].to(table_units[name])\n\n    return batch\n\n\ndef read_random_batch", "reader factor inverted")
M("C07", "C07-DATA", DH, "        if rv_unit is None:\n            rv_unit = d.rv.unit\n", "        rv_unit = d.rv.unit\n", "common unit overwritten per source (seeded C07-A)")
M("C07", "C07-DATA", SM, "            s_vars = self[\"s\"].to_value(data_unit) ** 2\n", "            s_vars = self[\"s\"].value ** 2\n", "jitter stripped in its own unit")
M("C07", "C07-INV", SM, "        data_rv = data.rv.value\n", "        data_rv = data.rv.value\n        _scale = data.rv_err.value.mean()\n", "a new unclassified strip site")
T("C07", PR, "UniformLog(\"P\", P_min.value, P_max.to_value(P_min.unit)), P_min.unit", "UniformLog(\"P\", P_min.value, P_max.to(P_min.unit).value), P_min.unit", "to(...).value instead of to_value")

# ---------------------------------------------------------------- C01
M("C01", "C01-JIT", PYX, "self.Ainv[i, j] += (self.M_T[j, n] * self.s_ivar[n]", "self.Ainv[i, j] += (self.M_T[j, n] * self.ivar[n]", "Ainv accumulates the raw weights (reverse of fix)")
M("C01", "C01-JIT", PYX, "            self.B[n, n] = 1 / self.s_ivar[n]", "            self.B[n, n] = 1 / self.ivar[n]", "B diagonal without jitter (reverse of fix)")
M("C01", "C01-JIT", PYX, "        new_ivar[i] = ivar[i] / (1 + s*s * ivar[i])\n", "        new_ivar[i] = ivar[i] / (1 + s * ivar[i])\n", "fold uses s instead of s^2")
M("C01", "C01-JIT", PYX, "            get_ivar(self.ivar, chunk[n, 4], self.s_ivar)\n\n            # TODO: this is a continuation of the massive hack introduced above.\n            if self.fixed_K_prior == 0:\n                self.Lambda[0] = (self.sigma_K0**2 / (1 - e**2)\n                                  * (P / self.P0)**(-2/3.))\n                self.Lambda[0] = min(self.max_K**2, self.Lambda[0])\n\n            # compute things needed for the ln(likelihood)",
  "            # TODO: this is a continuation of the massive hack introduced above.\n            if self.fixed_K_prior == 0:\n                self.Lambda[0] = (self.sigma_K0**2 / (1 - e**2)\n                                  * (P / self.P0)**(-2/3.))\n                self.Lambda[0] = min(self.max_K**2, self.Lambda[0])\n\n            # compute things needed for the ln(likelihood)", "fold call deleted from the marginal prologue")
M("C01", "C01-JIT", PYX, "            get_ivar(self.ivar, chunk[n, 4], self.s_ivar)\n\n            # TODO: this is a continuation of the massive hack introduced above.\n            if self.fixed_K_prior == 0:\n                self.Lambda[0] = (self.sigma_K0**2 / (1 - e**2)\n                                  * (P / self.P0)**(-2/3.))\n                self.Lambda[0] = min(self.max_K**2, self.Lambda[0])\n\n            # compute things needed for the ln(likelihood)",
  "            get_ivar(self.ivar, chunk[n, 3], self.s_ivar)\n\n            # TODO: this is a continuation of the massive hack introduced above.\n            if self.fixed_K_prior == 0:\n                self.Lambda[0] = (self.sigma_K0**2 / (1 - e**2)\n                                  * (P / self.P0)**(-2/3.))\n                self.Lambda[0] = min(self.max_K**2, self.Lambda[0])\n\n            # compute things needed for the ln(likelihood)", "fold reads the M0 column as jitter")
T("C01", PYX, "        new_ivar[i] = ivar[i] / (1 + s*s * ivar[i])\n", "        new_ivar[i] = ivar[i] / (s*s*ivar[i] + 1)\n", "fold denominator reordered")
T("C01", PYX, "        new_ivar[i] = ivar[i] / (1 + s*s * ivar[i])\n", "        new_ivar[i] = 1 / (1 / ivar[i] + s**2)\n", "fold written as 1/(sigma^2 + s^2)")
M("C01", "C01-SLOT", PYX, "            self.mu[2+i] = mu\n            self.Lambda[2+i] = std ** 2\n", "            self.mu[1+i] = mu\n            self.Lambda[1+i] = std ** 2\n", "offset slots start at 1")
M("C01", "C01-SLOT", PYX, "            self.mu[2+i] = mu\n            self.Lambda[2+i] = std ** 2\n", "            self.mu[2+i] = mu\n            self.Lambda[2+i] = std\n", "offset variance not squared")
M("C01", "C01-SLOT", PYX, "            elif name == 'K' or name == 'v0':\n", "            elif name == 'v0':\n", "custom K prior falls into the trend branch (reverse of fix)")
M("C01", "C01-SLOT", PYX, "                j = i + self.n_offsets\n", "                j = i + self.n_offsets - 1\n", "trend slots shifted by one")
M("C01", "C01-SLOT", PYX, "                self.M_T[i, n] = trend_M[n, i-1]\n", "                self.M_T[i, n] = trend_M[n, i]\n", "design-matrix rows shifted")
T("C01", PYX, "            else:  # v1, v2, etc.\n                j = i + self.n_offsets\n                self.Lambda[j] = std ** 2\n                self.mu[j] = mu\n", "            else:  # v1, v2, etc.\n                self.Lambda[self.n_offsets + i] = std * std\n                self.mu[self.n_offsets + i] = mu\n", "trend branch without the temporary")
M("C01", "C01-KVAR", PYX, "                                  * (P / self.P0)**(-2/3.))\n                self.Lambda[0] = min(self.max_K**2, self.Lambda[0])\n\n            # compute things needed for the ln(likelihood)", "                                  * (P / self.P0)**(-1/3.))\n                self.Lambda[0] = min(self.max_K**2, self.Lambda[0])\n\n            # compute things needed for the ln(likelihood)", "period exponent -1/3 in the variance")
M("C01", "C01-KVAR", PYX, "                self.Lambda[0] = min(self.max_K**2, self.Lambda[0])\n\n            # compute things needed for the ln(likelihood)", "                self.Lambda[0] = min(self.max_K, self.Lambda[0])\n\n            # compute things needed for the ln(likelihood)", "cap not squared")
M("C01", "C01-KVAR", PYX, "                self.Lambda[0] = min(self.max_K**2, self.Lambda[0])\n\n            # compute things needed for the ln(likelihood)", "\n            # compute things needed for the ln(likelihood)", "cap deleted on the marginal path")
T("C01", PYX, "                self.Lambda[0] = (self.sigma_K0**2 / (1 - e**2)\n                                  * (P / self.P0)**(-2/3.))\n                self.Lambda[0] = min(self.max_K**2, self.Lambda[0])\n\n            # compute things needed for the ln(likelihood)",
  "                self.Lambda[0] = (self.sigma_K0*self.sigma_K0 * (self.P0 / P)**(2/3.) / (1 - e*e))\n                self.Lambda[0] = min(self.max_K**2, self.Lambda[0])\n\n            # compute things needed for the ln(likelihood)", "variance rule rewritten equivalently")
M("C01", "C01-ARGS", PYX, "            e = chunk[n, 1]\n            om = chunk[n, 2]\n            M0 = chunk[n, 3]\n\n            c_rv_from_elements(&self.t[0], &self.M_T[0, 0], self.n_times,\n                               P, 1., e, om, M0, self.t0,\n                               anomaly_tol, anomaly_maxiter)\n\n            # Note: jitter must be in same units as the data RV's / ivar\n            get_ivar(self.ivar, chunk[n, 4], self.s_ivar)\n\n            # TODO: this is a continuation of the massive hack introduced above.\n            if self.fixed_K_prior == 0:\n                self.Lambda[0] = (self.sigma_K0**2 / (1 - e**2)\n                                  * (P / self.P0)**(-2/3.))\n                self.Lambda[0] = min(self.max_K**2, self.Lambda[0])\n\n            # compute things needed",
  "            e = chunk[n, 2]\n            om = chunk[n, 1]\n            M0 = chunk[n, 3]\n\n            c_rv_from_elements(&self.t[0], &self.M_T[0, 0], self.n_times,\n                               P, 1., e, om, M0, self.t0,\n                               anomaly_tol, anomaly_maxiter)\n\n            # Note: jitter must be in same units as the data RV's / ivar\n            get_ivar(self.ivar, chunk[n, 4], self.s_ivar)\n\n            # TODO: this is a continuation of the massive hack introduced above.\n            if self.fixed_K_prior == 0:\n                self.Lambda[0] = (self.sigma_K0**2 / (1 - e**2)\n                                  * (P / self.P0)**(-2/3.))\n                self.Lambda[0] = min(self.max_K**2, self.Lambda[0])\n\n            # compute things needed", "e and omega columns swapped on the marginal path")
M("C01", "C01-ARGS", PYX, "                               P, 1., e, om, M0, self.t0,\n                               anomaly_tol, anomaly_maxiter)\n\n            # Note: jitter must be in same units as the data RV's / ivar\n            get_ivar(self.ivar, chunk[n, 4], self.s_ivar)\n\n            # TODO: this is a continuation of the massive hack introduced above.\n            if self.fixed_K_prior == 0:\n                self.Lambda[0] = (self.sigma_K0**2 / (1 - e**2)\n                                  * (P / self.P0)**(-2/3.))\n                self.Lambda[0] = min(self.max_K**2, self.Lambda[0])\n\n            # compute things needed",
  "                               P, 1., e, M0, om, self.t0,\n                               anomaly_tol, anomaly_maxiter)\n\n            # Note: jitter must be in same units as the data RV's / ivar\n            get_ivar(self.ivar, chunk[n, 4], self.s_ivar)\n\n            # TODO: this is a continuation of the massive hack introduced above.\n            if self.fixed_K_prior == 0:\n                self.Lambda[0] = (self.sigma_K0**2 / (1 - e**2)\n                                  * (P / self.P0)**(-2/3.))\n                self.Lambda[0] = min(self.max_K**2, self.Lambda[0])\n\n            # compute things needed", "omega and M0 swapped at the Kepler call")
M("C01", "C01-ARGS", PYX, "        self.t0 = data._t_ref_bmjd\n", "        self.t0 = 0.\n", "kernel reference epoch zero")
M("C01", "C01-TENSOR", PYX, "                        self.Binv[n, m] -= (self.s_ivar[n] * self.M_T[i, n]", "                        self.Binv[n, m] += (self.s_ivar[n] * self.M_T[i, n]", "Woodbury sign")
M("C01", "C01-TENSOR", PYX, "        return -0.5 * (chi2 + log_det_val)\n", "        return -0.5 * chi2 + log_det_val\n", "log-determinant not halved / wrong sign")
M("C01", "C01-TENSOR", PYX, "            log_det_val += log(2*pi * fabs(self.Btmp[i, i]))\n", "            log_det_val += log(fabs(self.Btmp[i, i]))\n", "2 pi dropped from the normalisation")
M("C01", "C01-TENSOR", PYX, "                    self.B[n, m] += (self.M_T[i, n] * self.Lambda[i]\n                                     * self.M_T[i, m])", "                    self.B[n, m] += (self.M_T[i, n]\n                                     * self.M_T[i, m])", "Lambda dropped from B")
M("C01", "C01-TENSOR", PYX, "                chi2 += ((self.b[m] - self.rv[m])\n                         * self.Binv[n, m]\n                         * (self.b[n] - self.rv[n]))", "                chi2 += ((self.b[m] - self.rv[m])\n                         * self.Binv[n, m]\n                         * (self.b[n] + self.rv[n]))", "chi2 residual sign")
M("C01", "C01-TENSOR", PYX, "                self.b[n] += self.M_T[i, n] * self.mu[i]\n", "                self.b[n] += self.M_T[i, n] * self.Lambda[i]\n", "prior mean vector built from the variances")
M("C01", "C01-TENSOR", PYX, "            self.Ainv[i, i] = 1 / self.Lambda[i]\n", "            self.Ainv[i, i] = self.Lambda[i]\n", "prior precision not inverted")
T("C01", PYX, "                    self.Ainv[i, j] += (self.M_T[j, n] * self.s_ivar[n]\n                                        * self.M_T[i, n])", "                    self.Ainv[i, j] += (self.M_T[i, n] * self.M_T[j, n]\n                                        * self.s_ivar[n])", "factors of a product reordered")
M("C01", "C01-UNIT", PYX, "                self.P0 = dist._P0.to_value(self.internal_units['P'])", "                self.P0 = dist._P0.to_value(getattr(prior.pars['P'],\n                                                    xu.UNIT_ATTR_NAME))", "P0 unit (reverse of fix)")
M("C01", "C01-DESIGN", LH, "    trend_M = np.vander(dt, N=poly_trend, increasing=True)[:, 1:]\n", "    trend_M = np.vander(dt, N=poly_trend)[:, :-1]\n", "trend columns in decreasing power order (poly_trend >= 3)")
M("C01", "C01-DESIGN", PR, "        self.v0_offsets = v0_offsets\n", "        self.v0_offsets = sorted(v0_offsets, key=lambda p: p.name)\n", "offset priors sorted by name (seeded C01-A)")
M("C01", "C01-ENTRY", PYX, "            ll[n] = self.likelihood_worker(0)\n", "            ll[0] = self.likelihood_worker(0)\n", "every value written to slot 0")

# ---------------------------------------------------------------- C03
_POST_PRO = "                self.Lambda[0] = (self.sigma_K0**2 / (1 - e**2)\n                                  * (P / self.P0)**(-2/3.))\n                self.Lambda[0] = min(self.max_K**2, self.Lambda[0])\n\n            # compute likelihood, but also generate a, Ainv"
M("C03", "C03-PRO", PYX, _POST_PRO, _POST_PRO.replace("                self.Lambda[0] = min(self.max_K**2, self.Lambda[0])\n", ""), "cap missing on the posterior path (reverse of fix)")
M("C03", "C03-PRO", PYX, "            get_ivar(self.ivar, chunk[n, 4], self.s_ivar)\n\n            # TODO: this is a continuation of the massive hack introduced above.\n            if self.fixed_K_prior == 0:\n" + _POST_PRO, "            get_ivar(self.ivar, chunk[n, 3], self.s_ivar)\n\n            # TODO: this is a continuation of the massive hack introduced above.\n            if self.fixed_K_prior == 0:\n" + _POST_PRO, "posterior path folds the wrong column as jitter")
M("C03", "C03-PRO", PYX, _POST_PRO, _POST_PRO.replace("(-2/3.)", "(-1/3.)"), "posterior path uses another variance rule")
M("C03", "C03-DRAW", PYX, "            _ll = self.likelihood_worker(1)  # the 1 is \"True\"\n", "            _ll = self.likelihood_worker(0)\n", "likelihood_worker(0): a / Ainv not refreshed")
M("C03", "C03-DRAW", PYX, "                self.a, np.linalg.inv(self.Ainv), size=n_linear_samples_per)", "                self.a, np.array(self.Ainv), size=n_linear_samples_per)", "precision used as covariance")
M("C03", "C03-DRAW", PYX, "            linear_pars = rng.multivariate_normal(\n", "            linear_pars = np.random.default_rng().multivariate_normal(\n", "fresh generator for the linear draws")
M("C03", "C03-DRAW", PYX, "                self.a, np.linalg.inv(self.Ainv), size=n_linear_samples_per)", "                self.a, np.linalg.inv(self.Ainv), size=1)", "one draw regardless of n_linear_samples")
T("C03", PYX, "                self.a, np.linalg.inv(self.Ainv), size=n_linear_samples_per)", "                self.a, np.array(self.A), size=n_linear_samples_per)", "covariance taken from A")
M("C03", "C03-TENSOR", PYX, "                    self.a[i] += self.M_T[i, n] * self.s_ivar[n] * self.rv[n]\n", "                    self.a[i] += self.M_T[i, n] * self.rv[n]\n", "weights dropped from the rhs")
M("C03", "C03-TENSOR", PYX, "                self.a[i] += self.mu[i] / self.Lambda[i]\n", "                self.a[i] += self.mu[i] * self.Lambda[i]\n", "prior term multiplied by the variance")
M("C03", "C03-TENSOR", PYX, "                self.a[i] += self.mu[i] / self.Lambda[i]\n", "                pass\n", "prior mean term dropped")
M("C03", "C03-LAYOUT", PYX, "                    samples[n, j, 5 + k] = linear_pars[j, k]\n", "                    samples[n, j, 5 + k] = linear_pars[j, 0]\n", "every linear column holds K")
M("C03", "C03-LAYOUT", PYX, "                    samples[n, j, 5 + k] = linear_pars[j, k]\n", "                    samples[n, j, 4 + k] = linear_pars[j, k]\n", "linear block shifted onto the jitter column")
M("C03", "C03-LAYOUT", SM, "        for i, k in enumerate(list(units.keys())[:npars]):\n            unit = units[k]\n", "        names = list(samples._valid_units.keys())\n        for i, k in enumerate(names[:npars]):\n            unit = units[k]\n", "unpack names columns from the samples object's own table (seeded C03-A)")
M("C03", "C03-LAYOUT", PYX, "        for offset in prior.v0_offsets:\n            self.internal_units[offset.name] = self.data.rv.unit\n\n        for i, name in enumerate(prior._v_trend_names):\n            self.internal_units[name] = self.data.rv.unit / u.day ** i\n",
  "        for i, name in enumerate(prior._v_trend_names):\n            self.internal_units[name] = self.data.rv.unit / u.day ** i\n\n        for offset in prior.v0_offsets:\n            self.internal_units[offset.name] = self.data.rv.unit\n", "offsets named after the trend terms")
M("C03", "C03-INDEP", MP, "        sg = rng.bit_generator._seed_seq.spawn(len(tasks))\n        for i in range(len(tasks)):\n            tasks[i] = tuple(tasks[i]) + (Generator(PCG64(sg[i])),)\n", "        for i in range(len(tasks)):\n            tasks[i] = tuple(tasks[i]) + (rng,)\n", "every task gets the parent generator (seeded C03-B)")
M("C03", "C03-JIT", PYX, "                    self.a[i] += self.M_T[i, n] * self.s_ivar[n] * self.rv[n]\n", "                    self.a[i] += self.M_T[i, n] * self.ivar[n] * self.rv[n]\n", "rhs uses the raw weights (reverse of fix)")

# ---------------------------------------------------------------- C04
M("C04", "C04-TREF", LH, "        t_ref=joker_helper.data.t_ref,\n        poly_trend=joker_helper.prior.poly_trend,\n        n_offsets=joker_helper.prior.n_offsets,\n    )\n\n    return samples\n\n\ndef rejection_sample_inmem", "        poly_trend=joker_helper.prior.poly_trend,\n        n_offsets=joker_helper.prior.n_offsets,\n    )\n\n    return samples\n\n\ndef rejection_sample_inmem", "in-memory posterior samples carry no t_ref")
M("C04", "C04-TREF", SM, "        orbit._vtrend = PolynomialRVTrend(trend_coeffs, t0=self.t_ref)\n", "        orbit._vtrend = PolynomialRVTrend(trend_coeffs, t0=None)\n", "trend epoch dropped in get_orbit")
M("C04", "C04-TREF", SM, "        orbit.elements.t0 = self.t_ref\n", "", "elements.t0 left at the cached template's value")
M("C04", "C04-TREF", LH, "    dt = data._t_bmjd - data._t_ref_bmjd\n", "    dt = data._t_bmjd - data._t_bmjd[0]\n", "sampler's trend measured from the first epoch (seeded C04-A)")
M("C04", "C04-TREF", PYX, "        self.t0 = data._t_ref_bmjd\n", "        self.t0 = data._t_bmjd[0]\n", "kernel phases measured from the first epoch")
M("C04", "C04-MAP", SM, "        orbit.elements._omega = omega\n        orbit.elements._M0 = M0\n", "        orbit.elements._omega = M0\n        orbit.elements._M0 = omega\n", "omega and M0 swapped in get_orbit")
M("C04", "C04-MAP", SM, "        a = kwargs.pop(\"a\", P * K / (2 * np.pi) * np.sqrt(1 - e**2))\n", "        a = kwargs.pop(\"a\", P * K / (2 * np.pi) * (1 - e**2))\n", "semi-major axis without the square root")
M("C04", "C04-MAP", SM, "        trend_coeffs = [self[x] for x in names[1:]]  # skip K\n", "        trend_coeffs = [self[x] for x in names[:-1]]\n", "trend coefficients include K, drop the last term")
T("C04", SM, "        a = kwargs.pop(\"a\", P * K / (2 * np.pi) * np.sqrt(1 - e**2))\n", "        a = kwargs.pop(\"a\", K * P * np.sqrt(1 - e * e) / np.pi / 2)\n", "semi-major axis rewritten equivalently")
M("C04", "C04-VAR", SM, "                model_rv.to_value(data_unit), data_rv, data_var + s\n", "                model_rv.to_value(data_unit), data_rv, data_var\n", "jitter not added to the variances")
M("C04", "C04-VAR", SM, "            s_vars = self[\"s\"].to_value(data_unit) ** 2\n", "            s_vars = self[\"s\"].to_value(data_unit)\n", "jitter not squared")
M("C04", "C04-VAR", LH, "    return -0.5 * (np.log(2 * np.pi * var) + (x - mu) ** 2 / var)\n", "    return -0.5 * (np.log(2 * np.pi * var) + (x - mu) ** 2 / np.sqrt(var))\n", "ln_normal divides by sigma")
M("C04", "C04-JIT", PYX, "            self.Binv[n, n] = self.s_ivar[n]\n", "            self.Binv[n, n] = self.ivar[n]\n", "kernel ignores the jitter in Binv (reverse of fix)")
M("C04", "C04-KEPLER", PYX, "                            P, 1., e, om, M0, self.t0,\n                            anomaly_tol, anomaly_maxiter)", "                            P, 2., e, om, M0, self.t0,\n                            anomaly_tol, anomaly_maxiter)", "unit-amplitude column scaled by two in the test hook")
M("C04", "C04-IO", SM, "                        tbl.meta[\"__t_ref_bmjd\"], format=\"mjd\", scale=\"tcb\"\n", "                        tbl.meta[\"__t_ref_bmjd\"], format=\"mjd\"\n", "FITS epoch read back without the TCB scale (seeded C04-B)")
T("C19", SA, "    T = data.t.jd.max() - data.t.jd.min()\n", "    T = data._t_bmjd[-1] - data._t_bmjd[0]\n", "baseline from the ends of the time-sorted array")
M("C02", "C02-API", TJ, "                max_posterior_samples=max_posterior_samples,\n                n_linear_samples=n_linear_samples,\n                return_all_logprobs=return_all_logprobs,\n            )", "                n_linear_samples=n_linear_samples,\n                return_all_logprobs=return_all_logprobs,\n            )", "in-memory rejection ignores max_posterior_samples")
M("C03", "C03-API", TJ, "                max_posterior_samples=max_posterior_samples,\n                n_linear_samples=n_linear_samples,\n                return_logprobs=return_logprobs,\n", "                max_posterior_samples=max_posterior_samples,\n                return_logprobs=return_logprobs,\n", "file path ignores n_linear_samples")
M("C02", "C02-TRUNC", LH, "        max_posterior_samples = len(prior_samples_batch)\n", "        max_posterior_samples = len(prior_samples_batch) - 1\n", "default limit drops the last accepted sample")
M("C01", "C01-", LH, "    if prior_samples_batch.dtype != np.float64:\n        prior_samples_batch = prior_samples_batch.astype(np.float64)\n\n    # memoryview is returned\n", "    prior_samples_batch = prior_samples_batch.astype(np.float32).astype(np.float64)\n\n    # memoryview is returned\n", "packed batch rounded to single precision")
M("C14", "C14-CHAIN", MP, "        all_idx = np.arange(0, max_prior_samples, 1)\n", "        all_idx = np.resize(np.arange(0, n_total_samples, 1), max_prior_samples)\n", "row order tiled to the budget (seeded C14-C)")
M("C14", "C14-WRAP", UT, "            finally:\n                os.unlink(f.name)\n", "            finally:\n                os.unlink(f.name)\n                return func_return\n", "return inside finally swallows failures (seeded C14-D)")
M("C13", "C13-TMP", UT, "            finally:\n                os.unlink(f.name)\n", "            finally:\n                os.unlink(f.name)\n                return func_return\n", "return inside finally swallows failures (seeded C14-D)")
T("C14", MP, "        all_idx = rng.choice(n_total_samples, size=max_prior_samples, replace=False)\n", "        all_idx = rng.permutation(n_total_samples)[:max_prior_samples]\n", "prefix of a permutation")
T("C13", UT, "            f = NamedTemporaryFile(mode=\"r+\", suffix=\".hdf5\", delete=False)\n            f.close()\n", "            f = NamedTemporaryFile(mode=\"r+\", suffix=\".hdf5\", delete=False)\n            f.close()\n            func_return = None\n", "harmless constant binding before the try")
T("C09", DI, _LOGP_OLD, _LOGP_OLD.replace("            res = pt.switch(\n                (value >= a) & (value <= b),\n                -pt.log(value) - pt.log(_fac),\n                -np.inf,\n            )\n", "            res = pt.switch(\n                (value < a) | (value > b),\n                -np.inf,\n                -pt.log(value) - pt.log(_fac),\n            )\n"), "support switch written with the outside test first")
M("C09", "C09-SUPP", DI, _LOGP_OLD, _LOGP_OLD.replace("            res = pt.switch(\n                (value >= a) & (value <= b),\n                -pt.log(value) - pt.log(_fac),\n                -np.inf,\n            )\n", "            ln_v = pt.log(value)\n            res = pt.switch(\n                (ln_v < pt.log(a)) | (ln_v > pt.log(b)),\n                -np.inf,\n                -ln_v - pt.log(_fac),\n            )\n"), "outside test on log(value): NaN for negative values selects the density (seeded C09-C)")
M("C09", "C09-WIRE", PR, "            sigma_K0=sigma_K0,\n            P0=P0,\n            sigma_v=sigma_v,\n", "            sigma_K0=sigma_K0,\n            sigma_v=sigma_v,\n", "JokerPrior.default does not forward P0 (seeded C09-D, first half)")

# ---------------------------------------------------------------- transparent helpers (sa/inline.py): decorated helpers are never transparent
_HDR = "def read_batch_slice(prior_samples_file, columns, slice, units=None):"
_OLD1 = "    with h5py.File(prior_samples_file, mode=\"r\") as f:\n        table_units = table_header_to_units(f[meta_path(path)])\n\n    batch = None\n"
_NEW1 = "    table_units = _read_table_units(prior_samples_file, path)\n\n    batch = None\n"
_OLD2 = "    with h5py.File(prior_samples_file, mode=\"r\") as f:\n        table_units = table_header_to_units(f[meta_path(path)])\n\n    batch = np.zeros((len(idx), len(columns)))\n"
_NEW2 = "    table_units = _read_table_units(prior_samples_file, path)\n\n    batch = np.zeros((len(idx), len(columns)))\n"
_HELPER = "def _read_table_units(prior_samples_file, path):\n    with h5py.File(prior_samples_file, mode=\"r\") as f:\n        return table_header_to_units(f[meta_path(path)])\n\n\n"
_MEMO = "import functools\n\n\n@functools.lru_cache(maxsize=8)\n"
for _p, _r in (("C01", "C01-FEED"), ("C05", "C05-"), ("C07", "C07-READ"), ("C12", "C12-COL")):
    M(_p, _r, [(UT, _HDR, _MEMO + _HELPER + _HDR), (UT, _OLD1, _NEW1), (UT, _OLD2, _NEW2)], name="header units read through a memoised helper (stale after the file is rewritten)")
    T(_p, [(UT, _HDR, _HELPER + _HDR), (UT, _OLD1, _NEW1), (UT, _OLD2, _NEW2)], name="header units read through a plain extracted helper")

# ---------------------------------------------------------------- C13-PICKLE
_BT = "def batch_tasks(n_tasks, n_batches, arr=None, args=None, start_idx=0):"
_RB_OLD = "        batch = read_batch_idx(prior_samples_file, columns, slice_or_idx, units=units)\n"
_RB_NEW = "        try:\n            batch = read_batch_idx(prior_samples_file, columns, slice_or_idx, units=units)\n        except Exception as e:\n            raise PriorCacheReadError(prior_samples_file, e) from e\n"
_CLS_BAD = "class PriorCacheReadError(RuntimeError):\n    def __init__(self, filename, err):\n        super().__init__(f\"Failed to read '{filename}': {err!r}\")\n        self.filename = filename\n\n\n"
_CLS_OK = "class PriorCacheReadError(RuntimeError):\n    def __init__(self, filename, err):\n        super().__init__(filename, err)\n        self.filename = filename\n\n\n"
M("C13", "C13-PICKLE", [(UT, _BT, _CLS_BAD + _BT), (UT, _RB_OLD, _RB_NEW)], name="worker failure re-raised as an exception that cannot be un-pickled (pool hangs)")
T("C13", [(UT, _BT, _CLS_OK + _BT), (UT, _RB_OLD, _RB_NEW)], name="worker failure re-raised as a picklable exception naming the file")

_TF_OLD = "            except Exception as e:\n                raise e\n            finally:\n                os.unlink(f.name)\n"
M("C13", "C13-TMP", UT, _TF_OLD, "            except Exception:\n                os.unlink(f.name)\n                raise\n            os.unlink(f.name)\n", "cleanup only for Exception subclasses (Ctrl-C / SystemExit leak the cache file)")
T("C13", UT, _TF_OLD, "            except BaseException:\n                os.unlink(f.name)\n                raise\n            os.unlink(f.name)\n", "cleanup spelled as catch-all handler + unlink after the try")

# ---------------------------------------------------------------- C05-PICKLE
_CP = "    def __copy__(self):\n"
M("C05", "C05-PICKLE", DT, _CP, "    def __reduce__(self):\n        return (self.__class__, (self._t_bmjd, self.rv, self.rv_err, self.t_ref))\n\n" + _CP, "RVData.__reduce__ loses a disabled reference epoch in worker processes")
T("C05", DT, _CP, "    def __reduce__(self):\n        return (self.__class__, (self._t_bmjd, self.rv, self.rv_err, False if self.t_ref is None else self.t_ref))\n\n" + _CP, "RVData.__reduce__ that keeps the reference epoch")

# ---------------------------------------------------------------- C17-META receiving side
M("C17", "C17-META", SM, '            poly_trend = meta.pop("poly_trend", poly_trend)\n', '            _pt = meta.pop("poly_trend", None)\n            poly_trend = _pt if poly_trend is None else poly_trend\n', "table's poly_trend ignored because the argument was already defaulted")
M("C17", "C17-META", SM, '            n_offsets = meta.pop("n_offsets", n_offsets)\n', '            meta.pop("n_offsets", None)\n', "table's n_offsets dropped")
T("C17", SM, '            poly_trend = meta.pop("poly_trend", poly_trend)\n', '            table_poly_trend = meta.pop("poly_trend", poly_trend)\n            poly_trend = table_poly_trend\n', "popped value through a temporary")

# ---------------------------------------------------------------- round-4 clauses (mutant + behaviour-preserving twin each)
_MAPIF = "    if randomize_prior_order:\n        full_samples_idx = idx[good_samples_idx]\n    else:\n        full_samples_idx = good_samples_idx\n"
M("C06", "C06-SPACE", MP, _MAPIF, "    if randomize_prior_order is True:\n        full_samples_idx = idx[good_samples_idx]\n    else:\n        full_samples_idx = good_samples_idx\n",
  "row map chosen on `is True`, evaluation order on truthiness")
T("C06", MP, _MAPIF, "    full_samples_idx = good_samples_idx if not randomize_prior_order else idx[good_samples_idx]\n", "row map chosen by the same test, inverted conditional expression")
T("C06", MP, '        idx = rng.choice(n_total_samples, size=n_prior_samples, replace=False)\n        ll_kw["samples_idx"] = idx\n',
  '        ll_kw["samples_idx"] = idx = rng.choice(n_total_samples, size=n_prior_samples, replace=False)\n', "chained assignment of the row map")
M("C06", "C06-ALL", LH, "    good_samples_idx = np.where(np.exp(lls - lls.max()) > uu)[0]\n    good_samples_idx = good_samples_idx[:max_posterior_samples]\n\n    # generate linear parameters\n    samples = make_full_samples_inmem(\n        joker_helper,\n        prior_samples_batch[good_samples_idx],",
  "    good_samples_idx = np.where(np.exp(lls - lls.max()) > uu)[0]\n    good_samples_idx = good_samples_idx[:max_posterior_samples]\n    lls -= lls.max()\n\n    # generate linear parameters\n    samples = make_full_samples_inmem(\n        joker_helper,\n        prior_samples_batch[good_samples_idx],",
  "evaluated likelihoods shifted in place before they are returned")
M("C19", "C19-PURE", SA, "    ln_post = samples['ln_prior'] + samples['ln_likelihood']\n", "    ln_post = samples['ln_prior']\n    ln_post += samples['ln_likelihood']\n", "MAP_sample accumulates into the caller's ln_prior column")
T("C19", SA, "    ln_post = samples['ln_prior'] + samples['ln_likelihood']\n", "    ln_post = samples['ln_prior'].copy()\n    ln_post = ln_post + samples['ln_likelihood']\n", "MAP_sample sums into a copy")
M("C09", "C09-SUM", PR, "        if return_logprobs:\n            # raise NotImplementedError", "        raw_samples[\"omega\"] %= 2 * np.pi\n        if return_logprobs:\n            # raise NotImplementedError", "draws wrapped in place before the log-density")
M("C04", "C04-EPOCH", DH, "    trend_M = get_trend_design_matrix(all_data, ids, poly_trend)\n", "    all_data.t_ref = data[list(data.keys())[0]].t_ref if hasattr(data, 'keys') else all_data.t_ref\n    trend_M = get_trend_design_matrix(all_data, ids, poly_trend)\n", "t_ref assigned outside the constructor")
M("C15", "C15-GUESS", DT, "            if err_data is not None and err_data.unit is u.one:\n", "            if err_data is not None and rv_data.unit is not u.one:\n", "error column's fall-back unit decided on the velocity column")
T("C15", DT, "        if rv_unit is not None:\n            if rv_data.unit is u.one:\n                rv_data = rv_data * rv_unit\n", "        if rv_unit is not None and rv_data.unit is u.one:\n            rv_data = rv_unit * rv_data\n        if rv_unit is not None:\n", "fall-back unit: merged guard, commuted product")
M("C12", "C12-REFUSE", SH, "        # Now compare datatype of this object and on disk\n", "        output_group[name].attrs['n_appends'] = output_group[name].attrs.get('n_appends', 0) + 1\n        # Now compare datatype of this object and on disk\n", "dataset attribute written before the dtype check")
M("C02", "C02-API", TJ, "        joker_helper = self._make_joker_helper(data)  # also validates data\n\n        if isinstance(prior_samples, int):\n            # If an integer, generate that many prior samples first\n",
  "        joker_helper = self._make_joker_helper(data)  # also validates data\n        if max_posterior_samples is None:\n            max_posterior_samples = n_prior_samples\n\n        if isinstance(prior_samples, int):\n            # If an integer, generate that many prior samples first\n", "default of max_posterior_samples resolved in the public method")
_ATT = "        sg = rng.bit_generator._seed_seq.spawn(len(tasks))\n        for i in range(len(tasks)):\n            tasks[i] = tuple(tasks[i]) + (Generator(PCG64(sg[i])),)\n"
T("C16", MP, _ATT, "        sg = rng.spawn(len(tasks))\n        for i in range(len(tasks)):\n            tasks[i] = tuple(tasks[i]) + (sg[i],)\n", "Generator.spawn spelling, one child per task")
T("C10", MP, _ATT, "        sg = rng.spawn(len(tasks))\n        for i in range(len(tasks)):\n            tasks[i] = tuple(tasks[i]) + (sg[i],)\n", "Generator.spawn spelling, one child per task")
M("C16", "C16-ATTACH", MP, _ATT, "        tasks = [tuple(t) + (g,) for t, g in zip(tasks, rng.spawn(max(1, pool.size)))]\n", "tasks zipped with one child per worker: the rest is dropped")

# ---------------------------------------------------------------- round-5 clauses
M("C12", "C12-PATHS", SM, "        if samples is not None:\n            _tbl = QTable(samples)", "        if samples:\n            _tbl = QTable(samples)", "constructor ingests columns on truthiness")
T("C12", SM, "        if samples is not None:\n            _tbl = QTable(samples)", "        if not (samples is None):\n            _tbl = QTable(samples)", "constructor guard spelled `not (x is None)`")
M("C17", "C17-META", SM, "        self.tbl[key] = val\n\n    @property\n    def t_ref", "        self.tbl.add_column(val, name=key, copy=False) if key not in self.tbl.colnames else self.tbl.__setitem__(key, val)\n\n    @property\n    def t_ref", "__setitem__ aliases the caller's array")
M("C18", "C18-PRESENT", PR, "        pars.update({p.name: p for p in self.v0_offsets})\n", "        pars.update({p.name: p for p in self.v0_offsets})\n        pars.setdefault(\"s\", xu.with_unit(pt.as_tensor_variable(0.0), u.m / u.s))\n", "constructor supplies a default jitter")
M("C09", "C09-WIRE", PR, "        pars.update({p.name: p for p in self.v0_offsets})\n", "        pars.update({\"dv0_%d\" % (i + 1): p for i, p in enumerate(self.v0_offsets)})\n", "offset priors keyed by position")
T("C09", PR, "        pars.update({p.name: p for p in self.v0_offsets})\n", "        for off in self.v0_offsets:\n            pars[off.name] = off\n", "offset priors registered in a loop")
M("C16", "C16-RUN", MP, "    if rng is not None:\n        from numpy.random import PCG64, Generator\n", "    tasks = [task for task in tasks if len(task[0]) > 0]\n    if rng is not None:\n        from numpy.random import PCG64, Generator\n", "task list filtered")
M("C15", "C15-IO", DT, "        t_ref = ts.meta.get(\"t_ref\", None)\n        return cls(t=ts[\"time\"]", "        ts.sort(\"time\")\n        t_ref = ts.meta.get(\"t_ref\", None)\n        return cls(t=ts[\"time\"]", "table sorted before construction")
M("C13", "C13-LOCK", UT, "    if isinstance(slice_or_idx, tuple):\n        # read a contiguous batch of prior samples\n        batch = read_batch(", "    import threading\n    _g = threading.Lock()\n    _g.acquire()\n    if isinstance(slice_or_idx, tuple):\n        # read a contiguous batch of prior samples\n        batch = read_batch(", "lock acquired and never released in a finally")
M("C12", "C12-REFUSE", SH, "        finally:\n            f.close()\n", "        except Exception:\n            f.close()\n            os.remove(output)\n            raise\n        finally:\n            f.close()\n", "failed write by file name deletes the file (also on append)")
M("C10", "C10-LIBRNG", TJ, "            MAP_sample = joker_samples.median_period()\n", "            from sklearn.cluster import KMeans\n            KMeans(n_clusters=2).fit(np.log(joker_samples['P'].value).reshape(-1, 1))\n            MAP_sample = joker_samples.median_period()\n", "setup_mcmc runs an unseeded KMeans")
M("C11", "C11-PURE", SA, "    P_samples = samples['P'].to(u.day).value\n    P_min = np.min(P_samples)\n", "    P_samples = samples['P'].to_value(u.day)\n    P_samples.sort()\n    P_min = P_samples[0]\n", "is_P_unimodal sorts a view of the caller's periods")
T("C11", SA, "    P_samples = samples['P'].to(u.day).value\n    P_min = np.min(P_samples)\n", "    P_samples = np.sort(samples['P'].to_value(u.day))\n    P_min = P_samples[0]\n", "is_P_unimodal sorts a copy")
M("C08", "C08-COL", TJ, "        return CJokerHelper(all_data, self.prior, trend_M)\n", "        trend_M[:, 0] = 1.0\n        return CJokerHelper(all_data, self.prior, trend_M)\n", "design matrix edited before it reaches the kernel")
M("C11", "C11-TREND", DH, "    return all_data, ids, trend_M\n", "    return all_data, ids[np.argsort(t)], trend_M\n", "labels returned in another order than the design matrix used")
M("C04", "C04-INFER", SM, "            samples[\"ln_posterior\"] = posterior.logp.to_numpy().ravel()\n", "            samples[\"ln_posterior\"] = posterior.logp.to_numpy().T.ravel()\n", "log-posterior flattened in another order than the parameters")
M("C05", "C05-DTYPE", UT, "                batch = np.zeros((len(arr), len(columns)), dtype=arr.dtype)\n", "                batch = np.zeros((len(arr), len(columns)))\n", "slice reader allocates double precision up front")

# ---------------------------------------------------------------- round-6 clauses
M("C09", "C09-STATE", PR, "        model=None,\n        pars=None,\n    ):\n        r\"\"\"\n        An alternative initializer", "        model=None,\n        pars={},\n    ):\n        r\"\"\"\n        An alternative initializer", "mutable default forwarded by JokerPrior.default")
M("C16", "C16-P", UT, "            i1 = i2\n", "            i1 += i2 - i1\n", "cursor updated in place")
M("C17", "C17-META", SM, "        if isinstance(samples, (Row, Table, QTable)):\n", "        if isinstance(samples, Table):\n", "metadata branch no longer covers Row")
M("C12", "C12-PATHS", SM, "        self.tbl.meta[\"t_ref\"] = t_ref\n", "        if t_ref is not None:\n            self.tbl.meta[\"t_ref\"] = t_ref\n", "t_ref stored only when given")
M("C02", "C02-NPRIOR", MP, "    return np.concatenate(results)\n", "    lls = np.concatenate(results)\n    lls.sort()\n    return lls\n", "likelihoods sorted in place before they are returned")
M("C10", "C10-ALIAS", PR, "    @deprecated_renamed_argument(\n        \"random_state\", \"rng\", since=\"v1.3\", warning_type=DeprecationWarning\n    )\n    def sample(", "    def sample(", "renaming decorator dropped from prior.sample")
M("C11", "C11-NAMES", PR, "        self.pars = pars\n\n    @classmethod", "        self.pars = pars\n        if \"t_peri\" not in self.model.named_vars:\n            with self.model:\n                pm.Deterministic(\"t_peri\", pars[\"P\"] * pars[\"M0\"] / (2 * np.pi))\n\n    @classmethod", "t_peri registered by the prior")
M("C13", "C13-TMP", UT, "            f = NamedTemporaryFile(mode=\"r+\", suffix=\".hdf5\", delete=False)\n            f.close()\n", "            from tempfile import mkstemp\n            _fd, _name = mkstemp(suffix=\".hdf5\")\n            f = NamedTemporaryFile(mode=\"r+\", suffix=\".hdf5\", delete=False)\n            f.close()\n", "mkstemp descriptor never closed")
T("C16", UT, "            i1 = i2\n", "            i1 = i1 + (i2 - i1)\n", "cursor re-bound through an equal expression")
