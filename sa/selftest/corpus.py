"""The acceptance corpus (DESIGN.md appendix A): mutants that must be reported
by the named rule and behaviour-preserving twins that must stay silent."""

CORPUS = []

UT = "thejoker/utils.py"
MP = "thejoker/multiproc_helpers.py"
LH = "thejoker/likelihood_helpers.py"
TJ = "thejoker/thejoker.py"
SM = "thejoker/samples.py"
SH = "thejoker/samples_helpers.py"
SA = "thejoker/samples_analysis.py"
DT = "thejoker/data.py"
DH = "thejoker/data_helpers.py"
PR = "thejoker/prior.py"
PH = "thejoker/prior_helpers.py"
DI = "thejoker/distributions.py"
PYX = "thejoker/src/fast_likelihood.pyx"
KO = "thejoker/_keplerian_orbit.py"
PL = "thejoker/plot.py"


def _edits(path, old, new):
    if isinstance(path, list):
        return path
    return [(path, old, new)]


def M(prop, rule, path, old=None, new=None, name=None):
    CORPUS.append({"kind": "M", "prop": prop, "rule": rule, "edits": _edits(path, old, new),
                   "name": name or "%s -> %s" % ((old or "")[:30].strip(), (new or "")[:30].strip())})


def T(prop, path, old=None, new=None, name=None):
    CORPUS.append({"kind": "T", "prop": prop, "rule": None, "edits": _edits(path, old, new),
                   "name": name or "%s -> %s" % ((old or "")[:30].strip(), (new or "")[:30].strip())})


# ---------------------------------------------------------------- C16
M("C16", "C16-P", UT, "            i1 = i2\n", "            i1 = i2 + 1\n", "cursor skips a row between batches")
M("C16", "C16-P", UT, "if i < rmdr:", "if i <= rmdr:", "remainder given to one batch too many")
M("C16", "C16-P", UT, "tasks.append([(i1, i2), i1] + args)", "tasks.append([(i1, i2), i] + args)", "task id is the batch number")
M("C16", "C16-P", UT, "if n_batches > 0 and n_tasks >= n_batches:", "if n_tasks > 0:", "guard no longer bounds n_batches")
M("C16", "C16-P", UT, "tasks.append([(start_idx, n_tasks + start_idx), start_idx] + args)", "tasks.append([(start_idx, n_tasks), start_idx] + args)", "fall-back range forgets start_idx")
M("C16", "C16-P", UT, "        i1 = start_idx\n", "        i1 = 0\n", "cursor ignores start_idx")
M("C16", "C16-P", UT, "tasks.append([arr[i1:i2], i1] + args)", "tasks.append([arr[i1:i2 - 1], i1] + args)", "array batches drop their last row")
M("C16", "C16-P", UT, "            i2 = i1 + base_batch_size\n", "            i2 = i1 + base_batch_size + 1\n", "batches overlap/grow by one")
M("C16", "C16-P", UT, "rmdr = n_tasks % n_batches", "rmdr = n_tasks % base_batch_size", "wrong remainder")
M("C16", "C16-P", UT, "tasks.append([arr[start_idx : n_tasks + start_idx], start_idx] + args)", "tasks.append([arr[start_idx:n_tasks], start_idx] + args)", "fall-back array slice forgets start_idx")
T("C16", UT, "if n_batches > 0 and n_tasks >= n_batches:", "if n_batches > 0 and n_tasks > n_batches:", "stronger guard only takes the fall-back more often")
T("C16", UT, "            i2 = i1 + base_batch_size\n", "            i2 = base_batch_size + i1\n", "commuted sum")
T("C16", UT, "            i2 = i1 + base_batch_size\n            if i < rmdr:\n                i2 += 1\n", "            i2 = i1 + base_batch_size + (1 if i < rmdr else 0)\n", "conditional expression")
T("C16", UT, "if n_batches > 0 and n_tasks >= n_batches:", "if n_batches >= 1 and n_batches <= n_tasks:", "equivalent guard")
M("C16", "C16-RUN", MP, "n_samples, n_batches=n_batches, arr=samples_idx, args=task_args", "n_samples, n_batches=n_batches, args=task_args", "samples_idx dropped")
M("C16", "C16-RUN", MP, "        n_samples = len(samples_idx)\n", "        n_samples = len(samples_idx) - 1\n", "last requested row dropped")
M("C16", "C16-RUN", MP, "        results.append(res)\n\n    return results", "        results.append(res)\n\n    return results[::-1]", "results reversed")
M("C16", "C16-RUN", MP, 'raise ValueError("Don\'t specify both n_prior_samples and samples_idx")', "pass", "both selectors accepted")
M("C16", "C16-TUPLE", MP, "    slice_or_idx, task_id, prior_samples_file, joker_helper = task\n", "    slice_or_idx, task_id, joker_helper, prior_samples_file = task\n", "worker unpack order swapped")
M("C16", "C16-TUPLE", MP, "    task_args = (prior_samples_file, joker_helper, n_linear_samples)\n", "    task_args = (prior_samples_file, joker_helper, n_linear_samples, pool)\n", "producer adds an element the worker does not unpack")
