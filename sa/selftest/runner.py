"""Mutation / twin corpus runner.

Every entry is a textual edit (anchored on a unique source fragment) applied to
an in-memory overlay of one repository file; nothing is written to /repo.
 M (mutant): breaks the property -> the named rule must report a violation.
 T (twin):   behaviour-preserving -> the property's check must exit 0.
An entry whose anchor no longer exists in the tree is reported not-applicable.
A corpus failure means the *checker* is not to be trusted (exit 2), never a
VIOLATION of the property.
"""
import os
import sys
import time
from multiprocessing import Pool

from ..loader import Program, repo_root


def _apply(entry):
    root = repo_root()
    if entry.get("patch"):
        from . import patch as _patch
        try:
            with open(entry["patch"], encoding="utf-8") as f:
                return _patch.apply(f.read(), root)
        except OSError:
            return None
    overlay = {}
    for path, old, new in entry["edits"]:
        text = overlay.get(path)
        if text is None:
            try:
                with open(os.path.join(root, path), encoding="utf-8") as f:
                    text = f.read()
            except FileNotFoundError:
                return None
        if text.count(old) != 1:
            return None
        overlay[path] = text.replace(old, new)
    return overlay


def run_entry(entry):
    from ..__main__ import run_property
    overlay = _apply(entry)
    if overlay is None:
        return entry["name"], "n/a", "anchor not found (tree changed)"
    try:
        prog = Program(overlay=overlay)
    except Exception as e:
        return entry["name"], "fail", "overlay does not load: %s" % e
    code, ctx = run_property(entry["prop"], "quick", prog, quiet=True, write=False)
    viol = [] if ctx is None else [o for o in ctx.violations()]
    from ..report import load_known
    known = {k["key"] for k in load_known() if k.get("status") == "known"}
    fresh = [o for o in viol if o.key not in known]
    if entry["kind"] == "M":
        hit = [o for o in fresh if o.rule.startswith(entry["rule"])]
        if hit:
            return entry["name"], "ok", "%s: %s" % (hit[0].rule, hit[0].reason[:100])
        return entry["name"], "fail", "mutant not reported by %s (exit %s; fresh=%s)" % (entry["rule"], code, [o.rule for o in fresh])
    else:
        if code == 0:
            return entry["name"], "ok", "silent"
        det = [(o.rule, o.instance, o.reason[:80]) for o in fresh] or (ctx.incomplete if ctx else "load failure")
        und = [] if ctx is None else [(o.rule, o.instance, o.reason[:80]) for o in ctx.obls if o.verdict == "undecided"]
        return entry["name"], "fail", "twin raised exit %s: %s %s" % (code, det, und)


def select(prop=None, patches=False):
    from .corpus import CORPUS
    out = [e for e in CORPUS if prop is None or e["prop"] == prop]
    if patches:
        out += patch_entries(prop)
    return out


def patch_entries(prop=None):
    """the confirmed seeded changes of a property (mutants: must be reported by one of its rules) and the sub-agents' behaviour-preserving
    refactoring patches (twins: the property's check must stay silent), applied as in-memory overlays"""
    import glob
    import json
    base = os.path.join(os.path.dirname(os.path.dirname(os.path.dirname(os.path.abspath(__file__)))), "seeded")
    out = []
    for d in sorted(glob.glob(os.path.join(base, "C[0-9][0-9]-[A-Z]"))):
        pid = os.path.basename(d).split("-")[0]
        if prop is not None and pid != prop:
            continue
        out.append({"kind": "M", "prop": pid, "rule": pid + "-", "edits": [], "patch": os.path.join(d, "patch.diff"), "name": "seeded change %s" % os.path.basename(d)})
    props = [prop] if prop is not None else ["C%02d" % i for i in range(1, 20)]
    for f in sorted(glob.glob(os.path.join(base, "refactors*", "g*_r*.diff"))):
        for pid in props:
            out.append({"kind": "T", "prop": pid, "rule": None, "edits": [], "patch": f, "name": "refactoring %s/%s" % (os.path.basename(os.path.dirname(f)), os.path.basename(f))})
    return out


def run_all(entries, jobs=16):
    if not entries:
        return []
    if jobs <= 1 or len(entries) == 1:
        return [run_entry(e) for e in entries]
    with Pool(min(jobs, len(entries))) as p:
        return p.map(run_entry, entries, chunksize=1)


def summarize(entries, results, verbose=True):
    n_ok = sum(r[1] == "ok" for r in results)
    n_na = sum(r[1] == "n/a" for r in results)
    fails = [(e, r) for e, r in zip(entries, results) if r[1] == "fail"]
    if verbose:
        for e, r in zip(entries, results):
            print("  [%s] %-4s %s %-60s %s" % (e["prop"], r[1], e["kind"], e["name"][:60], r[2][:140]))
    print("selftest: %d entries, %d ok, %d not applicable, %d FAILED" % (len(entries), n_ok, n_na, len(fails)))
    return fails


def run_for_property_full(prop, jobs=16):
    entries = select(prop, patches=True)
    return entries, run_all(entries, jobs)


def run_for_property(prop, jobs=16):
    entries = select(prop)
    results = run_all(entries, jobs)
    return entries, results


def main(argv):
    import argparse
    ap = argparse.ArgumentParser(prog="check selftest")
    ap.add_argument("-j", type=int, default=16)
    ap.add_argument("--prop", default=None)
    ap.add_argument("-q", action="store_true")
    a = ap.parse_args(argv)
    t0 = time.time()
    entries = select(a.prop)
    results = run_all(entries, a.j)
    fails = summarize(entries, results, verbose=not a.q)
    for e, r in fails:
        print("SELFTEST-FAILURE %s %s %s: %s" % (e["prop"], e["kind"], e["name"], r[2]))
    print("wall %.1fs" % (time.time() - t0))
    return 2 if fails else 0
