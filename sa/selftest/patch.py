"""Minimal unified-diff applier (git diff output) producing an in-memory overlay {relative path: new text}; nothing is written anywhere.
Hunks are applied at their stated position, or at the nearest offset where the old lines match exactly; otherwise the patch does not apply (None)."""
import os
import re

_HUNK = re.compile(r"^@@ -(\d+)(?:,(\d+))? \+(\d+)(?:,(\d+))? @@")


def parse(difftext):
    files = []
    cur = None
    hunk = None
    for line in difftext.split("\n"):
        if line.startswith("diff --git "):
            cur = {"path": None, "hunks": []}
            files.append(cur)
            hunk = None
        elif line.startswith("+++ ") and cur is not None:
            p = line[4:].strip()
            cur["path"] = p[2:] if p.startswith("b/") else p
        elif line.startswith("--- "):
            continue
        elif line.startswith("@@") and cur is not None:
            m = _HUNK.match(line)
            if not m:
                return None
            hunk = {"start": int(m.group(1)), "old": [], "new": []}
            cur["hunks"].append(hunk)
        elif hunk is not None and line[:1] in (" ", "+", "-"):
            tag, body = line[0], line[1:]
            if tag in (" ", "-"):
                hunk["old"].append(body)
            if tag in (" ", "+"):
                hunk["new"].append(body)
        elif hunk is not None and line == "":
            # an empty context line may have lost its leading blank
            hunk["old"].append("")
            hunk["new"].append("")
        elif line.startswith("\\ No newline"):
            continue
    return [f for f in files if f["path"]]


def apply(difftext, root):
    files = parse(difftext)
    if files is None:
        return None
    overlay = {}
    for f in files:
        path = os.path.join(root, f["path"])
        if not os.path.exists(path):
            if all(not h["old"] for h in f["hunks"]):
                overlay[f["path"]] = "\n".join(l for h in f["hunks"] for l in h["new"]) + "\n"
                continue
            return None
        with open(path, encoding="utf-8") as fh:
            lines = fh.read().split("\n")
        shift = 0
        for h in f["hunks"]:
            old, new = list(h["old"]), list(h["new"])
            # trailing phantom blank lines produced by the split of the diff text
            while old and new and old[-1] == "" and new[-1] == "" and (h["start"] - 1 + shift + len(old) > len(lines) or lines[h["start"] - 1 + shift:h["start"] - 1 + shift + len(old)] != old):
                old.pop()
                new.pop()
            pos = h["start"] - 1 + shift
            found = None
            for delta in sorted(range(-60, 61), key=abs):
                q = pos + delta
                if q >= 0 and lines[q:q + len(old)] == old:
                    found = q
                    break
            if found is None:
                return None
            lines[found:found + len(old)] = new
            shift += len(new) - len(old) + (found - pos)
        overlay[f["path"]] = "\n".join(lines)
    return overlay
